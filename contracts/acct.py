"""Contracts for the size accounting in PyCdlib (C04/space, C04/pt, C06/finish)."""
from pyvc import sx
from pyvc import values as V
from pyvc.sx import And, Or, Not, Implies, If, Eq
from pyvc.contract import contract, Call
from contracts.utils import Base

VD = 'pycdlib.headervd.PrimaryOrSupplementaryVD'
PC = 'pycdlib.pycdlib.PyCdlib'
PTR = 'pycdlib.path_table_record.PathTableRecord'


def ceil_of(c, n, d):
    q, r = c.divmod(n, d)
    return If(r == 0, q, q + 1)


@contract
class AddToPtrSizeAllPVDs(Base):
    """C04/pt: adding (removing) a directory's path table record updates the path table size of EVERY primary volume descriptor
    (duplicates included) by record_length(len_di), keeps PT-INV in each, and books four blocks per descriptor whose tables grew"""
    target = PC + '._add_to_ptr_size'
    remove = False
    npvd = 2

    def setup(self, c):
        a = c.a
        a.size = c.int('path_tbl_size', 10, 1 << 30)
        a.len_di = c.int('len_di', 1, 207)
        a.d = 8 + a.len_di + If(c.divmod(a.len_di, 2)[1] == 1, 1, 0)
        if self.remove:
            c.assume(a.size - a.d >= 10)
        a.ceil0 = ceil_of(c, a.size, 4096)
        a.ceil1 = ceil_of(c, a.size - a.d if self.remove else a.size + a.d, 4096)
        a.pvds = [c.obj(VD, _initialized=True, path_tbl_size=a.size, path_table_num_extents=2 * a.ceil0, space_size=c.int('space%d' % i, 0)) for i in range(self.npvd)]
        a.self = c.obj(PC, _initialized=True, pvds=list(a.pvds), logical_block_size=2048)
        a.ptr = c.obj(PTR, _initialized=True, len_di=a.len_di)
        self.target = PC + ('._remove_from_ptr_size' if self.remove else '._add_to_ptr_size')
        return Call([a.ptr], self_obj=a.self)

    label = property(lambda self: 'pycdlib.PyCdlib.' + ('_remove_from_ptr_size' if self.remove else '_add_to_ptr_size'))

    def post(self, c, a, out):
        new = a.size - a.d if self.remove else a.size + a.d
        changed = a.ceil1 != a.ceil0
        return {'every-pvd-updated': And(*[And(p.path_tbl_size == new, p.path_table_num_extents == 2 * a.ceil1) for p in a.pvds]),
                'books-four-blocks-per-grown-table-set': out.result == If(changed, 4 * 2048 * self.npvd, 0)}

    def observe(self, c, a, out):
        return {'kind': out.kind, 'r': out.result, 'sizes': [p.path_tbl_size for p in a.pvds], 'ext': [p.path_table_num_extents for p in a.pvds]}


def reshuffle_hook(it, fv, args, kwargs):
    it.ctx.ghost['reshuffled'] = it.ctx.ghost.get('reshuffled', 0) + 1
    args[0].fields['_needs_reshuffle'] = False
    return None


@contract
class FinishAdd(Base):
    """C04/space + C06/finish: _finish_add(bytes, partition_bytes) raises the declared size of EVERY primary descriptor and of the
    Joliet descriptor by ceil((bytes+partition_bytes)/block), copies the sizes to the enhanced descriptor, and afterwards the
    derived metadata is either recomputed (always-consistent mode) or marked stale - never silently left out of date"""
    target = PC + '._finish_add'
    remove = False
    joliet = True
    enhanced = False
    always = False
    hooks = {PC + '._reshuffle_extents': reshuffle_hook}

    def setup(self, c):
        a = c.a
        a.n = c.int('bytes', 0, 1 << 40)
        a.m = 0 if self.remove else c.int('partition_bytes', 0, 1 << 40)
        a.ceil = ceil_of(c, a.n + a.m, 2048)
        mk = lambda name: c.obj(VD, _initialized=True, space_size=c.int(name, 1 << 20, 1 << 31), log_block_size=2048, path_tbl_size=c.int(name + '_pts', 10, 1 << 20),  # noqa
                                path_table_num_extents=c.int(name + '_pte', 2, 1 << 10))
        a.pvds = [mk('pvd0'), mk('pvd1')]
        a.jvd = mk('jvd') if self.joliet else None
        a.evd = mk('evd') if self.enhanced else None
        a.old = [p.space_size for p in a.pvds]
        a.jold = a.jvd.space_size if a.jvd is not None else None
        a.self = c.obj(PC, _initialized=True, pvds=list(a.pvds), pvd=a.pvds[0], joliet_vd=a.jvd, enhanced_vd=a.evd, udf_root=None, logical_block_size=2048,
                       _always_consistent=self.always, _needs_reshuffle=c.bool('was_stale'))
        if self.remove:
            self.target = PC + '._finish_remove'
            return Call([a.n, True], self_obj=a.self)
        return Call([a.n, a.m], self_obj=a.self)

    label = property(lambda self: 'pycdlib.PyCdlib.' + ('_finish_remove' if self.remove else '_finish_add'))
    real_hooks = {PC + '._reshuffle_extents': lambda self: setattr(self, '_needs_reshuffle', False)}

    def post(self, c, a, out):
        sign = -1 if self.remove else 1
        cl = {'every-pvd-size-updated': And(*[p.space_size == o + sign * a.ceil for p, o in zip(a.pvds, a.old)])}
        if a.jvd is not None:
            cl['joliet-size-updated'] = a.jvd.space_size == a.jold + sign * a.ceil
        if a.evd is not None:
            cl['enhanced-copies-sizes'] = And(a.evd.space_size == a.pvds[0].space_size, a.evd.path_tbl_size == a.pvds[0].path_tbl_size,
                                              a.evd.path_table_num_extents == a.pvds[0].path_table_num_extents)
        if self.always:
            cl['recomputed-now'] = Eq(a.self._needs_reshuffle, False)
            if c.symbolic:
                cl['reshuffle-called-once'] = c.p.ghost.get('reshuffled', 0) == 1
        else:
            cl['marked-stale'] = Eq(a.self._needs_reshuffle, True)
        return cl

    def observe(self, c, a, out):
        return {'kind': out.kind, 'sizes': [p.space_size for p in a.pvds], 'flag': a.self._needs_reshuffle}
