"""C14 failure atomicity as scenario contracts: a refused edit leaves the image exactly as it was - the next write produces the
bytes an identically built image produces on which the call was never made."""
from pyvc import sx
from pyvc import values as V
from pyvc.sx import And, Or, Not, Implies, If, Eq
from pyvc.contract import contract, Call
from contracts.utils import Base
from contracts import scenario as S

# (scenario id) -> (image flavour, method, args, kwargs, documented refusal)
REFUSALS = {
    # single-namespace refusals
    'add_fp:bad-iso-char': ('plain', 'add_fp', ['FILE', 4], dict(iso_path='/bad-name.;1')),
    'add_fp:duplicate-iso': ('plain', 'add_fp', ['FILE', 4], dict(iso_path='/FOO.;1')),
    'add_fp:missing-parent': ('plain', 'add_fp', ['FILE', 4], dict(iso_path='/NODIR/BAR.;1')),
    'add_fp:level1-long-name': ('plain', 'add_fp', ['FILE', 4], dict(iso_path='/LONGFILENAME.;1')),
    'add_fp:rr-name-on-plain': ('plain', 'add_fp', ['FILE', 4], dict(iso_path='/BAR.;1', rr_name='bar')),
    'add_fp:rr-name-missing': ('rr', 'add_fp', ['FILE', 4], dict(iso_path='/BAR.;1')),
    'add_fp:joliet-on-plain': ('plain', 'add_fp', ['FILE', 4], dict(iso_path='/BAR.;1', joliet_path='/bar')),
    'add_directory:bad-char': ('plain', 'add_directory', [], dict(iso_path='/bad-dir')),
    'add_directory:duplicate': ('plain', 'add_directory', [], dict(iso_path='/DIR1')),
    'add_directory:missing-parent': ('plain', 'add_directory', [], dict(iso_path='/NODIR/SUB')),
    'rm_file:missing': ('plain', 'rm_file', [], dict(iso_path='/NOPE.;1')),
    'rm_file:is-directory': ('plain', 'rm_file', [], dict(iso_path='/DIR1')),
    'rm_directory:is-file': ('plain', 'rm_directory', [], dict(iso_path='/FOO.;1')),
    'rm_directory:missing': ('plain', 'rm_directory', [], dict(iso_path='/NOPE')),
    'rm_directory:root': ('plain', 'rm_directory', [], dict(iso_path='/')),
    'rm_directory:nonempty': ('plain+sub', 'rm_directory', [], dict(iso_path='/DIR1')),
    'rm_directory:joliet-is-file': ('joliet', 'rm_directory', [], dict(joliet_path='/foo')),
    'rm_directory:joliet-nonempty': ('joliet+sub', 'rm_directory', [], dict(joliet_path='/dir1')),
    'rm_directory:udf-is-file': ('udf', 'rm_directory', [], dict(udf_path='/foo')),
    'rm_directory:udf-nonempty': ('udf+sub', 'rm_directory', [], dict(udf_path='/dir1')),
    'add_hard_link:missing-old': ('plain', 'add_hard_link', [], dict(iso_old_path='/NOPE.;1', iso_new_path='/LINK.;1')),
    'add_hard_link:bad-new': ('plain', 'add_hard_link', [], dict(iso_old_path='/FOO.;1', iso_new_path='/bad-link.;1')),
    'add_hard_link:duplicate-new': ('plain', 'add_hard_link', [], dict(iso_old_path='/FOO.;1', iso_new_path='/FOO.;1')),
    'rm_hard_link:missing': ('plain', 'rm_hard_link', [], dict(iso_path='/NOPE.;1')),
    'add_eltorito:missing-boot-file': ('plain', 'add_eltorito', ['/NOPE.;1'], {}),
    'add_eltorito:bad-media': ('plain', 'add_eltorito', ['/FOO.;1'], dict(media_name='bogus')),
    'add_eltorito:bad-platform': ('plain', 'add_eltorito', ['/FOO.;1'], dict(platform_id=7)),
    'add_eltorito:bootcat-missing-parent': ('plain', 'add_eltorito', ['/FOO.;1'], dict(bootcatfile='/NODIR/BOOT.CAT;1')),
    'add_eltorito:bootcat-illegal-name': ('plain', 'add_eltorito', ['/FOO.;1'], dict(bootcatfile='/boot cat')),
    'add_eltorito:bootcat-duplicate': ('plain', 'add_eltorito', ['/FOO.;1'], dict(bootcatfile='/FOO.;1')),
    'add_eltorito:rr-bootcat-name-with-slash': ('rr', 'add_eltorito', ['/FOO.;1'], dict(rr_bootcatname='a/b')),
    'add_eltorito:joliet-bootcat-missing-parent': ('joliet', 'add_eltorito', ['/FOO.;1'], dict(joliet_bootcatfile='/nodir/boot.cat')),
    'add_eltorito:udf-bootcat-duplicate': ('udf', 'add_eltorito', ['/FOO.;1'], dict(udf_bootcatfile='/foo')),
    'add_eltorito:bad-media-with-table': ('plain', 'add_eltorito', ['/FOO.;1'], dict(media_name='bogus', boot_info_table=True)),
    'rm_eltorito:none': ('plain', 'rm_eltorito', [], {}),
    'add_isohybrid:no-eltorito': ('plain', 'add_isohybrid', [], {}),
    'add_symlink:on-plain': ('plain', 'add_symlink', [], dict(symlink_path='/SYM.;1', rr_symlink_name='sym', rr_path='foo')),
    'set_hidden:missing': ('plain', 'set_hidden', [], dict(iso_path='/NOPE.;1')),
    'add_isohybrid:bad-geometry': ('eltorito', 'add_isohybrid', [], dict(geometry_sectors=64)),
    'add_isohybrid:bad-heads': ('eltorito', 'add_isohybrid', [], dict(geometry_heads=0)),
    'add_isohybrid:mac-without-efi': ('eltorito', 'add_isohybrid', [], dict(mac=True, efi=False)),
    'add_isohybrid:bad-entry': ('eltorito', 'add_isohybrid', [], dict(part_entry=9)),
    'add_eltorito:second-section-bad-media': ('eltorito2', 'add_eltorito', ['/FOO.;1'], dict(media_name='bogus')),
    'add_eltorito:second-section-bad-floppy-size': ('eltorito2', 'add_eltorito', ['/FOO.;1'], dict(media_name='floppy')),
    'rm_file:boot-file': ('eltorito', 'rm_file', [], dict(iso_path='/BOOT.;1')),
    'rm_file:boot-file-with-hard-link': ('eltorito-link', 'rm_file', [], dict(iso_path='/BOOT.;1')),
    'rm_file:boot-file-by-its-link': ('eltorito-link', 'rm_file', [], dict(iso_path='/BOOTLNK.;1')),
    'rm_eltorito:twice': ('plain', 'rm_eltorito', [], {}),
    'add_eltorito:load-size-too-big': ('plain', 'add_eltorito', ['/FOO.;1'], dict(boot_load_size=65536)),
    'add_eltorito:load-size-negative': ('plain', 'add_eltorito', ['/FOO.;1'], dict(boot_load_size=-1)),
    'add_eltorito:load-segment-too-big': ('plain', 'add_eltorito', ['/FOO.;1'], dict(boot_load_seg=65536)),
    'add_symlink:empty-target': ('rr', 'add_symlink', [], dict(symlink_path='/SYM.;1', rr_symlink_name='sym', rr_path='')),
    'add_symlink:empty-udf-target': ('udf', 'add_symlink', [], dict(udf_symlink_path='/sym', udf_target='')),
    # refused since K63-K66: they used to be accepted and to make the next write fail
    'add_hard_link:old-is-a-directory': ('plain', 'add_hard_link', [], dict(iso_old_path='/DIR1', iso_new_path='/LNK.;1')),
    'add_hard_link:old-is-a-joliet-directory': ('joliet', 'add_hard_link', [], dict(joliet_old_path='/dir1', joliet_new_path='/lnk')),
    'add_hard_link:old-is-a-udf-directory': ('udf', 'add_hard_link', [], dict(udf_old_path='/dir1', udf_new_path='/lnk')),
    'add_fp:negative-length': ('plain', 'add_fp', ['FILE', -1], dict(iso_path='/BAR.;1')),
    'add_isohybrid:efi-without-efi-image': ('eltorito', 'add_isohybrid', [], dict(efi=True)),
    'add_isohybrid:mac-without-efi-images': ('eltorito', 'add_isohybrid', [], dict(mac=True)),
    'add_isohybrid:mac-with-one-efi-image': ('eltorito2', 'add_isohybrid', [], dict(mac=True)),
    'add_symlink:rr-name-with-slash': ('rr', 'add_symlink', [], dict(symlink_path='/SYM.;1', rr_symlink_name='a/b', rr_path='foo')),
    'add_symlink:udf-target-component-too-long': ('udf', 'add_symlink', [], dict(udf_symlink_path='/sym', udf_target='d/' + 'x' * 255)),
    # more multi-namespace shapes: the LATER namespace refuses (all of them left the earlier part behind before the K12 repairs)
    'add_fp:udf-name-too-long': ('udf', 'add_fp', ['FILE', 4], dict(iso_path='/BAR.;1', udf_path='/' + 'x' * 300)),
    'add_fp:udf-only-name-too-long': ('udf', 'add_fp', ['FILE', 4], dict(udf_path='/' + 'x' * 300)),
    'add_fp:udf-only-duplicate': ('udf', 'add_fp', ['FILE', 4], dict(udf_path='/foo')),
    'add_fp:udf-parent-is-a-file': ('udf', 'add_fp', ['FILE', 4], dict(iso_path='/BAR.;1', udf_path='/foo/bar')),
    'add_fp:udf-only-parent-is-a-file': ('udf', 'add_fp', ['FILE', 4], dict(udf_path='/foo/bar')),
    'add_fp:joliet-parent-is-a-file': ('joliet', 'add_fp', ['FILE', 4], dict(iso_path='/BAR.;1', joliet_path='/foo/bar')),
    'add_directory:udf-name-too-long': ('udf', 'add_directory', [], dict(iso_path='/DIR2', udf_path='/' + 'x' * 300)),
    'add_directory:udf-missing-parent': ('udf', 'add_directory', [], dict(iso_path='/DIR2', udf_path='/nodir/dir2')),
    'add_symlink:udf-duplicate': ('all', 'add_symlink', [], dict(symlink_path='/SYM.;1', rr_symlink_name='sym', rr_path='foo', udf_symlink_path='/foo', udf_target='foo')),
    'add_symlink:joliet-duplicate': ('all', 'add_symlink', [], dict(symlink_path='/SYM.;1', rr_symlink_name='sym', rr_path='foo', joliet_path='/foo')),
    'rm_directory:udf-missing': ('udf', 'rm_directory', [], dict(iso_path='/DIR1', udf_path='/nodir')),
    'rm_directory:joliet-is-a-file': ('joliet', 'rm_directory', [], dict(iso_path='/DIR1', joliet_path='/foo')),
    # a second entry with an existing Rock Ridge name (K69: only the ISO9660 identifiers used to be compared)
    'add_fp:rr-name-duplicate': ('rr', 'add_fp', ['FILE', 4], dict(iso_path='/BAR.;1', rr_name='foo')),
    'add_directory:rr-name-duplicate': ('rr', 'add_directory', [], dict(iso_path='/DIR2', rr_name='dir1')),
    'add_directory:rr-name-of-a-file': ('rr', 'add_directory', [], dict(iso_path='/DIR2', rr_name='foo')),
    'add_symlink:rr-name-duplicate': ('rr', 'add_symlink', [], dict(symlink_path='/SYM.;1', rr_symlink_name='foo', rr_path='dir1')),
    'add_hard_link:rr-name-duplicate': ('rr', 'add_hard_link', [], dict(iso_old_path='/FOO.;1', iso_new_path='/LNK.;1', rr_name='foo')),
    # Rock Ridge entries that need more than one continuation block (K73: accepted, the next write failed)
    'add_fp:rr-name-beyond-one-continuation-block': ('rr', 'add_fp', ['FILE', 4], dict(iso_path='/BAR.;1', rr_name='x' * 2500)),
    'add_directory:rr-name-beyond-one-continuation-block': ('rr', 'add_directory', [], dict(iso_path='/DIR2', rr_name='x' * 2500)),
    'add_symlink:target-beyond-one-continuation-block': ('rr', 'add_symlink', [], dict(symlink_path='/SYM.;1', rr_symlink_name='sym', rr_path='/'.join(['ab'] * 700))),
    # in-place modification of an image that was never opened from a file (K74: changed the object, then AttributeError)
    'modify_file_in_place:on-a-new-image': ('plain', 'modify_file_in_place', ['FILE', 4, '/FOO.;1'], {}),
    # the first relocation needs a holding directory whose Rock Ridge name (rr_moved) another entry of the root already has (K79)
    'add_directory:rr-moved-name-taken': ('rr-deep7-rr_moved-taken', 'add_directory', [], dict(iso_path='/D1/D2/D3/D4/D5/D6/D7/D8', rr_name='d8')),
    # a file mode outside 32 bits (K71: accepted, the next write failed)
    'add_fp:file-mode-too-big': ('rr', 'add_fp', ['FILE', 4], dict(iso_path='/BAR.;1', rr_name='bar', file_mode=1 << 32)),
    'add_fp:file-mode-negative': ('rr', 'add_fp', ['FILE', 4], dict(iso_path='/BAR.;1', rr_name='bar', file_mode=-1)),
    'add_directory:file-mode-too-big': ('rr', 'add_directory', [], dict(iso_path='/DIR2', rr_name='dir2', file_mode=1 << 40)),
    # a Joliet / UDF path that names the root directory itself (K60: used to add an entry without a name)
    'add_fp:joliet-path-names-the-root': ('joliet', 'add_fp', ['FILE', 4], dict(joliet_path='/.')),
    'add_directory:udf-path-names-the-root': ('udf', 'add_directory', [], dict(udf_path='/x/..')),
    'add_hard_link:udf-path-names-the-root': ('udf', 'add_hard_link', [], dict(iso_old_path='/FOO.;1', udf_new_path='/')),
    'add_directory:joliet-path-names-the-root': ('joliet', 'add_directory', [], dict(joliet_path='/')),
    # multi-namespace edits: a later namespace refuses after an earlier one was applied
    'add_fp:joliet-name-too-long': ('joliet', 'add_fp', ['FILE', 4], dict(iso_path='/BAR.;1', joliet_path='/' + 'x' * 65)),
    'add_fp:joliet-missing-parent': ('joliet', 'add_fp', ['FILE', 4], dict(iso_path='/BAR.;1', joliet_path='/nodir/bar')),
    'add_fp:joliet-duplicate': ('joliet', 'add_fp', ['FILE', 4], dict(iso_path='/BAR.;1', joliet_path='/foo')),
    'add_fp:udf-duplicate': ('udf', 'add_fp', ['FILE', 4], dict(iso_path='/BAR.;1', udf_path='/foo')),
    'add_fp:udf-missing-parent': ('udf', 'add_fp', ['FILE', 4], dict(iso_path='/BAR.;1', udf_path='/nodir/bar')),
    'add_directory:joliet-missing-parent': ('joliet', 'add_directory', [], dict(iso_path='/DIR2', joliet_path='/nodir/dir2')),
    'add_directory:joliet-duplicate': ('joliet', 'add_directory', [], dict(iso_path='/DIR2', joliet_path='/dir1')),
    'add_directory:udf-duplicate': ('udf', 'add_directory', [], dict(iso_path='/DIR2', udf_path='/dir1')),
    'add_directory:rr-duplicate': ('rr', 'add_directory', [], dict(iso_path='/DIR1', rr_name='dir1')),
    'add_hard_link:joliet-duplicate-new': ('joliet', 'add_hard_link', [], dict(iso_old_path='/FOO.;1', joliet_new_path='/foo')),
    'rm_directory:joliet-missing': ('joliet', 'rm_directory', [], dict(iso_path='/DIR1', joliet_path='/nope')),
    'rm_file:nonexistent-on-joliet': ('joliet', 'rm_file', [], dict(joliet_path='/nope')),
}


# Recorded findings (K12): multi-step edits that are refused after an earlier step was applied.  They are properties of how the
# public methods are structured upstream (apply namespace by namespace, validate inside each step), not a few-line repair;
# each entry is one call shape, identified by its scenario, so any OTHER refusal that changes the image is still reported.
# call shapes that raise after part of the edit was applied (K12): all repaired, none left
KNOWN_NON_ATOMIC = {}


@contract
class Refused(Base):
    """C14: the refused call raises a documented exception and the image is unchanged: writing it gives byte for byte what an
    identically built image gives on which the call was never made, and a further ordinary edit still works"""
    target = S.PC + '.add_fp'
    sid = 'add_fp:bad-iso-char'
    crosscheck = False
    covers = ()
    label = property(lambda self: 'pycdlib.PyCdlib.' + REFUSALS[self.sid][1])

    def setup(self, c):
        S.pin_environment(c)
        a = c.a
        kind, method, args, kwargs = REFUSALS[self.sid]
        a.iso = S.base_image(c, kind)
        a.ref = S.base_image(c, kind)
        self.target = S.PC + '.' + method
        args = [S.data_file(c, b'data') if x == 'FILE' else x for x in args]
        kwargs = dict(kwargs)
        if self.sid == 'add_fp:negative-length':
            args[1] = c.int('length', -(1 << 40), -1)         # EVERY negative length
        elif method == 'add_fp' and len(args) == 2:
            # the refusal must not depend on the announced length: any 32-bit length
            args[1] = c.int('length', 0, (1 << 32) - 1)
        if self.sid in ('add_fp:bad-iso-char', 'add_directory:bad-char'):
            # EVERY illegal ASCII character (not a d-character, and not one of the path / name separators)
            ch = c.int('bad_character', 1, 127)
            c.assume(Not(Or(And(ch >= 65, ch <= 90), And(ch >= 48, ch <= 57), ch == 95, ch == 47, ch == 46, ch == 59)))
            if c.symbolic:
                from pyvc.stdlib import mk_str
                kwargs['iso_path'] = mk_str([47, 66, 65, ch, 68] + ([46, 59, 49] if method == 'add_fp' else []))
            else:
                kwargs['iso_path'] = '/BA' + chr(ch) + 'D' + ('.;1' if method == 'add_fp' else '')
        return Call(args, kwargs, self_obj=a.iso)

    def raises(self, c, a):
        return {'PyCdlibInvalidInput': None, 'PyCdlibInternalError': None}

    def post(self, c, a, out):
        return {'the-call-is-refused': False}

    def post_raise(self, c, a, out):
        ok1, got = S.try_call(c, lambda: S.written(c, a.iso))
        ok2, want = S.try_call(c, lambda: S.written(c, a.ref))
        cl = {'next-write-succeeds': ok1 and ok2}
        if not (ok1 and ok2):
            return cl
        cl['next-write-is-unaffected'] = Eq(got, want)
        # later edits behave normally on both
        ok3, _ = S.try_call(c, lambda: S.call(c, a.iso, 'add_directory', **self.later_dir(a)))
        ok4, _ = S.try_call(c, lambda: S.call(c, a.ref, 'add_directory', **self.later_dir(a)))
        cl['later-edit-accepted'] = ok3 and ok4
        if ok3 and ok4:
            ok5, g2 = S.try_call(c, lambda: S.written(c, a.iso))
            ok6, w2 = S.try_call(c, lambda: S.written(c, a.ref))
            cl['later-edit-and-write-agree'] = (ok5 and ok6) and Eq(g2, w2)
        return cl

    @property
    def known(self):
        if self.sid in KNOWN_NON_ATOMIC:
            text = KNOWN_NON_ATOMIC[self.sid]
            ent = [('K12:' + self.sid, lambda a: True, text)]
            return {'/post-raise:next-write-succeeds': ent, '/post-raise:next-write-is-unaffected': ent, '/post-raise:later-edit-accepted': ent,
                    '/post-raise:later-edit-and-write-agree': ent}
        return {}

    def later_dir(self, a):
        kind = REFUSALS[self.sid][0]
        d = {'iso_path': '/LATER'}
        if 'rr' in kind or kind == 'all':
            d['rr_name'] = 'later'
        if 'joliet' in kind or kind == 'all':
            d['joliet_path'] = '/later'
        if kind in ('udf', 'all'):
            d['udf_path'] = '/later'
        return d

    def observe(self, c, a, out):
        return {'kind': out.kind, 'exc': out.exc}


def random_refusal(name):
    """for the random edit history `name` ('random:<flavour>:<seed>'): a call the library must refuse, chosen by the seed from the
    state the history leaves (duplicate name, missing parent or target, directory that is not empty, file given as directory,
    illegal character, existing link name) -> (description, method, kwargs, needs_file)"""
    import random
    from contracts import fidelity as F
    kw, script = F.get_script(name)
    iso_m, jol_m, rr_m, hidden_m, sym_m, content_m = F.model_of(script)
    rnd = random.Random('refusal/' + name)
    rr, jol = 'rock_ridge' in kw, 'joliet' in kw
    files = sorted(p for p, v in iso_m.items() if v[0] == 'file')
    dirs = sorted(p for p, v in iso_m.items() if v[0] == 'dir')
    nonempty = [d for d in dirs if any(p.startswith(d + '/') for p in iso_m)]

    def extra(newname):
        k = {}
        if rr:
            k['rr_name'] = newname
        if jol:
            k['joliet_path'] = '/' + newname
        return k
    choices = [('missing-parent', 'add_fp', dict(iso_path='/NOSUCHDIR/NEW.;1', **extra('new-in-missing')), True),
               ('rm-missing-file', 'rm_file', dict(iso_path='/NOSUCH.;1'), False),
               ('rm-missing-directory', 'rm_directory', dict(iso_path='/NOSUCHD'), False),
               ] + ([] if kw.get('interchange_level') == 4 else [('illegal-character', 'add_fp', dict(iso_path='/bad name.;1', **extra('bad-name')), True)]) + [
               ('version-out-of-range', 'add_fp', dict(iso_path='/V.;40000', **extra('version')), True)]
    if files:
        f = rnd.choice(files)
        choices += [('duplicate-file-name', 'add_fp', dict(iso_path=f, **extra('dup-of-file')), True),
                    ('file-given-to-rm_directory', 'rm_directory', dict(iso_path=f), False),
                    ('link-onto-existing-name', 'add_hard_link', dict(iso_old_path=f, iso_new_path=rnd.choice(files), **({'rr_name': 'dup-link'} if rr else {})), False)]
    if dirs:
        d = rnd.choice(dirs)
        choices += [('duplicate-directory-name', 'add_directory', dict(iso_path=d, **extra('dup-of-dir')), False),
                    ('directory-given-to-rm_file', 'rm_file', dict(iso_path=d), False)]
    if nonempty:
        choices.append(('non-empty-directory', 'rm_directory', dict(iso_path=rnd.choice(nonempty)), False))
    if not rr:
        choices.append(('rr-name-without-rock-ridge', 'add_directory', dict(iso_path='/NEWD', rr_name='newd', **({'joliet_path': '/newd'} if jol else {})), False))
    return rnd.choice(choices)


@contract
class RandomRefused(Base):
    """C14 / C13 on random states: after a random edit history (contracts/fidelity.py) a call that must be refused - chosen from
    the state the history leaves - raises the library's invalid-input error and changes nothing: the next write gives byte for
    byte what an identically built image gives on which the call was never made, and a later ordinary edit behaves the same"""
    target = S.PC + '.add_fp'
    history = 'random:plain:1'
    crosscheck = False
    covers = ()
    label = property(lambda self: 'pycdlib.PyCdlib.%s<%s after %s>' % (random_refusal(self.history)[1], random_refusal(self.history)[0], self.history))

    def setup(self, c):
        from contracts import fidelity as F
        S.pin_environment(c)
        a = c.a
        a.what, method, kwargs, needs_file = random_refusal(self.history)
        a.iso, _ = F.build(c, self.history)
        a.ref, _ = F.build(c, self.history)
        self.target = S.PC + '.' + method
        args = [S.data_file(c, b'data'), 4] if needs_file else []
        return Call(args, dict(kwargs), self_obj=a.iso)

    def raises(self, c, a):
        return {'PyCdlibInvalidInput': None}

    def post(self, c, a, out):
        return {'the-call-is-refused': False}

    def post_raise(self, c, a, out):
        from contracts import fidelity as F
        kw, _ = F.get_script(self.history)
        ok1, got = S.try_call(c, lambda: S.written(c, a.iso))
        ok2, want = S.try_call(c, lambda: S.written(c, a.ref))
        cl = {'next-write-succeeds': ok1 and ok2}
        if not (ok1 and ok2):
            return cl
        cl['next-write-is-unaffected'] = Eq(got, want)
        later = {'iso_path': '/LATER'}
        if 'rock_ridge' in kw:
            later['rr_name'] = 'later'
        if 'joliet' in kw:
            later['joliet_path'] = '/later'
        ok3, _ = S.try_call(c, lambda: S.call(c, a.iso, 'add_directory', **later))
        ok4, _ = S.try_call(c, lambda: S.call(c, a.ref, 'add_directory', **later))
        cl['later-edit-accepted'] = ok3 and ok4
        if ok3 and ok4:
            ok5, g2 = S.try_call(c, lambda: S.written(c, a.iso))
            ok6, w2 = S.try_call(c, lambda: S.written(c, a.ref))
            cl['later-edit-and-write-agree'] = (ok5 and ok6) and Eq(g2, w2)
        return cl

    def observe(self, c, a, out):
        return {'kind': out.kind, 'exc': out.exc, 'what': getattr(a, 'what', None)}
