"""C11 at whole-image level: El Torito structures of a written image, decoded by an INDEPENDENT reader written from the El Torito
1.0 specification (no pycdlib code), for a table of edit histories around add_eltorito / rm_eltorito.  Boot file contents are
symbolic unless a boot info table is requested (its checksum is a 32-bit sum over the file)."""
from pyvc import values as V
from pyvc.sx import And, Or, Not, Eq
from pyvc.contract import contract, Call
from contracts.utils import Base
from contracts import scenario as S
from contracts import reader as R

MEDIA = {'noemul': 0, 'floppy': None, 'hdemul': 4}
FLOPPY = {1228800: 1, 1474560: 2, 2949120: 3}


def read_eltorito(im):
    """-> None (no boot record) | dict(catalog sector, platform, entries=[dict(bootable, media, load_seg, system, count, rba)])"""
    br = None
    sec = 16
    while (sec + 1) * 2048 <= len(im.b):
        t = im.byte(sec * 2048)
        if im.cbytes(sec * 2048 + 1, 5) != b'CD001':
            break
        if t == 0:
            br = sec
        if t == 255:
            break
        sec += 1
    if br is None:
        return None
    off = br * 2048
    if br != 17:
        im.bad('El Torito boot record at sector %d, must be 17' % br)
    if im.cbytes(off + 7, 32) != b'EL TORITO SPECIFICATION'.ljust(32, b'\x00'):
        im.bad('boot system identifier is not EL TORITO SPECIFICATION')
    if im.cbytes(off + 39, 32).strip(b'\x00'):
        im.bad('boot identifier not zero')
    cat = im.le(off + 71, 4)
    c0 = cat * 2048
    # validation entry
    v = im.cbytes(c0, 32)
    if v[0] != 1:
        im.bad('validation entry header id %d' % v[0])
    if v[30:32] != b'\x55\xaa':
        im.bad('validation entry key bytes are not 55 AA')
    if sum(int.from_bytes(v[i:i + 2], 'little') for i in range(0, 32, 2)) & 0xffff:
        im.bad('validation entry does not checksum to zero')
    out = {'catalog': cat, 'platform': v[1], 'entries': [], 'sections': []}

    def entry(o):
        e = im.cbytes(o, 32)
        return dict(bootable=e[0], media=e[1] & 0x0f, load_seg=int.from_bytes(e[2:4], 'little'), system=e[4], count=int.from_bytes(e[6:8], 'little'),
                    rba=int.from_bytes(e[8:12], 'little'), raw=e)
    ini = entry(c0 + 32)
    if ini['bootable'] not in (0x88, 0x00):
        im.bad('initial entry boot indicator %#x' % ini['bootable'])
    out['entries'].append(dict(ini, platform=v[1]))
    o = c0 + 64
    last_seen = False
    while o + 32 <= len(im.b):
        h = im.cbytes(o, 32)
        if h[0] not in (0x90, 0x91):
            break
        if last_seen:
            im.bad('section header after the one marked last')
        n = int.from_bytes(h[2:4], 'little')
        out['sections'].append(dict(indicator=h[0], platform=h[1], n=n))
        o += 32
        for _ in range(n):
            out['entries'].append(dict(entry(o), platform=h[1]))
            o += 32
        if h[0] == 0x91:
            last_seen = True
    if out['sections'] and not last_seen:
        im.bad('no section header is marked as the last one (0x91)')
    return out


BOOT_A = bytes((i * 7 + 3) & 0xff for i in range(5000))       # concrete boot image for the boot info table cases
BOOT_B = bytes((i * 13 + 5) & 0xff for i in range(9000))      # concrete contents where several / large boot files would multiply paths

# histories: ('file', iso, size[, concrete bytes]) ('dir', iso) ('eltorito', bootfile, kwargs) ('rm_eltorito',) ('rm_file', iso) ('link', old, new)
HISTORIES = {
    'basic': (dict(), [('file', '/BOOT.;1', 2048), ('eltorito', '/BOOT.;1', dict(bootcatfile='/BOOT.CAT;1'))]),
    'moves-after-add': (dict(), [('file', '/ZBOOT.;1', 3000), ('eltorito', '/ZBOOT.;1', dict(bootcatfile='/ZZ.CAT;1')), ('file', '/A.;1', 5000), ('dir', '/D'), ('file', '/D/B.;1', 2049),
                                 ('rm_file', '/A.;1')]),
    'info-table': (dict(), [('file', '/A.;1', 100), ('file', '/BOOT.;1', 5000, BOOT_A), ('eltorito', '/BOOT.;1', dict(bootcatfile='/BOOT.CAT;1', boot_info_table=True)),
                            ('file', '/0FIRST.;1', 4097)]),
    'info-table-short-sector-boundary': (dict(), [('file', '/BOOT.;1', 2052, BOOT_A[:2052]), ('eltorito', '/BOOT.;1', dict(bootcatfile='/BOOT.CAT;1', boot_info_table=True, boot_load_size=4))]),
    'load-size-and-segment': (dict(), [('file', '/BOOT.;1', 9000, BOOT_B), ('eltorito', '/BOOT.;1', dict(bootcatfile='/BOOT.CAT;1', boot_load_size=4, boot_load_seg=0x7c0, bootable=False))]),
    'sections': (dict(joliet=3), [('file', '/BOOT.;1', 2048, BOOT_A[:2048]), ('file', '/EFI.;1', 4096, BOOT_B[:4096]), ('file', '/MAC.;1', 10),
                                  ('eltorito', '/BOOT.;1', dict(bootcatfile='/BOOT.CAT;1', joliet_bootcatfile='/boot.cat')),
                                  ('eltorito', '/EFI.;1', dict(efi=True, platform_id=0xef)), ('eltorito', '/MAC.;1', dict(platform_id=2)),
                                  ('file', '/AAA.;1', 2048)]),
    'floppy': (dict(), [('file', '/FLOPPY.;1', 1474560, bytes(1474560)), ('eltorito', '/FLOPPY.;1', dict(bootcatfile='/BOOT.CAT;1', media_name='floppy'))]),
    'subdir-rr': (dict(rock_ridge='1.09'), [('dir', '/BOOT', 'boot'), ('file', '/BOOT/ISOLINUX.BIN;1', 3000, None, 'isolinux.bin'),
                                            ('eltorito', '/BOOT/ISOLINUX.BIN;1', dict(bootcatfile='/BOOT/BOOT.CAT;1', rr_bootcatname='boot.cat')), ('file', '/README.;1', 5, None, 'readme')]),
    'removed': (dict(), [('file', '/BOOT.;1', 5000, BOOT_A), ('file', '/A.;1', 7), ('eltorito', '/BOOT.;1', dict(bootcatfile='/BOOT.CAT;1', boot_info_table=True)), ('rm_eltorito',),
                         ('file', '/B.;1', 9)]),
    'removed-and-added-again': (dict(), [('file', '/BOOT.;1', 2048), ('eltorito', '/BOOT.;1', dict(bootcatfile='/BOOT.CAT;1')), ('rm_eltorito',), ('file', '/OTHER.;1', 2049),
                                         ('eltorito', '/OTHER.;1', dict(bootcatfile='/NEW.CAT;1', boot_load_size=1))]),
    'hidden-boot-file-with-table': (dict(), [('file', '/BOOT.;1', 100, BOOT_A[:100]), ('eltorito', '/BOOT.;1', dict(bootcatfile='/BOOT.CAT;1', boot_info_table=True)),
                                             ('rm_link', '/BOOT.;1'), ('file', '/A.;1', 3)]),
    # more names for the boot catalog: by the dedicated argument and by naming the catalog's own path (K70), then more edits
    'catalog-with-more-names': (dict(), [('file', '/BOOT.;1', 2048), ('eltorito', '/BOOT.;1', dict(bootcatfile='/BOOT.CAT;1')), ('dir', '/D'),
                                         ('link_catalog', None, '/D/CAT2.;1'), ('link_catalog', '/BOOT.CAT;1', '/CAT3.;1'), ('file', '/0A.;1', 2049)]),
    'hidden-boot-file': (dict(), [('file', '/BOOT.;1', 100), ('eltorito', '/BOOT.;1', dict(bootcatfile='/BOOT.CAT;1')), ('rm_link', '/BOOT.;1'), ('file', '/A.;1', 3)]),
}


def random_history(name):
    """'random:<seed>[:r]': a random history around add_eltorito / rm_eltorito on a random image flavour; with ':r' the image is
    written and opened again at random points after the first boot entry and the history goes on on the opened object"""
    import random
    seed = int(name.split(':')[1])
    with_reopen = name.endswith(':r')
    rnd = random.Random('boot/%d' % seed + ('/r' if with_reopen else ''))
    kw = rnd.choice([dict(), dict(joliet=3), dict(rock_ridge='1.09'), dict(rock_ridge='1.12', joliet=3), dict(udf='2.60'), dict(udf='2.60', rock_ridge='1.09', joliet=3)])
    ops = []
    n = [0]

    def newfile(d=''):
        n[0] += 1
        size = rnd.choice([1, 100, 2047, 2048, 2049, 5000, 9000])
        return ('file', '%s/F%d.;1' % (d, n[0]), size, bytes((i * 3 + n[0]) & 0xff for i in range(size)))
    dirs = ['']
    for _ in range(rnd.randint(0, 3)):
        ops.append(newfile(rnd.choice(dirs)))
        if rnd.random() < 0.4:
            n[0] += 1
            d = '/D%d' % n[0]
            ops.append(('dir', d, 'd%d' % n[0]))
            dirs.append(d)
    bootdir = rnd.choice(dirs)
    boot = newfile(bootdir)
    ops.append(boot)
    k = dict(bootcatfile='%s/BOOT.CAT;1' % bootdir)
    if 'rock_ridge' in kw:
        k['rr_bootcatname'] = 'boot.cat'
    if 'joliet' in kw:
        k['joliet_bootcatfile'] = '%s/boot.cat' % bootdir.lower()
    if 'udf' in kw:
        k['udf_bootcatfile'] = '%s/boot.cat' % bootdir.lower()
    if rnd.random() < 0.4 and boot[2] >= 64:
        k['boot_info_table'] = True
    if rnd.random() < 0.3:
        k['boot_load_size'] = rnd.choice([1, 4, 8])
    if rnd.random() < 0.2:
        k['bootable'] = False
    if rnd.random() < 0.2:
        k['boot_load_seg'] = rnd.choice([0x7c0, 0x1000])
    ops.append(('eltorito', boot[1], k))
    for _ in range(rnd.randint(0, 4) + (2 if with_reopen else 0)):
        if with_reopen and rnd.random() < 0.5:
            ops.append(('reopen',))
        r = rnd.random()
        if r < 0.5:
            ops.append(newfile(rnd.choice(dirs)))
        elif r < 0.7:
            second = newfile(rnd.choice(dirs))
            ops.append(second)
            ops.append(('eltorito', second[1], rnd.choice([dict(efi=True), dict(platform_id=2), dict(), dict(platform_id=0xef, boot_load_size=2)])))
        elif r < 0.85:
            files = [o for o in ops if o[0] == 'file' and o[1] not in [b[1] for b in ops if b[0] == 'eltorito'] and not any(x[0] == 'rm_file' and x[1] == o[1] for x in ops)]
            if files:
                ops.append(('rm_file', rnd.choice(files)[1]))
        else:
            ops.append(('rm_eltorito',))
            break
    return kw, ops


def get_history(name):
    return random_history(name) if name.startswith('random:') else HISTORIES[name]


def run_history(c, name):
    kw, ops = get_history(name)
    iso = S.new_image(c, **kw)
    st = dict(contents={}, files={}, boots=[], catalog=None, table={}, rr={}, kw=kw)
    for op in ops:
        if op[0] == 'file':
            data = op[3] if len(op) > 3 and op[3] is not None else c.bytes('content%d' % len(st['contents']), op[2])
            cid = len(st['contents'])
            st['contents'][cid] = data
            k = dict(iso_path=op[1])
            if 'rock_ridge' in kw:
                k['rr_name'] = op[4] if len(op) > 4 else op[1].rsplit('/', 1)[1].split('.')[0].lower()
            if 'joliet' in kw:
                k['joliet_path'] = op[1].split(';')[0].lower()
            if 'udf' in kw:
                k['udf_path'] = op[1].split(';')[0].lower()
            S.call(c, iso, 'add_fp', S.data_file(c, data), op[2], **k)
            st['files'][op[1]] = cid
        elif op[0] == 'dir':
            k = dict(iso_path=op[1])
            if 'rock_ridge' in kw:
                k['rr_name'] = op[2]
            if 'joliet' in kw and name.startswith('random:'):
                k['joliet_path'] = op[1].lower()
            if 'udf' in kw:
                k['udf_path'] = op[1].lower()
            S.call(c, iso, 'add_directory', **k)
        elif op[0] == 'eltorito':
            S.call(c, iso, 'add_eltorito', op[1], **op[2])
            st['boots'].append((st['files'][op[1]], op[1], dict(op[2])))
            if op[2].get('bootcatfile'):
                st['catalog'] = op[2]['bootcatfile']
            if op[2].get('boot_info_table'):
                st['table'][st['files'][op[1]]] = True
        elif op[0] == 'rm_eltorito':
            S.call(c, iso, 'rm_eltorito')
            st['boots'], st['catalog'], st['table'] = [], None, {}
        elif op[0] == 'rm_file':
            k = dict(iso_path=op[1])
            if 'joliet' in kw and name.startswith('random:'):
                k['joliet_path'] = op[1].split(';')[0].lower()
            if 'udf' in kw:
                k['udf_path'] = op[1].split(';')[0].lower()
            S.call(c, iso, 'rm_file', **k)
            st['files'].pop(op[1])
        elif op[0] == 'rm_link':
            S.call(c, iso, 'rm_hard_link', iso_path=op[1])
            st['files'].pop(op[1])
        elif op[0] == 'link_catalog':
            # another name for the boot catalog: asked for as such (op[1] is None) or by one of the names it already has
            k = dict(boot_catalog_old=True) if op[1] is None else dict(iso_old_path=op[1])
            if 'rock_ridge' in kw:
                k['rr_name'] = op[2].rsplit('/', 1)[1].split('.')[0].lower()
            S.call(c, iso, 'add_hard_link', iso_new_path=op[2], **k)
            st.setdefault('catalog_links', []).append(op[2])
        elif op[0] == 'reopen':
            # write what there is, open it again, go on with the opened object
            img = S.written(c, iso)
            if st['table']:
                # a boot file with a boot info table is stored patched: from here on those stored bytes ARE the file's content
                # (the original bytes 8..63 are not in the image any more)
                im0, res0 = R.read_iso(list(V.items_of(img)))
                tree0 = R.logical_tree(im0, res0['root'])
                for p_, cid_ in st['files'].items():
                    if st['table'].get(cid_) and p_.encode() in tree0:
                        st['contents'][cid_] = bytes(R.file_bytes(im0, tree0[p_.encode()][1]))
            iso = c.new(S.PC)
            S.call(c, iso, 'open_fp', c.file(img))
    return iso, st


def table_bytes(content, pvd_sector, file_sector):
    """what the stored boot file must hold when a boot info table was requested (El Torito extension of mkisofs): bytes 8..63"""
    n = len(content)
    csum = 0
    padded = bytes(content) + b'\x00' * ((-n) % 4)
    for i in range(64, len(padded), 4):
        csum = (csum + int.from_bytes(padded[i:i + 4], 'little')) & 0xffffffff
    tab = pvd_sector.to_bytes(4, 'little') + file_sector.to_bytes(4, 'little') + n.to_bytes(4, 'little') + csum.to_bytes(4, 'little') + b'\x00' * 40
    return bytes(content[:8]) + tab + bytes(content[64:])


@contract
class BootImage(Base):
    """C11 on whole images: after the history, an independent El Torito reader finds the boot record at sector 17 pointing at a
    catalog whose validation entry checksums to zero and carries the platform of the first boot entry; the initial and section
    entries carry, in the order they were added, the requested bootable flag, media type, load segment, load size (default: the
    file rounded up to whole 2048-byte sectors, in 512-byte units) and the sector at which that boot file's bytes really start
    (for EVERY content); section headers count their entries and only the last is marked last; the catalog is also a file under
    its given name with exactly the catalog's bytes; a requested boot info table is in the stored file (PVD sector, file sector,
    length, checksum of the rest); files keep their bytes; after rm_eltorito none of this is left and the boot file is back to
    its own bytes."""
    target = S.PC + '.write_fp'
    history = 'basic'
    reopen = False
    crosscheck = False
    label = property(lambda self: 'pycdlib.PyCdlib.write_fp<boot:%s%s>' % (self.history, {False: '', True: ' reopened', 'edit': ' reopened and edited'}[self.reopen]))

    def setup(self, c):
        S.pin_environment(c)
        a = c.a
        a.iso, a.st = run_history(c, self.history)
        if self.reopen:
            # the same, after the image went through write -> open -> write
            first = S.written(c, a.iso)
            a.first = first
            a.iso = c.new(S.PC)
            S.call(c, a.iso, 'open_fp', c.file(first))
            if self.reopen == 'edit':
                # ... and an edit on the opened image that moves the boot files (a two-sector file that sorts first)
                a.first = None
                moved = bytes((i * 5 + 1) & 0xff for i in range(4097))
                k = dict(iso_path='/00MOVE.;1')
                kw = get_history(self.history)[0]
                if 'rock_ridge' in kw:
                    k['rr_name'] = '00move'
                if 'joliet' in kw:
                    k['joliet_path'] = '/00move'
                if 'udf' in kw:
                    k['udf_path'] = '/00move'
                S.call(c, a.iso, 'add_fp', S.data_file(c, moved), 4097, **k)
                cid = len(a.st['contents'])
                a.st['contents'][cid] = moved
                a.st['files']['/00MOVE.;1'] = cid
        a.out = c.file(b'')
        return Call([a.out], self_obj=a.iso)

    def post(self, c, a, out):
        img = list(a.out.items) if c.symbolic else list(a.out.getvalue())
        st = a.st
        cl = {}
        if self.reopen and a.first is not None:
            cl['remastering-is-a-fixpoint'] = Eq(V.mk_bytes(img), a.first)
        try:
            im, res = R.read_iso(img)
            et = read_eltorito(im)
            tree = R.logical_tree(im, res['root'])
        except (R.Bad, KeyError, IndexError) as e:
            a.problems = [repr(e)]
            return dict(cl, **{'independent-reader-can-decode-the-image': False})
        cl['iso9660-side-structurally-valid'] = not im.problems
        a.problems = list(im.problems)
        if not st['boots']:
            cl['no-boot-record-left'] = et is None
            cl['no-catalog-file-left'] = not any(p.endswith(b'.CAT;1') for p in tree)
        else:
            cl['boot-record-present'] = et is not None
            if et is None:
                return cl
            ents = et['entries']
            cl['one-entry-per-add-in-order'] = len(ents) == len(st['boots'])
            ok_fields, ok_bytes, ok_platform = [], [], []
            for e, (cid, path, k) in zip(ents, st['boots']):
                content = st['contents'][cid]
                n = len(V.items_of(content))
                media = k.get('media_name', 'noemul')
                want_media = FLOPPY[n] if media == 'floppy' else MEDIA[media]
                want_count = k.get('boot_load_size') if k.get('boot_load_size') is not None else (-(-n // 2048)) * 4
                if media == 'floppy':
                    want_count = 1 if k.get('boot_load_size') is None else want_count
                ok_fields.append(e['bootable'] == (0x88 if k.get('bootable', True) else 0) and e['media'] == want_media and
                                 e['load_seg'] == k.get('boot_load_seg', 0) and (e['count'] == want_count or media == 'floppy'))
                stored = V.mk_bytes(im.raw(e['rba'] * 2048, n))
                if st['table'].get(cid):
                    ok_bytes.append(Eq(stored, table_bytes(bytes(content), res['pvd']['sector'], e['rba'])))
                else:
                    ok_bytes.append(Eq(stored, content))
                # the file, where it still has a name, starts at the same sector
                t = tree.get(path.encode())
                if path in st['files']:
                    ok_bytes.append(t is not None and t[1][0][0] == e['rba'] and t[2] == n)
                first_platform = st['boots'][0][2].get('platform_id', 0)
                if e is ents[0]:
                    plat = first_platform
                elif k.get('efi'):
                    plat = 0xef
                else:
                    plat = k.get('platform_id', 0) or first_platform       # 0, the default, means: the platform of the catalog
                ok_platform.append(e['platform'] == plat)
            cl['entries-carry-the-requested-flags-media-segment-and-load-size'] = all(ok_fields)
            cl['entries-point-at-the-sector-where-the-boot-file-bytes-start'] = And(*ok_bytes) if ok_bytes else False
            cl['platforms-as-requested'] = all(ok_platform)
            secs = et['sections']
            cl['section-headers-count-their-entries-and-only-the-last-is-marked'] = sum(s['n'] for s in secs) == len(ents) - 1 and \
                all(s['indicator'] == (0x91 if i == len(secs) - 1 else 0x90) for i, s in enumerate(secs))
            if st['catalog']:
                t = tree.get(st['catalog'].encode())
                cl['catalog-is-a-file-with-the-catalog-bytes'] = t is not None and t[0] == 'file' and t[1][0][0] == et['catalog'] and t[2] >= 64 + 32 * (len(ents) - 1 + len(secs)) and t[2] <= 2048
        keep = []
        for p, cid in st['files'].items():
            t = tree.get(p.encode())
            if t is None:
                keep.append(False)
                continue
            content = st['contents'][cid]
            n = len(V.items_of(content))
            got = V.mk_bytes(R.file_bytes(im, t[1]))
            if st['table'].get(cid):
                keep.append(t[2] == n and Eq(got, table_bytes(bytes(content), res['pvd']['sector'], t[1][0][0])))
            else:
                keep.append(t[2] == n and Eq(got, content))
        cl['every-file-reads-its-own-bytes'] = And(*keep) if keep else True
        more = [p.encode() for p in st.get('catalog_links', [])] if st['catalog'] else []
        cl['exactly-the-named-files'] = sorted(p for p, t in tree.items() if t[0] == 'file' and (st['catalog'] is None or p != st['catalog'].encode()) and p not in more) == sorted(p.encode() for p in st['files'])
        if more:
            cl['every-further-name-of-the-catalog-is-the-catalog'] = et is not None and all(p in tree and tree[p][0] == 'file' and tree[p][1][0][0] == et['catalog'] and tree[p][2] == tree[st['catalog'].encode()][2] for p in more)
        cl['image-length-is-the-declared-size'] = len(img) == res['pvd']['space_size'] * 2048
        return cl

    def observe(self, c, a, out):
        return {'kind': out.kind, 'exc': out.exc, 'problems': getattr(a, 'problems', None)}


# ------------------------------------------------------------------------------------------------------------------
# C12 at whole-image level: isohybrid system area, decoded independently (MBR, GPT per UEFI 2.x, APM not decoded)
# ------------------------------------------------------------------------------------------------------------------
ISOLINUX = bytes(0x40) + b'\xfb\xc0\x78\x70' + bytes((i * 11 + 1) & 0xff for i in range(2048 - 0x44))      # 2048 bytes with the isohybrid signature

HYBRIDS = {
    'default': (dict(), dict(mbr_id=0x12345678), []),
    'geometry-and-entry': (dict(), dict(part_entry=3, mbr_id=1, part_offset=0, geometry_sectors=63, geometry_heads=255, part_type=0x83), [('file', '/AFTER.;1', 5000)]),
    'boot-file-moves': (dict(), dict(mbr_id=7, geometry_heads=16, geometry_sectors=2), [('file', '/0EARLY.;1', 70000), ('dir', '/D'), ('file', '/D/X.;1', 3)]),
    'efi': (dict(), dict(mbr_id=9, efi=True, geometry_heads=4, geometry_sectors=8), [('file', '/Z.;1', 4097)]),
    'efi-mac': (dict(), dict(mbr_id=9, mac=True, geometry_heads=8, geometry_sectors=4), []),
    'partition-offset': (dict(), dict(mbr_id=3, part_offset=16, geometry_sectors=17, geometry_heads=5), [('file', '/PAD.;1', 100000)]),
}


def random_hybrid(name):
    """'random:<seed>': random add_isohybrid parameters (geometry, slot, type, offset, id, EFI / Mac) and later edits"""
    import random
    rnd = random.Random('hybrid/' + name)
    hyb = dict(mbr_id=rnd.choice([0, 1, 0xffffffff, rnd.randrange(1 << 32)]))
    mode = rnd.choice(['plain', 'plain', 'efi', 'mac'])
    if mode == 'efi':
        hyb['efi'] = True
    elif mode == 'mac':
        hyb['mac'] = True
    hyb['geometry_heads'] = rnd.choice([1, 2, 5, 16, 64, 255, 256])
    hyb['geometry_sectors'] = rnd.choice([1, 2, 17, 32, 63])
    while hyb['geometry_heads'] * hyb['geometry_sectors'] * 512 > 1 << 19:       # keep the padded image small
        hyb['geometry_heads'] = max(1, hyb['geometry_heads'] // 2)
    slots = [e for e in (1, 2, 3, 4) if not ((mode in ('efi', 'mac') and e == 2) or (mode == 'mac' and e == 3))]
    hyb['part_entry'] = rnd.choice(slots)
    if rnd.random() < 0.5:
        hyb['part_type'] = 0 if mode == 'mac' else rnd.choice([0, 0x17, 0x83, 0xff])      # Mac demands type 0
    if rnd.random() < 0.4:
        hyb['part_offset'] = rnd.choice([1, 4, 16, 63])
    later = []
    for i in range(rnd.randint(0, 3)):
        if rnd.random() < 0.7:
            later.append(('file', '/%sL%d.;1' % (rnd.choice(['', '0', 'Z']), i), rnd.choice([1, 2048, 2049, 30000])))
        else:
            later.append(('dir', '/LD%d' % i))
    return dict(), hyb, later


def get_hybrid(name):
    return random_hybrid(name) if name.startswith('random:') else HYBRIDS[name]


def crc32(data):
    import zlib
    return zlib.crc32(bytes(data)) & 0xffffffff


def concrete_crc32_hook(it, fv, args, kwargs):
    """callee contract of isohybrid.crc32 on CONCRETE bytes: the standard CRC-32 (that the real function computes exactly this is
    proved for every state and byte by the C12 units Crc32Step / Crc32Whole); the table-driven loop over 16 KiB is not re-executed"""
    from pyvc.values import Unsupported
    items = V.items_of(args[0])
    if not all(isinstance(x, int) for x in items):
        raise Unsupported('crc32 of symbolic bytes in a scenario')
    return crc32(items)


def read_gpt(im, lba, nsectors512):
    off = lba * 512
    h = im.cbytes(off, 92)
    g = dict(sig=h[:8], rev=h[8:12], hsize=int.from_bytes(h[12:16], 'little'), crc=int.from_bytes(h[16:20], 'little'), cur=int.from_bytes(h[24:32], 'little'),
             backup=int.from_bytes(h[32:40], 'little'), first=int.from_bytes(h[40:48], 'little'), last=int.from_bytes(h[48:56], 'little'), guid=h[56:72],
             parts_lba=int.from_bytes(h[72:80], 'little'), nparts=int.from_bytes(h[80:84], 'little'), psize=int.from_bytes(h[84:88], 'little'),
             parts_crc=int.from_bytes(h[88:92], 'little'))
    if g['sig'] != b'EFI PART':
        im.bad('GPT header at LBA %d has no EFI PART signature' % lba)
        return g
    if crc32(h[:16] + b'\x00\x00\x00\x00' + h[20:g['hsize']]) != g['crc']:
        im.bad('GPT header CRC wrong at LBA %d' % lba)
    if g['cur'] != lba:
        im.bad('GPT header at LBA %d says it is at %d' % (lba, g['cur']))
    arr = im.cbytes(g['parts_lba'] * 512, g['nparts'] * g['psize'])
    if crc32(arr) != g['parts_crc']:
        im.bad('GPT partition array CRC wrong (header at LBA %d)' % lba)
    g['parts'] = []
    for i in range(g['nparts']):
        e = arr[i * g['psize']:(i + 1) * g['psize']]
        if e[:16] != bytes(16):
            g['parts'].append(dict(type=e[:16], first=int.from_bytes(e[32:40], 'little'), last=int.from_bytes(e[40:48], 'little'), name=e[56:128]))
    return g


@contract
class HybridImage(Base):
    """C12 on whole images: after add_isohybrid (and later edits that move the boot files) the written image starts with an MBR
    that ends in 55 AA, carries the given id, has exactly one active partition - in the slot asked for, of the type asked for,
    starting at the offset asked for and covering the whole padded image - and names four times the sector at which the El
    Torito boot file really starts; the image is a whole number of cylinders long and, up to the volume size, still a valid ISO
    whose files read their bytes; with EFI, primary and backup GPT have valid header and array CRCs, point at each other, and
    their EFI partition delimits exactly the sectors of the EFI boot image."""
    target = S.PC + '.write_fp'
    variant = 'default'
    reopen = False
    crosscheck = False
    hooks = {'pycdlib.isohybrid.crc32': concrete_crc32_hook}
    label = property(lambda self: 'pycdlib.PyCdlib.write_fp<hybrid:%s%s>' % (self.variant, {False: '', True: ' reopened', 'edit': ' edited after reopen'}[self.reopen]))

    def setup(self, c):
        S.pin_environment(c)
        a = c.a
        kw, hyb, later = get_hybrid(self.variant)
        iso = S.new_image(c, **kw)
        a.contents = {'/ISOLINUX.BIN;1': ISOLINUX}
        S.call(c, iso, 'add_fp', S.data_file(c, ISOLINUX), len(ISOLINUX), iso_path='/ISOLINUX.BIN;1')
        S.call(c, iso, 'add_eltorito', '/ISOLINUX.BIN;1', bootcatfile='/BOOT.CAT;1', boot_load_size=4, boot_info_table=False)
        a.efi_path = None
        if hyb.get('efi') or hyb.get('mac'):
            a.efi_data = c.bytes('efi_image', 6000)
            a.contents['/EFI.IMG;1'] = a.efi_data
            S.call(c, iso, 'add_fp', S.data_file(c, a.efi_data), 6000, iso_path='/EFI.IMG;1')
            S.call(c, iso, 'add_eltorito', '/EFI.IMG;1', efi=True)
            a.efi_path = '/EFI.IMG;1'
            if hyb.get('mac'):
                a.mac_data = c.bytes('mac_image', 2049)
                a.contents['/MAC.IMG;1'] = a.mac_data
                S.call(c, iso, 'add_fp', S.data_file(c, a.mac_data), 2049, iso_path='/MAC.IMG;1')
                S.call(c, iso, 'add_eltorito', '/MAC.IMG;1', efi=True)
        S.call(c, iso, 'add_isohybrid', **hyb)
        if self.reopen == 'edit':
            # the later edits are made on the OPENED hybrid image
            mid = S.written(c, iso)
            iso = c.new(S.PC)
            S.call(c, iso, 'open_fp', c.file(mid))
        for op in later:
            if op[0] == 'file':
                data = c.bytes('later%d' % len(a.contents), op[2])
                a.contents[op[1]] = data
                S.call(c, iso, 'add_fp', S.data_file(c, data), op[2], iso_path=op[1])
            else:
                S.call(c, iso, 'add_directory', iso_path=op[1])
        a.first = None
        if self.reopen is True:
            # the same, after the image went through write -> open -> write (C05: parsing restores what mastering depends on)
            a.first = S.written(c, iso)
            iso = c.new(S.PC)
            S.call(c, iso, 'open_fp', c.file(a.first))
        a.iso = iso
        a.out = c.file(b'')
        return Call([a.out], self_obj=iso)

    def post(self, c, a, out):
        img = list(a.out.items) if c.symbolic else list(a.out.getvalue())
        kw, hyb, later = get_hybrid(self.variant)
        cl = {}
        if a.first is not None:
            cl['remastering-is-a-fixpoint'] = Eq(V.mk_bytes(img), a.first)
        try:
            im, res = R.read_iso(img)
            et = read_eltorito(im)
            tree = R.logical_tree(im, res['root'])
        except (R.Bad, KeyError, IndexError) as e:
            a.problems = [repr(e)]
            return {'independent-reader-can-decode-the-image': False}
        iso_bytes = res['pvd']['space_size'] * 2048
        heads, secs = hyb.get('geometry_heads', 64), hyb.get('geometry_sectors', 32)
        cyl = heads * secs * 512
        cl['image-is-a-whole-number-of-cylinders'] = len(img) % cyl == 0 and len(img) >= iso_bytes
        if not (hyb.get('efi') or hyb.get('mac')):
            cl['only-zero-padding-follows-the-iso'] = all(isinstance(x, int) and x == 0 for x in img[iso_bytes:])
        mbr = im.cbytes(0, 512)
        cl['mbr-signature'] = mbr[510:512] == b'\x55\xaa'
        boot_sector = et['entries'][0]['rba'] if et else -1
        cl['mbr-names-four-times-the-boot-file-sector'] = int.from_bytes(mbr[432:440], 'little') == 4 * boot_sector and tree.get(b'/ISOLINUX.BIN;1', (0, [(None, 0)]))[1][0][0] == boot_sector
        cl['mbr-id'] = int.from_bytes(mbr[440:444], 'little') == hyb['mbr_id']
        parts = [mbr[446 + 16 * i:446 + 16 * (i + 1)] for i in range(4)]
        active = [i for i, p in enumerate(parts) if p[0] == 0x80]
        slot = hyb.get('part_entry', 1) - 1
        want_type = hyb.get('part_type', 0 if (hyb.get('efi') or hyb.get('mac')) else 0x17)
        p = parts[slot]
        cl['exactly-one-active-partition-in-the-requested-slot'] = active == [slot]
        cl['partition-type-offset-and-size-cover-the-padded-image'] = p[4] == want_type and int.from_bytes(p[8:12], 'little') == hyb.get('part_offset', 0) and \
            int.from_bytes(p[12:16], 'little') == len(img) // 512 - hyb.get('part_offset', 0)
        keep = []
        for path, data in a.contents.items():
            t = tree.get(path.encode())
            keep.append(t is not None and t[2] == len(V.items_of(data)) and Eq(V.mk_bytes(R.file_bytes(im, t[1])), data))
        cl['still-a-valid-iso-whose-files-read-their-bytes'] = And(not im.problems, *keep)
        if hyb.get('efi') or hyb.get('mac'):
            g1 = read_gpt(im, 1, len(img) // 512)
            cl['primary-gpt-valid'] = g1['sig'] == b'EFI PART' and not im.problems
            if g1['sig'] == b'EFI PART':
                g2 = read_gpt(im, g1['backup'], len(img) // 512)
                cl['backup-gpt-valid-and-mirrored'] = g2['sig'] == b'EFI PART' and g2.get('backup') == 1 and g1['backup'] == len(img) // 512 - 1 and \
                    g1.get('parts') == g2.get('parts') and g1['guid'] == g2['guid'] and not im.problems
                efi_t = tree.get(b'/EFI.IMG;1')
                if efi_t is not None and g1.get('parts'):
                    first = efi_t[1][0][0] * 4
                    nsec = -(-efi_t[2] // 2048) * 4
                    cl['an-efi-partition-delimits-exactly-the-efi-image'] = any(q['first'] == first and q['last'] == first + nsec - 1 for q in g1['parts'])
        a.problems = list(im.problems)
        return cl

    def observe(self, c, a, out):
        return {'kind': out.kind, 'exc': out.exc, 'problems': getattr(a, 'problems', None)}
