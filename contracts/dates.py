"""Contracts for pycdlib/dates.py (C19, C05)."""
from pyvc import sx
from pyvc.sx import And, Or, Not, Implies, If, Eq
from pyvc.contract import contract, Call
from contracts.utils import Base, T_MAX, tz_string

DRD = 'pycdlib.dates.DirectoryRecordDate'
VDD = 'pycdlib.dates.VolumeDescriptorDate'


class ZoneMixin:
    """time zone handling shared by every contract that goes through time.localtime"""

    def zone(self, c):
        a = c.a
        a.t = c.int('t', 0, T_MAX - 1)
        a.z = c.int('z', -48, 56)
        # the LOCAL year must fit the format (ISO9660 year byte: 1900..2155)
        c.assume(a.t + 900 * a.z < T_MAX)
        if c.symbolic:
            c.p.ghost['tz_quarters'] = a.z
        a.local = c.localtime(a.t)
        if not c.symbolic:
            c.assume(a.local.tm_gmtoff == 900 * a.z)

    def replay_env(self, values):
        return {'TZ': tz_string(values.get('z', 0))}

    # the calendar is modelled abstractly (uninterpreted year/yday + validated facts): a counter-model's (t, z) need not be
    # the instant at which the refuted clause really fails, so a non-replaying model is followed by a search over boundary instants
    replayable = False

    def seeds(self):
        import calendar
        out = []
        for year in (1970, 1971, 1999, 2000, 2001, 2020, 2021, 2024, 2025, 2038, 2100, 2101, 2155):
            for (mo, d, h) in ((1, 1, 0), (12, 31, 23), (2, 28, 23), (3, 1, 0), (6, 15, 12)):
                base = calendar.timegm((year, mo, d, h, 0, 0))
                for dt in (-3600 * 13, -1, 0, 1, 3600 * 13):
                    for z in (-48, -20, -1, 0, 1, 22, 36, 56):
                        t = base + dt
                        if 0 <= t and t + 900 * z < T_MAX and t != 0:
                            out.append({'t': t, 'z': z})
        return out


def u8(x):
    """two's complement byte of a signed value in -128..127"""
    return If(x < 0, x + 256, x)


@contract
class DRDateNew(ZoneMixin, Base):
    """C19/dr-date: new(t) stores the local broken-down time of t and the zone's real offset"""
    target = DRD + '.new'

    def setup(self, c):
        self.zone(c)
        a = c.a
        a.self = c.new(DRD)
        return Call([a.t], self_obj=a.self)

    def post(self, c, a, out):
        s, l = a.self, a.local
        return {
            'fields-are-local-time': And(s.years_since_1900 == l.tm_year - 1900, s.month == l.tm_mon, s.day_of_month == l.tm_mday,
                                         s.hour == l.tm_hour, s.minute == l.tm_min, s.second == l.tm_sec),
            'offset-is-zone-offset': s.gmtoffset == a.z,
            'initialized': Eq(s._initialized, True),
            'inv-fields-fit-bytes': And(s.years_since_1900 >= 0, s.years_since_1900 <= 255, s.month >= 1, s.month <= 12,
                                        s.day_of_month >= 1, s.day_of_month <= 31, s.hour >= 0, s.hour <= 23, s.minute >= 0,
                                        s.minute <= 59, s.second >= 0, s.second <= 59, s.gmtoffset >= -48, s.gmtoffset <= 56),
        }


class AfterZoneChange(ZoneMixin):
    """the same operation after an EARLIER call made under a different zone with the same abbreviation (the process changed TZ,
    as long-running programs and test suites do): what is recorded must be the offset in force now, not a remembered one"""

    def earlier_call(self, c, target, cls):
        a = c.a
        a.z0 = c.int('z0', -48, 56)
        a.t0 = c.int('t0', 0, T_MAX - 1)
        c.assume(a.t0 + 900 * a.z0 < T_MAX)
        if c.symbolic:
            c.p.ghost['tz_quarters'] = a.z0
        else:
            import os
            import time
            os.environ['TZ'] = tz_string(a.z0)
            time.tzset()
        other = c.new(cls)
        c.call(target, other, a.t0)
        if not c.symbolic:
            import os
            import time
            os.environ['TZ'] = tz_string(c._get('z', 0))
            time.tzset()

    def seeds(self):
        out = []
        for v in ZoneMixin.seeds(self)[::7]:
            for z0 in (-20, 0, 32):
                out.append(dict(v, z0=z0, t0=86400 * 365))
        return out


@contract
class DRDateNewAfterZoneChange(AfterZoneChange, Base):
    """C19/dr-date, history form: DirectoryRecordDate.new records the zone offset in force at the call, whatever zone an earlier
    call ran under"""
    target = DRD + '.new'

    def setup(self, c):
        self.earlier_call(c, DRD + '.new', DRD)
        self.zone(c)
        a = c.a
        a.self = c.new(DRD)
        return Call([a.t], self_obj=a.self)

    def post(self, c, a, out):
        return {'offset-is-the-zone-offset-now': a.self.gmtoffset == a.z, 'hour-is-local-now': a.self.hour == a.local.tm_hour}


@contract
class VDDateNewAfterZoneChange(AfterZoneChange, Base):
    """C19/vd-date, history form (see DRDateNewAfterZoneChange)"""
    target = VDD + '.new'

    def setup(self, c):
        self.earlier_call(c, VDD + '.new', VDD)
        self.zone(c)
        a = c.a
        c.assume(a.t > 0)
        a.self = c.new(VDD)
        return Call([a.t], self_obj=a.self)

    def post(self, c, a, out):
        return {'offset-is-the-zone-offset-now': a.self.gmtoffset == a.z, 'hour-is-local-now': a.self.hour == a.local.tm_hour}


@contract
class DRDateNewTwice(Base):
    """new on an initialised object raises InternalError and changes nothing"""
    target = DRD + '.new'
    covers = ('raise:PyCdlibInternalError',)

    def setup(self, c):
        a = c.a
        a.self = c.new(DRD)
        a.self._initialized = True
        a.self.month = 5
        return Call([c.int('t', 0, T_MAX - 1)], self_obj=a.self)

    def raises(self, c, a):
        return {'PyCdlibInternalError': True}

    def post_raise(self, c, a, out):
        return {'unchanged': Eq(a.self.month, 5)}


def drd_fields(c, prefix=''):
    """an initialised DirectoryRecordDate whose fields satisfy the class invariant (each fits its byte)"""
    f = dict(years_since_1900=c.int(prefix + 'years', 0, 255), month=c.int(prefix + 'month', 0, 255), day_of_month=c.int(prefix + 'day', 0, 255),
             hour=c.int(prefix + 'hour', 0, 255), minute=c.int(prefix + 'minute', 0, 255), second=c.int(prefix + 'second', 0, 255),
             gmtoffset=c.int(prefix + 'gmtoffset', -128, 127))
    return f


@contract
class DRDateRecord(Base):
    """C03/C19: record() is the 7 bytes (Y-1900, M, D, h, m, s, offset as two's complement) of ECMA-119 9.1.5"""
    target = DRD + '.record'

    def setup(self, c):
        a = c.a
        a.f = drd_fields(c)
        a.self = c.obj(DRD, _initialized=True, **a.f)
        return Call([], self_obj=a.self)

    def post(self, c, a, out):
        r, f = out.result, a.f
        return {'length-7': len(r) == 7,
                'layout': And(r[0] == f['years_since_1900'], r[1] == f['month'], r[2] == f['day_of_month'], r[3] == f['hour'],
                              r[4] == f['minute'], r[5] == f['second'], r[6] == u8(f['gmtoffset']))}


@contract
class DRDateRecordUninit(Base):
    target = DRD + '.record'
    covers = ('raise:PyCdlibInternalError',)

    def setup(self, c):
        c.a.self = c.new(DRD)
        return Call([], self_obj=c.a.self)

    def raises(self, c, a):
        return {'PyCdlibInternalError': True}


@contract
class DRDateParse(Base):
    """parse(b): fields are the bytes of b (offset signed); any 7+ byte string is accepted"""
    target = DRD + '.parse'
    n = 7

    def setup(self, c):
        a = c.a
        a.b = c.bytes('b', self.n)
        a.self = c.new(DRD)
        return Call([a.b], self_obj=a.self)

    def post(self, c, a, out):
        s, b = a.self, a.b
        return {'fields': And(s.years_since_1900 == b[0], s.month == b[1], s.day_of_month == b[2], s.hour == b[3], s.minute == b[4],
                              s.second == b[5], s.gmtoffset == If(b[6] >= 128, b[6] - 256, b[6])),
                'initialized': Eq(s._initialized, True)}


@contract
class DRDateRoundTrip(Base):
    """C05/C19: record(parse(b)) == b for every 7-byte string"""
    target = DRD + '.record'
    label = 'dates.DirectoryRecordDate.parse+record'

    def setup(self, c):
        a = c.a
        a.b = c.bytes('b', 7)
        a.self = c.new(DRD)
        c.call(DRD + '.parse', a.self, a.b)
        return Call([], self_obj=a.self)

    def post(self, c, a, out):
        return {'identity': Eq(out.result, a.b)}


@contract
class DRDateNewRecord(ZoneMixin, Base):
    """C19: record(new(t)) decodes to the local time of t with the zone's offset, every field in range"""
    target = DRD + '.record'
    label = 'dates.DirectoryRecordDate.new+record'

    def setup(self, c):
        self.zone(c)
        a = c.a
        a.self = c.new(DRD)
        c.call(DRD + '.new', a.self, a.t)
        return Call([], self_obj=a.self)

    def post(self, c, a, out):
        r, l = out.result, a.local
        return {'denotes-t': And(len(r) == 7, r[0] == l.tm_year - 1900, r[1] == l.tm_mon, r[2] == l.tm_mday, r[3] == l.tm_hour,
                                 r[4] == l.tm_min, r[5] == l.tm_sec, r[6] == u8(a.z))}


def dec2(r, i):
    return (r[i] - 48) * 10 + (r[i + 1] - 48)


def is_digit(x):
    return And(x >= 48, x <= 57)


@contract
class VDDateNew(ZoneMixin, Base):
    """C19/vd-date: new(t), t != 0: 17 bytes 'YYYYMMDDhhmmss00' + offset byte, denoting t in the zone"""
    target = VDD + '.new'

    def setup(self, c):
        self.zone(c)
        a = c.a
        c.assume(a.t != 0)
        a.self = c.new(VDD)
        return Call([a.t], self_obj=a.self)

    def post(self, c, a, out):
        s, l = a.self, a.local
        r = s.date_str
        year = (r[0] - 48) * 1000 + (r[1] - 48) * 100 + (r[2] - 48) * 10 + (r[3] - 48)
        return {
            'fields-are-local-time': And(s.year == l.tm_year, s.month == l.tm_mon, s.dayofmonth == l.tm_mday, s.hour == l.tm_hour,
                                         s.minute == l.tm_min, s.second == l.tm_sec, s.hundredthsofsecond == 0),
            'offset-is-zone-offset': s.gmtoffset == a.z,
            'string-length-17': len(r) == 17,
            'string-all-digits': And(*[is_digit(r[i]) for i in range(16)]),
            'string-denotes-fields': And(year == l.tm_year, dec2(r, 4) == l.tm_mon, dec2(r, 6) == l.tm_mday, dec2(r, 8) == l.tm_hour,
                                         dec2(r, 10) == l.tm_min, dec2(r, 12) == l.tm_sec, r[14] == 48, r[15] == 48),
            'string-offset-byte': r[16] == u8(a.z),
            'initialized': Eq(s._initialized, True),
        }


@contract
class VDDateNewZero(Base):
    """new(0.0) is the 'not specified' date: sixteen '0' digits and a zero byte"""
    target = VDD + '.new'

    def setup(self, c):
        a = c.a
        a.self = c.new(VDD)
        return Call([0.0], self_obj=a.self)

    def post(self, c, a, out):
        s = a.self
        return {'empty-form': Eq(s.date_str, b'0' * 16 + b'\x00'),
                'zero-fields': And(s.year == 0, s.month == 0, s.dayofmonth == 0, s.hour == 0, s.minute == 0, s.second == 0,
                                   s.hundredthsofsecond == 0, s.gmtoffset == 0)}


@contract
class VDDateNewRecord(ZoneMixin, Base):
    """record() after new() returns exactly the stored 17 bytes"""
    target = VDD + '.record'
    label = 'dates.VolumeDescriptorDate.new+record'

    def setup(self, c):
        self.zone(c)
        a = c.a
        c.assume(a.t != 0)
        a.self = c.new(VDD)
        c.call(VDD + '.new', a.self, a.t)
        return Call([], self_obj=a.self)

    def post(self, c, a, out):
        r, l = out.result, a.local
        return {'is-date-str': Eq(r, a.self.date_str), 'length-17': len(r) == 17, 'offset-byte': r[16] == u8(a.z),
                'year-digits': (r[0] - 48) * 1000 + (r[1] - 48) * 100 + (r[2] - 48) * 10 + (r[3] - 48) == l.tm_year}


@contract
class VDDateRoundTrip(Base):
    """C05/C19: for every 17-byte string, record(parse(b)) is b, or the canonical empty date when b does not parse as a date"""
    target = VDD + '.record'
    label = 'dates.VolumeDescriptorDate.parse+record'
    replayable = False  # strptime / utf-8 decoding outcome is uninterpreted in the model

    def setup(self, c):
        a = c.a
        a.b = c.bytes('b', 17)
        a.self = c.new(VDD)
        c.call(VDD + '.parse', a.self, a.b)
        return Call([], self_obj=a.self)

    def post(self, c, a, out):
        return {'identity-or-empty': Or(Eq(out.result, a.b), Eq(out.result, b'0' * 16 + b'\x00'))}


@contract
class VDDateParseLen(Base):
    """parse refuses every length other than 17 with InvalidISO and nothing else"""
    target = VDD + '.parse'
    n = 16
    covers = ('raise:PyCdlibInvalidISO',)

    def setup(self, c):
        a = c.a
        a.b = c.bytes('b', self.n)
        a.self = c.new(VDD)
        return Call([a.b], self_obj=a.self)

    def raises(self, c, a):
        return {'PyCdlibInvalidISO': True}


@contract
class VDDateNewYearOutOfRange(Base):
    """C19/vd-date: an instant whose local year does not have four digits cannot be recorded in the 17-byte volume descriptor date
    (the digits would push the offset byte out of the field): new(t) refuses it with InvalidInput.  Enumerated instants (the
    calendar model of the verifier covers 1970-2155; these are handed to CPython's own localtime)."""
    target = VDD + '.new'
    t = 253402300800 + 86400 * 2
    crosscheck = False
    covers = ('raise:PyCdlibInvalidInput',)

    def setup(self, c):
        if c.symbolic:
            c.p.ghost['tz_quarters'] = 0          # UTC: the instant is concrete, so its civil date is computed exactly
        c.a.self = c.new(VDD)
        return Call([float(self.t)], self_obj=c.a.self)

    def replay_env(self, values):
        return {'TZ': tz_string(0)}

    def raises(self, c, a):
        return {'PyCdlibInvalidInput': True}

    def post(self, c, a, out):
        return {'refused': False}

    def observe(self, c, a, out):
        return {'kind': out.kind, 'exc': out.exc}
