"""Contracts for pycdlib/dr.py and path_table_record.py (C03 layout, C05 round trip, C01 logical round trip, F8 packing)."""
from pyvc import sx
from pyvc import values as V
from pyvc.sx import And, Or, Not, Implies, If, Eq
from pyvc.contract import contract, Call, Fragment
from contracts.utils import Base
from contracts.dates import drd_fields, u8

DR = 'pycdlib.dr.DirectoryRecord'
XA = 'pycdlib.dr.XARecord'
PTR = 'pycdlib.path_table_record.PathTableRecord'
DRD = 'pycdlib.dates.DirectoryRecordDate'


def le(items):
    return sx.le_int(items)


def be(items):
    return sx.be_int(items)


def spec_dr_len(len_fi, xa, rr_len=0):
    n = 33 + len_fi + (1 - len_fi % 2) + (14 if xa else 0) + rr_len
    return n + n % 2


def dr_fields(c, len_fi, xa):
    """state of an initialised DirectoryRecord without Rock Ridge satisfying DR-INV (what _new / parse establish)"""
    a = c.a
    f = dict(initialized=True, new_extent_loc=c.int('new_extent_loc', -1, (1 << 32) - 1), orig_extent_loc=c.int('orig_extent_loc', 0, (1 << 32) - 1),
             data_length=c.int('data_length', 0, (1 << 32) - 1), seqnum=c.int('seqnum', 0, 65535), file_flags=c.int('file_flags', 0, 255),
             file_unit_size=c.int('file_unit_size', 0, 255), interleave_gap_size=c.int('gap', 0, 255), xattr_len=c.int('xattr_len', 0, 255),
             len_fi=len_fi, file_ident=c.bytes('ident', len_fi), dr_len=spec_dr_len(len_fi, xa), rock_ridge=None, xa_record=None)
    a.datef = drd_fields(c, 'date_')
    f['date'] = c.obj(DRD, _initialized=True, **a.datef)
    if xa:
        a.xaf = dict(_group_id=c.int('xa_group', 0, 65535), _user_id=c.int('xa_user', 0, 65535), _attributes=c.int('xa_attr', 0, 65535),
                     _filenum=c.int('xa_filenum', 0, 255), _pad_size=0)
        f['xa_record'] = c.obj(XA, _initialized=True, **a.xaf)
    return f


def ecma_dr_clauses(r, f, datef, xaf, len_fi, xa, extent):
    """ECMA-119 9.1 layout of a directory record (no system-use entries other than XA)"""
    r = V.items_of(r)
    n = spec_dr_len(len_fi, xa)
    if len(r) != n:
        return {'length-is-dr_len': False}
    o = 33 + len_fi
    cl = {
        'length-is-dr_len': And(r[0] == n, n % 2 == 0, n <= 255),
        'xattr-len': r[1] == f['xattr_len'],
        'extent-both-endian': And(le(r[2:6]) == extent, be(r[6:10]) == extent),
        'length-both-endian': And(le(r[10:14]) == f['data_length'], be(r[14:18]) == f['data_length']),
        'date': And(r[18] == datef['years_since_1900'], r[19] == datef['month'], r[20] == datef['day_of_month'], r[21] == datef['hour'],
                    r[22] == datef['minute'], r[23] == datef['second'], r[24] == u8(datef['gmtoffset'])),
        'flags-unit-gap': And(r[25] == f['file_flags'], r[26] == f['file_unit_size'], r[27] == f['interleave_gap_size']),
        'seqnum-both-endian': And(le(r[28:30]) == f['seqnum'], be(r[30:32]) == f['seqnum']),
        'identifier': And(r[32] == len_fi, Eq(V.mk_bytes(r[33:o]), f['file_ident'])),
    }
    if len_fi % 2 == 0:
        cl['pad-byte-after-even-identifier'] = r[o] == 0
        o += 1
    if xa:
        cl['xa'] = And(le(r[o:o + 2]) == xaf['_group_id'], le(r[o + 2:o + 4]) == xaf['_user_id'], le(r[o + 4:o + 6]) == xaf['_attributes'],
                       r[o + 6] == 0x58, r[o + 7] == 0x41, r[o + 8] == xaf['_filenum'], Eq(V.mk_bytes(r[o + 9:o + 14]), b'\x00' * 5))
        o += 14
    cl['trailing-pad-zero'] = Eq(V.mk_bytes(r[o:]), b'\x00' * (n - o))
    return cl


@contract
class DRRecord(Base):
    """C03/DR/layout: record() is the ECMA-119 9.1 record: length byte = real (even) length, both-byte-order copies agree,
    identifier, pad byte iff the identifier length is even, XA system use"""
    target = DR + '.record'
    len_fi = 8
    xa = False

    def setup(self, c):
        a = c.a
        a.f = dr_fields(c, self.len_fi, self.xa)
        a.self = c.obj(DR, **a.f)
        a.extent = If(a.f['new_extent_loc'] < 0, a.f['orig_extent_loc'], a.f['new_extent_loc'])
        return Call([], self_obj=a.self)

    def post(self, c, a, out):
        return ecma_dr_clauses(out.result, a.f, a.datef, getattr(a, 'xaf', None), self.len_fi, self.xa, a.extent)


def ecma_dr_bytes(f, datef, xaf, len_fi, xa, extent):
    """spec-side constructor: the bytes ECMA-119 prescribes for these field values (digits through c.digits)"""
    raise NotImplementedError


@contract
class DRRoundTrip(Base):
    """C05 RT2+RT3 / C01 logical round trip: a record the library wrote (record() of a state in DR-INV) is accepted by parse(),
    which recovers identifier, directory flag, length, extent, flags, date, XA - and re-records to the same bytes."""
    target = DR + '.record'
    label = 'dr.DirectoryRecord.record+parse+record'
    len_fi = 8
    xa = False

    def setup(self, c):
        a = c.a
        a.f = dr_fields(c, self.len_fi, self.xa)
        src = c.obj(DR, **a.f)
        a.extent = If(a.f['new_extent_loc'] < 0, a.f['orig_extent_loc'], a.f['new_extent_loc'])
        a.b = c.call(DR + '.record', src)
        # library-written records: the Record/Protection bits are never combined with an extended attribute record
        a.bit = {}
        q = a.f['file_flags']
        for k in range(8):
            q, a.bit[k] = c.divmod(q, 2)
        c.assume(Or(a.f['xattr_len'] == 0, And(a.bit[3] == 0, a.bit[4] == 0)))
        a.vd = c.obj('pycdlib.headervd.PrimaryOrSupplementaryVD', _initialized=True, encoding='utf-8')
        a.parent = c.obj(DR, initialized=True, is_root=True, rock_ridge=None, children=[], isdir=True)
        a.self = c.new(DR)
        a.rrver = c.call(DR + '.parse', a.self, a.vd, a.b, a.parent)
        return Call([], self_obj=a.self)

    def post(self, c, a, out):
        s, f = a.self, a.f
        return {'rerecord-identical': Eq(out.result, a.b),
                'logical-entry-recovered': And(Eq(s.file_ident, f['file_ident']), s.data_length == f['data_length'], s.orig_extent_loc == a.extent,
                                               s.file_flags == f['file_flags'], s.seqnum == f['seqnum'], s.len_fi == self.len_fi, s.dr_len == f['dr_len'],
                                               sx.Iff(Eq(s.isdir, True), a.bit[1] == 1)),
                'xa-presence': (s.xa_record is not None) == bool(self.xa),
                'no-rock-ridge': And(s.rock_ridge is None, Eq(a.rrver, ''))}


@contract
class DRParseRejects(Base):
    """C15/C03: parse() of a record whose two byte orders disagree is refused with InvalidISO (nothing else escapes) -
    for every 34+ byte record with a one-byte identifier"""
    target = DR + '.parse'
    n = 34
    covers = ('return', 'raise:PyCdlibInvalidISO')

    def setup(self, c):
        a = c.a
        a.b = c.bytes('rec', self.n)
        c.assume(a.b[32] == 1)
        a.bit = {}
        q = a.b[25]
        for k in range(8):
            q, a.bit[k] = c.divmod(q, 2)
        a.vd = c.obj('pycdlib.headervd.PrimaryOrSupplementaryVD', _initialized=True, encoding='utf-8')
        a.parent = c.obj(DR, initialized=True, is_root=True, rock_ridge=None, children=[], isdir=True)
        a.self = c.new(DR)
        return Call([a.vd, a.b, a.parent], self_obj=a.self)

    def raises(self, c, a):
        r = V.items_of(a.b)
        agree = And(le(r[2:6]) == be(r[6:10]), le(r[28:30]) == be(r[30:32]))
        xattr_conflict = And(r[1] != 0, Or(a.bit[3] == 1, a.bit[4] == 1))
        return {'PyCdlibInvalidISO': Or(Not(agree), xattr_conflict)}

    def post(self, c, a, out):
        r = V.items_of(a.b)
        s = a.self
        return {'fields': And(s.orig_extent_loc == le(r[2:6]), s.data_length == le(r[10:14]), s.seqnum == le(r[28:30]), s.file_flags == r[25])}


# ---------------------------------------------------------------------------------------------
# F8: next-fit packing of records into sectors
# ---------------------------------------------------------------------------------------------
@contract
class RecalcStep(Base):
    """F8 one-step lemma (fragment: loop body of _recalculate_extents_and_offsets, every variable symbolic): a record of length L
    goes into the current sector iff it still fits (offset + L <= block size), otherwise it opens the next sector; the child gets
    (sector count, end offset) and its index.  Records therefore never straddle a sector: L <= end offset <= block size."""
    target = DR + '._recalculate_extents_and_offsets'
    label = 'dr.DirectoryRecord._recalculate_extents_and_offsets<loop body>'

    def setup(self, c):
        a = c.a
        a.lbs = c.int('logical_block_size', 256, 65536)
        a.off = c.int('dirrecord_offset', 0)
        c.assume(a.off <= a.lbs)
        a.ext = c.int('num_extents', 1)
        a.L = c.int('dr_len', 1, 255)
        a.i = c.int('i', 0)
        a.child = c.obj(DR, initialized=True, dr_len=a.L, extents_to_here=c.int('stale_ext'), offset_to_here=c.int('stale_off'), index_in_parent=c.int('stale_idx'))
        a.self = c.obj(DR, initialized=True, children=IndexedList(a.child))
        env = dict(self=a.self, i=a.i, dirrecord_offset=a.off, num_extents=a.ext, logical_block_size=a.lbs, index=0)
        return Call([], fn=Fragment(self.target, {'for_target': 'i'}, env))

    def post(self, c, a, out):
        fits = a.off + a.L <= a.lbs
        e2 = If(fits, a.ext, a.ext + 1)
        o2 = If(fits, a.off + a.L, a.L)
        ch = a.child
        return {'next-fit-step': And(out.result['num_extents'] == e2, out.result['dirrecord_offset'] == o2),
                'child-gets-position-and-index': And(ch.extents_to_here == e2, ch.offset_to_here == o2, ch.index_in_parent == a.i),
                'record-inside-one-sector': And(o2 >= a.L, o2 <= a.lbs)}

    def observe(self, c, a, out):
        return {'kind': out.kind, 'e': out.result.get('num_extents') if out.kind == 'return' else None, 'o': out.result.get('dirrecord_offset') if out.kind == 'return' else None,
                'child': [a.child.extents_to_here, a.child.offset_to_here, a.child.index_in_parent]}


class IndexedList(list):
    """a children list whose every index denotes the same (arbitrary) child: stands for 'the i-th child, whichever i is'"""

    def __init__(self, child):
        list.__init__(self, [child])
        self.child = child

    def _pyvc_getitem(self, it, idx, node, frame):
        return self.child

    def __getitem__(self, idx):
        return self.child


def nf_pack(lens, lbs):
    """spec: next-fit packing of record lengths into sectors -> list of (sector count, end offset)"""
    out = []
    ext, off = 1, 0
    for L in lens:
        fits = off + L <= lbs
        ext, off = If(fits, ext, ext + 1), If(fits, off + L, L)
        out.append((ext, off))
    return out


@contract
class RecalcWhole(Base):
    """F8 on whole directories (bounded: n children): after _recalculate_extents_and_offsets(index) EVERY child from `index` on has
    the next-fit position of its prefix and its own index - whatever stale values it carried - and the function returns the last."""
    target = DR + '._recalculate_extents_and_offsets'
    n = 3
    index = 0

    def setup(self, c):
        a = c.a
        a.lbs = 2048
        a.lens = [c.int('dr_len%d' % j, 34, 254) for j in range(self.n)]
        a.pack = nf_pack(a.lens, a.lbs)
        a.kids = []
        for j in range(self.n):
            if j < self.index:
                e, o, ix = a.pack[j][0], a.pack[j][1], j       # children before `index` are up to date (caller invariant)
            else:
                e, o, ix = c.int('stale_ext%d' % j), c.int('stale_off%d' % j), c.int('stale_idx%d' % j)
            a.kids.append(c.obj(DR, initialized=True, dr_len=a.lens[j], extents_to_here=e, offset_to_here=o, index_in_parent=ix))
        a.self = c.obj(DR, initialized=True, children=list(a.kids))
        return Call([self.index, a.lbs], self_obj=a.self)

    def post(self, c, a, out):
        cl = {}
        for j in range(self.index, self.n):
            k = a.kids[j]
            cl['child%d' % j] = And(k.extents_to_here == a.pack[j][0], k.offset_to_here == a.pack[j][1], k.index_in_parent == j)
        if self.n > 0 and self.index <= self.n:
            last = a.pack[self.n - 1] if self.n else (1, 0)
            cl['returns-last-position'] = And(out.result[0] == last[0], out.result[1] == last[1])
        return cl


# ---------------------------------------------------------------------------------------------
# path table records
# ---------------------------------------------------------------------------------------------
def ptr_obj(c, len_di):
    a = c.a
    a.f = dict(_initialized=True, len_di=len_di, xattr_length=c.int('xattr_length', 0, 255), extent_location=c.int('extent', 0, (1 << 32) - 1),
               parent_directory_num=c.int('parent', 0, 65535), directory_identifier=c.bytes('ident', len_di), dirrecord=None)
    return c.obj(PTR, **a.f)


@contract
class PTRRecord(Base):
    """C03/PTR (ECMA-119 9.4): length byte, xattr length, extent, parent number, identifier, pad byte iff odd length;
    little- and big-endian forms differ exactly by the byte order of extent and parent; record_length(len) = len(record)"""
    target = PTR + '.record_little_endian'
    len_di = 5
    big = False
    label = property(lambda self: 'path_table_record.PathTableRecord.' + ('record_big_endian' if self.big else 'record_little_endian'))

    def setup(self, c):
        a = c.a
        a.self = ptr_obj(c, self.len_di)
        self.target = PTR + ('.record_big_endian' if self.big else '.record_little_endian')
        return Call([], self_obj=a.self)

    def post(self, c, a, out):
        r = V.items_of(out.result)
        n = 8 + self.len_di + self.len_di % 2
        if len(r) != n:
            return {'length': False}
        num = be if self.big else le
        cl = {'length': True, 'header': And(r[0] == self.len_di, r[1] == a.f['xattr_length'], num(r[2:6]) == a.f['extent_location'],
                                            num(r[6:8]) == a.f['parent_directory_num']),
              'identifier': Eq(V.mk_bytes(r[8:8 + self.len_di]), a.f['directory_identifier'])}
        if self.len_di % 2:
            cl['pad-byte'] = r[n - 1] == 0
        return cl


@contract
class PTRLength(Base):
    target = PTR + '.record_length'
    len_di = 5

    def setup(self, c):
        if c.symbolic:
            return Call([c.cls(PTR), self.len_di], fn=c.loader.find_function(self.target))
        return Call([self.len_di])

    def post(self, c, a, out):
        return {'record-length': out.result == 8 + self.len_di + self.len_di % 2}


@contract
class PTRRoundTrip(Base):
    """C05: record_little_endian(parse(b)) == b for every record of the shape the library writes"""
    target = PTR + '.record_little_endian'
    label = 'path_table_record.PathTableRecord.parse+record'
    len_di = 5

    def setup(self, c):
        a = c.a
        n = 8 + self.len_di + self.len_di % 2
        a.b = c.bytes('rec', n)
        c.assume(a.b[0] == self.len_di)
        if self.len_di % 2:
            c.assume(a.b[n - 1] == 0)
        a.self = c.new(PTR)
        c.call(PTR + '.parse', a.self, a.b)
        return Call([], self_obj=a.self)

    def post(self, c, a, out):
        return {'identity': Eq(out.result, a.b)}


# ---------------------------------------------------------------------------------------------
# F9: the writer lays records out exactly where F8 booked them
# ---------------------------------------------------------------------------------------------
def rec_hook(it, fv, args, kwargs):
    """callee contract of DirectoryRecord.record at its call site in the writer: dr_len bytes (proved by DRRecord: length-is-dr_len)"""
    self = args[0]
    n = self.fields['dr_len']
    arr = it.ctx.ghost.setdefault('rec_arr', sx.z3.Array('recbytes', sx.z3.IntSort(), sx.z3.IntSort()))
    return V.ABytes(arr, 0, n)


@contract
class WriterStep(Base):
    """F9 one-step lemma (fragment: body of `for child in curr.children` in PyCdlib._write_directory_records): with the same state
    as F8's loop (sector index, offset in sector) and a record of dr_len bytes, the record is written at
    (directory extent + sectors-1) * block size + (end offset - dr_len) for F8's (sectors, end offset) - so records are written
    where modify_file_in_place and the parser expect them, in one piece inside one sector."""
    target = 'pycdlib.pycdlib.PyCdlib._write_directory_records'
    label = 'pycdlib.PyCdlib._write_directory_records<for child in curr.children>'
    hooks = {DR + '.record': rec_hook}
    crosscheck = False
    replayable = False

    def setup(self, c):
        a = c.a
        a.lbs = 2048
        a.L = c.int('dr_len', 34, 254)
        a.off = c.int('curr_dirrecord_offset', 0, 2048)
        a.dir_extent0 = c.int('directory_extent', 16, 1 << 30)
        a.ext = c.int('num_extents_so_far', 1, 1 << 20)       # F8's counter for the same prefix of children
        a.child = c.obj(DR, initialized=True, dr_len=a.L, rock_ridge=None, isdir=False, file_ident=b'A;1')
        a.out = c.aout(c.int('out_pos', 0))
        a.self = c.obj('pycdlib.pycdlib.PyCdlib', _initialized=True, logical_block_size=a.lbs, _track_writes=False)
        env = dict(self=a.self, child=a.child, curr_dirrecord_offset=a.off, dir_extent=a.dir_extent0 + a.ext - 1, outfp=a.out, dirs=[], progress=None)
        return Call([], fn=Fragment(self.target, {'for_iter': 'curr.children'}, env))

    def post(self, c, a, out):
        fits = a.off + a.L <= a.lbs
        e2 = If(fits, a.ext, a.ext + 1)
        o2 = If(fits, a.off + a.L, a.L)
        log = a.out.log
        if len(log) != 1:
            return {'exactly-one-write': False}
        pos, data = log[0]
        return {'exactly-one-write': True,
                'written-where-F8-booked-it': pos == (a.dir_extent0 + e2 - 1) * a.lbs + o2 - a.L,
                'whole-record-written': sx.Len(data) == a.L,
                'state-advances-like-F8': And(out.result['dir_extent'] == a.dir_extent0 + e2 - 1, out.result['curr_dirrecord_offset'] == o2),
                'inside-one-sector': And(o2 - a.L >= 0, o2 <= a.lbs)}


# ---------------------------------------------------------------------------------------------
# ordering of directory records
# ---------------------------------------------------------------------------------------------
@contract
class LtOrder(Base):
    """C03/order: on distinct identifiers DirectoryRecord.__lt__ is a strict total order in which '.' (00) comes first, '..' (01)
    second and everything else in byte order - checked for all identifiers of the given lengths"""
    target = DR + '.__lt__'
    lx, ly, lz = 1, 1, 2

    def setup(self, c):
        a = c.a
        a.x = c.obj(DR, initialized=True, file_ident=c.bytes('x', self.lx))
        a.y = c.obj(DR, initialized=True, file_ident=c.bytes('y', self.ly))
        a.z = c.obj(DR, initialized=True, file_ident=c.bytes('z', self.lz))
        a.xy = c.call(DR + '.__lt__', a.x, a.y)
        a.yx = c.call(DR + '.__lt__', a.y, a.x)
        a.yz = c.call(DR + '.__lt__', a.y, a.z)
        return Call([a.z], self_obj=a.x)

    def post(self, c, a, out):
        xz = out.result
        ix, iy = V.items_of(a.x.file_ident), V.items_of(a.y.file_ident)
        same = Eq(a.x.file_ident, a.y.file_ident)
        t = lambda v: Eq(v, True)  # noqa
        # stated on DISTINCT identifiers: '..' < '..' is True in the code, harmless because a directory never holds two '..' records
        cl = {'asymmetric': Implies(Not(same), Not(And(t(a.xy), t(a.yx)))),
              'total-on-distinct': Implies(Not(same), Or(t(a.xy), t(a.yx))),
              'transitive': Implies(And(t(a.xy), t(a.yz)), t(xz))}
        if self.lx == 1 and self.ly >= 1:
            cl['dot-first'] = Implies(And(ix[0] == 0, Not(same)), t(a.xy))
            cl['dotdot-before-names'] = Implies(And(ix[0] == 1, Not(And(len(iy) == 1, Or(iy[0] == 0, iy[0] == 1)))), t(a.xy))
        return cl

    def observe(self, c, a, out):
        return {'kind': out.kind, 'r': [bool(a.xy) if not sx.is_sym(a.xy) else None]}


# ---------------------------------------------------------------------------------------------
# _add_child / remove_child: sortedness, duplicates, accounting, dot lengths
# ---------------------------------------------------------------------------------------------
def directory(c, nfiles, is_root, dirname=b'DIR'):
    """a directory in CHILD-INV: '.', '..', then nfiles plain files with distinct 3-byte identifiers in order; positions = next-fit"""
    a = c.a
    # a small block size makes the overflow branch reachable with a handful of records (the code is generic in it); records stay
    # <= half a block as on real images (254 <= 2048/2), which is what bounds the growth of a next-fit packing to one block per insert
    a.lbs = 512
    a.dlen = c.int('dir_data_length', 512, 1 << 24)
    a.lens = [34, 34] + [c.int('dr_len%d' % i, 34, 254) for i in range(nfiles)]
    a.idents = [b'\x00', b'\x01'] + [c.bytes('name%d' % i, 3) for i in range(nfiles)]
    for i in range(nfiles):
        it = V.items_of(a.idents[2 + i])
        c.assume(it[0] >= 0x30)                         # a d-character, not 00/01
        if i:
            prev = V.items_of(a.idents[1 + i])
            c.assume(Or(prev[0] < it[0], And(prev[0] == it[0], Or(prev[1] < it[1], And(prev[1] == it[1], prev[2] < it[2])))))
    pack = nf_pack(a.lens, a.lbs)
    a.kids = []
    for j in range(2 + nfiles):
        a.kids.append(c.obj(DR, initialized=True, file_ident=a.idents[j], dr_len=a.lens[j], isdir=(j < 2), file_flags=(2 if j < 2 else 0),
                            data_length=(a.dlen if j == 0 or (j == 1 and is_root) else c.int('len%d' % j, 0, (1 << 32) - 1)), rock_ridge=None,
                            children=[], extents_to_here=pack[j][0], offset_to_here=pack[j][1], index_in_parent=j, data_continuation=None))
    # the directory's own length covers its records (whole sectors)
    k, r = c.divmod(a.dlen, a.lbs)
    c.assume(And(r == 0, pack[-1][0] * a.lbs <= a.dlen))
    a.pack0 = pack
    parent = None if is_root else c.obj(DR, initialized=True, isdir=True)
    return c.obj(DR, initialized=True, isdir=True, parent=parent, rock_ridge=None, data_length=a.dlen, children=list(a.kids), rr_children=[],
                 file_ident=b'\x00' if is_root else dirname, _printable_name=b'/' if is_root else dirname)


@contract
class AddChild(Base):
    """C04/dir + C03/dots + C13/dup: adding a record to a directory keeps the children sorted and next-fit packed, refuses a
    duplicate identifier with InvalidInput and NO change, grows the directory by exactly one block iff the records no longer fit
    (returning True exactly then) and keeps '.' (and the root's '..') at the directory's length"""
    target = DR + '._add_child'
    nfiles = 1
    is_root = False
    dirname = 'DIR'   # also checked for a directory that merely happens to be called RR_MOVED on an image without Rock Ridge

    def expected_covers(self):
        return ('return', 'raise:PyCdlibInvalidInput') if self.nfiles else ('return',)

    def setup(self, c):
        a = c.a
        a.self = directory(c, self.nfiles, self.is_root, self.dirname.encode('ascii'))
        a.newlen = c.int('new_dr_len', 34, 254)
        a.newid = c.bytes('new_name', 3)
        c.assume(V.items_of(a.newid)[0] >= 0x30)
        a.child = c.obj(DR, initialized=True, file_ident=a.newid, dr_len=a.newlen, isdir=False, file_flags=0, rock_ridge=None, children=[],
                        extents_to_here=1, offset_to_here=0, index_in_parent=-1, data_continuation=None, data_length=5)
        a.dup = Or(*[Eq(a.newid, i) for i in a.idents[2:]]) if self.nfiles else False
        return Call([a.child, a.lbs, False, True], self_obj=a.self)

    def raises(self, c, a):
        return {'PyCdlibInvalidInput': a.dup}

    def post_raise(self, c, a, out):
        kids = a.self.children
        return {'children-unchanged': len(kids) == 2 + self.nfiles and all(x is y for x, y in zip(kids, a.kids)), 'length-unchanged': a.self.data_length == a.dlen}

    def post(self, c, a, out):
        s = a.self
        kids = s.children
        n = 3 + self.nfiles
        if len(kids) != n:
            return {'one-child-added': False}
        lens = [k.dr_len for k in kids]
        pack = nf_pack(lens, a.lbs)
        grew = s.data_length == a.dlen + a.lbs
        same = s.data_length == a.dlen
        cl = {'one-child-added': sum(1 for k in kids if k is a.child) == 1,
              'others-kept-in-order': [k for k in kids if k is not a.child] == a.kids if not c.symbolic else all(x is y for x, y in zip([k for k in kids if k is not a.child], a.kids)),
              'dots-first': kids[0] is a.kids[0] and kids[1] is a.kids[1],
              'positions-are-next-fit': And(*[And(k.extents_to_here == p[0], k.offset_to_here == p[1], k.index_in_parent == j) for j, (k, p) in enumerate(zip(kids, pack))]),
              'grows-by-one-block-or-not-at-all': Or(grew, same),
              'returns-true-iff-grew': sx.Iff(Eq(out.result, True), grew),
              'length-covers-records': pack[-1][0] * a.lbs <= s.data_length,
              'grows-only-when-the-records-no-longer-fit': sx.Iff(grew, pack[-1][0] * a.lbs > a.dlen),
              'dot-has-directory-length': kids[0].data_length == s.data_length}
        if self.is_root:
            cl['root-dotdot-has-directory-length'] = kids[1].data_length == s.data_length
        # sortedness by identifier
        srt = []
        for j in range(2, n - 1):
            x, y = V.items_of(kids[j].file_ident), V.items_of(kids[j + 1].file_ident)
            srt.append(Or(x[0] < y[0], And(x[0] == y[0], Or(x[1] < y[1], And(x[1] == y[1], x[2] < y[2])))))
        cl['sorted-no-duplicates'] = And(*srt) if srt else True
        return cl

    def observe(self, c, a, out):
        return {'kind': out.kind, 'exc': out.exc, 'n': len(a.self.children), 'len': a.self.data_length}


# ---------------------------------------------------------------------------------------------
# DR-INV is established by new_file / new_dir (no Rock Ridge)
# ---------------------------------------------------------------------------------------------
from contracts.dates import ZoneMixin  # noqa


@contract
class DRNewFile(ZoneMixin, Base):
    """C03 DR-INV establish + C13 'fits the on-disc field': new_file builds a record whose length byte is the ECMA-119 length of
    its content and fits one byte; an identifier (with XA) that cannot fit a 255-byte record, or a length that does not fit
    32 bits, is refused with InvalidInput at the time of the edit - not later at write time."""
    target = DR + '.new_file'
    len_fi = 8
    xa = False

    def setup(self, c):
        self.zone(c)
        a = c.a
        a.name = c.bytes('isoname', self.len_fi)
        a.length = c.int('length', 0, 1 << 33)
        a.seq = c.int('seqnum', 0, 65535)
        a.vd = c.obj('pycdlib.headervd.PrimaryOrSupplementaryVD', _initialized=True, encoding='utf-8')
        a.parent = c.obj(DR, initialized=True, is_root=True, isdir=True, rock_ridge=None)
        a.self = c.new(DR)
        return Call([a.vd, a.length, a.name, a.parent, a.seq, '', b'', self.xa, 0o100444, a.t], self_obj=a.self)

    def fits(self):
        return spec_dr_len(self.len_fi, self.xa) <= 255

    def raises(self, c, a):
        return {'PyCdlibInvalidInput': Or(a.length > (1 << 32) - 1, not self.fits())}

    def expected_covers(self):
        return ('return', 'raise:PyCdlibInvalidInput') if self.fits() else ('raise:PyCdlibInvalidInput',)

    def post(self, c, a, out):
        s = a.self
        return {'dr-inv': And(s.dr_len == spec_dr_len(self.len_fi, self.xa), s.dr_len <= 255, s.len_fi == self.len_fi, Eq(s.file_ident, a.name),
                              s.data_length == a.length, s.seqnum == a.seq, s.file_flags == 0, s.xattr_len == 0, s.file_unit_size == 0,
                              s.interleave_gap_size == 0, Eq(s.isdir, False), Eq(s.initialized, True)),
                'xa-iff-requested': (s.xa_record is not None) == bool(self.xa),
                'date-offset-is-zone': s.date.gmtoffset == a.z}

    def observe(self, c, a, out):
        return {'kind': out.kind, 'exc': out.exc, 'dr_len': getattr(a.self, 'dr_len', None) if out.kind == 'return' else None}


@contract
class AddChildToDrDuplicate(Base):
    """C13/dup: adding a record whose identifier already exists in the directory is refused with InvalidInput and changes nothing -
    a second file of the same name is never silently merged into the first.  The single documented exception is the next extent
    of a multi-extent (> 4 GiB) file, whose earlier extents are all full (0xfffff800 bytes)."""
    target = 'pycdlib.pycdlib.PyCdlib._add_child_to_dr'
    covers = ('return', 'raise:PyCdlibInvalidInput')

    def setup(self, c):
        a = c.a
        a.dir = directory(c, 1, False)
        a.exist_len = a.kids[2].data_length
        a.child = c.obj(DR, initialized=True, file_ident=a.idents[2], dr_len=a.lens[2], isdir=False, file_flags=0, rock_ridge=None, children=[],
                        extents_to_here=1, offset_to_here=0, index_in_parent=-1, data_continuation=None, data_length=c.int('new_len', 0, (1 << 32) - 1),
                        parent=a.dir)
        a.self = c.obj('pycdlib.pycdlib.PyCdlib', _initialized=True, logical_block_size=a.lbs)
        return Call([a.child], self_obj=a.self)

    def raises(self, c, a):
        return {'PyCdlibInvalidInput': a.exist_len != 0xfffff800}

    def post_raise(self, c, a, out):
        kids = a.dir.children
        return {'directory-unchanged': len(kids) == 3 and all(x is y for x, y in zip(kids, a.kids)),
                'existing-record-untouched': And(a.kids[2].data_continuation is None, a.kids[2].file_flags == 0)}

    def post(self, c, a, out):
        return {'continuation-linked': a.kids[2].data_continuation is a.child}

    def observe(self, c, a, out):
        return {'kind': out.kind, 'exc': out.exc, 'n': len(a.dir.children)}


# ---------------------------------------------------------------------------------------------
# the list of children sorted by Rock Ridge name (what lookups by Rock Ridge path use)
# ---------------------------------------------------------------------------------------------
RRC = 'pycdlib.rockridge.RockRidge'


def rr_directory(c, n, dirname=b'DIR'):
    """a Rock Ridge directory in RR-CHILD-INV: '.', '..' and n files whose ISO9660 identifiers are in order; rr_children holds the n
    files sorted by their (distinct, symbolic 2-byte) Rock Ridge names - an independent order, given by a symbolic permutation-free
    construction: file i carries the i-th smallest Rock Ridge name and the ISO9660 identifiers are fixed"""
    a = c.a
    a.lbs = 2048
    a.rrnames = [c.bytes('rr_name%d' % i, 2) for i in range(n)]
    for i in range(n):
        for x in V.items_of(a.rrnames[i]):
            c.assume(And(x >= 0x21, x < 0x7f))
        if i:
            p, q = V.items_of(a.rrnames[i - 1]), V.items_of(a.rrnames[i])
            c.assume(Or(p[0] < q[0], And(p[0] == q[0], p[1] < q[1])))

    def rec(j, ident, isdir, rrname):
        ents = lambda: c.obj('pycdlib.rockridge.RockRidgeEntries', cl_record=None, px_record=None)       # noqa: E731
        rr = c.obj(RRC, _initialized=True, _full_name=rrname if rrname is not None else b'', dr_entries=ents(), ce_entries=ents())
        return c.obj(DR, initialized=True, file_ident=ident, dr_len=40, isdir=isdir, file_flags=(2 if isdir else 0), data_length=2048 if isdir else 5,
                     rock_ridge=rr, children=[], rr_children=[], extents_to_here=1, offset_to_here=40 * (j + 1), index_in_parent=j, data_continuation=None)
    a.kids = [rec(0, b'\x00', True, None), rec(1, b'\x01', True, None)] + [rec(2 + i, b'F%d.;1' % i, False, a.rrnames[i]) for i in range(n)]
    parent = c.obj(DR, initialized=True, isdir=True)
    prr = c.obj(RRC, _initialized=True, _full_name=b'dir')
    return c.obj(DR, initialized=True, isdir=True, parent=parent, rock_ridge=prr, data_length=2048, children=list(a.kids),
                 rr_children=list(a.kids[2:]), file_ident=dirname, _printable_name=dirname)


@contract
class RRChildAdd(Base):
    """C13/rr-dup + C18/lookup: adding an entry to a Rock Ridge directory keeps the list sorted by Rock Ridge name sorted and puts the
    entry into it exactly once; an entry whose Rock Ridge name is already there is refused with InvalidInput and NO change (two
    entries with one POSIX name could not both be reached) - except in the holding directory RR_MOVED, where relocated directories
    from anywhere meet"""
    target = DR + '._add_child'
    n = 2
    dirname = 'DIR'
    covers = ('return', 'raise:PyCdlibInvalidInput')

    def setup(self, c):
        a = c.a
        a.dir = rr_directory(c, self.n, self.dirname.encode())
        a.newname = c.bytes('new_rr_name', 2)
        for x in V.items_of(a.newname):
            c.assume(And(x >= 0x21, x < 0x7f))
        rr = c.obj(RRC, _initialized=True, _full_name=a.newname)
        a.child = c.obj(DR, initialized=True, file_ident=b'ZZZ.;1', dr_len=40, isdir=False, file_flags=0, data_length=5, rock_ridge=rr, children=[],
                        rr_children=[], extents_to_here=0, offset_to_here=0, index_in_parent=0, data_continuation=None, parent=a.dir)
        a.kids0 = list(a.dir.children)
        a.rr0 = list(a.dir.rr_children)
        return Call([a.child, a.lbs, False, True], self_obj=a.dir)

    def dup(self, a):
        return Or(*[Eq(a.newname, nm) for nm in a.rrnames]) if a.rrnames else False

    def raises(self, c, a):
        return {'PyCdlibInvalidInput': False if self.dirname == 'RR_MOVED' else self.dup(a)}

    def expected_covers(self):
        return ('return',) if self.dirname == 'RR_MOVED' or self.n == 0 else self.covers

    def post(self, c, a, out):
        rrc = a.dir.rr_children
        names = [k.rock_ridge._full_name for k in rrc]
        srt = []
        for p, q in zip(names, names[1:]):
            p, q = V.items_of(p), V.items_of(q)
            srt.append(Or(p[0] < q[0], And(p[0] == q[0], p[1] <= q[1])))
        return {'sorted-by-rock-ridge-name': And(*srt) if srt else True,
                'holds-the-new-entry-once': sum(1 for k in rrc if k is a.child) == 1 and len(rrc) == len(a.rr0) + 1,
                'keeps-the-others': all(any(k is o for k in rrc) for o in a.rr0),
                'children-hold-it-too': sum(1 for k in a.dir.children if k is a.child) == 1}

    def post_raise(self, c, a, out):
        return {'nothing-changed': len(a.dir.rr_children) == len(a.rr0) and all(x is y for x, y in zip(a.dir.rr_children, a.rr0)) and
                len(a.dir.children) == len(a.kids0) and all(x is y for x, y in zip(a.dir.children, a.kids0))}

    def observe(self, c, a, out):
        return {'kind': out.kind, 'exc': out.exc}


@contract
class RRChildRemove(Base):
    """C01/C16 (nothing removed is still found): remove_child takes the entry out of the children AND out of the list sorted by
    Rock Ridge name, leaving the others in order - a lookup by Rock Ridge path cannot find a removed entry, and its name is free
    again"""
    target = DR + '.remove_child'
    n = 3
    index = 0          # which of the n files goes

    def setup(self, c):
        a = c.a
        a.dir = rr_directory(c, self.n)
        a.child = a.kids[2 + self.index]
        a.rr0 = list(a.dir.rr_children)
        return Call([a.child, 2 + self.index, a.lbs], self_obj=a.dir)

    def post(self, c, a, out):
        rrc = a.dir.rr_children
        rest = [k for k in a.rr0 if k is not a.child]
        return {'gone-from-the-rock-ridge-list': not any(k is a.child for k in rrc),
                'gone-from-the-children': not any(k is a.child for k in a.dir.children),
                'the-others-stay-in-order': len(rrc) == len(rest) and all(x is y for x, y in zip(rrc, rest))}

    def observe(self, c, a, out):
        return {'kind': out.kind, 'exc': out.exc}
