"""Contracts for pycdlib/eltorito.py (C11, C05)."""
from pyvc import sx
from pyvc import values as V
from pyvc.sx import And, Or, Not, Implies, If, Eq
from pyvc.contract import contract, Call, Fragment
from contracts.utils import Base

VE = 'pycdlib.eltorito.EltoritoValidationEntry'
EE = 'pycdlib.eltorito.EltoritoEntry'
SH = 'pycdlib.eltorito.EltoritoSectionHeader'
BC = 'pycdlib.eltorito.EltoritoBootCatalog'
BIT = 'pycdlib.eltorito.EltoritoBootInfoTable'


def sum16(items):
    """sum of the little-endian 16-bit words of a byte list (El Torito 2.1: all words of the validation entry sum to 0 mod 2^16)"""
    tot = 0
    for i in range(0, len(items) - 1, 2):
        tot = tot + items[i] + 256 * items[i + 1]
    return tot


from pyvc.contract import LoopSpec


class ChecksumLoop(LoopSpec):
    """invariant of the loop in _checksum after k bytes: csum is congruent (mod 2^16) to the LE-word sum of data[:k], csum >= 0"""
    unrolled = True
    modifies = ('csum',)

    def invariant(self, it, frame, phase):
        k = frame.locals['__k']
        items = V.items_of(frame.locals['data'])
        w = 0
        for j in range(k):
            w = w + items[j] * (256 if j % 2 else 1)
        csum = frame.locals['csum']
        if phase == 'assume':
            t = it.ctx.fresh_int('t')
            return {'congruent': csum == w + 65536 * t, 'nonneg': csum >= 0}
        if not sx.is_sym(csum - w):
            return {'congruent': (csum - w) % 65536 == 0, 'nonneg': csum >= 0}
        q = it.ctx.fresh_int('iq')
        r = it.ctx.fresh_int('ir')
        it.ctx.assume(sx.And(csum - w == 65536 * q + r, r >= 0, r < 65536))
        return {'congruent': r == 0, 'nonneg': csum >= 0}


@contract
class ValidationChecksum(Base):
    """C11/sum: for EVERY 32-byte entry, _checksum(data) + (sum of the sixteen LE words of data) = 0 (mod 2^16), 0 <= result < 2^16"""
    target = VE + '._checksum'
    loops = {('pycdlib.eltorito.EltoritoValidationEntry._checksum', 0): ChecksumLoop()}

    def setup(self, c):
        a = c.a
        a.data = c.bytes('data', 32)
        # spec side: the word sum modulo 2^16
        a.q, a.r = c.divmod(sum16(V.items_of(a.data)), 65536)
        return Call([a.data])

    def post(self, c, a, out):
        r = out.result
        return {'range': And(r >= 0, r < 65536), 'complements-word-sum': Or(r + a.r == 65536, And(r == 0, a.r == 0))}


@contract
class ValidationNewRecord(Base):
    """C11/sum: new(platform).record(): header id 1, the platform byte, reserved 0, key bytes 55 AA, all words sum to 0 mod 2^16"""
    target = VE + '.record'
    label = 'eltorito.EltoritoValidationEntry.new+record'
    platform = 0

    def setup(self, c):
        a = c.a
        a.self = c.new(VE)
        c.call(VE + '.new', a.self, self.platform)
        return Call([], self_obj=a.self)

    def post(self, c, a, out):
        r = out.result
        return {'length-32': len(r) == 32, 'header-platform': And(r[0] == 1, r[1] == self.platform, r[2] == 0, r[3] == 0),
                'key-bytes': And(r[30] == 0x55, r[31] == 0xAA), 'words-sum-to-zero': sum16(V.items_of(r)) % 65536 == 0,
                'id-string-zero': Eq(r[4:28], b'\x00' * 24)}


@contract
class ValidationNewBadPlatform(Base):
    """platform ids other than 0, 1, 2, 0xef are refused with InvalidInput and nothing is initialised"""
    target = VE + '.new'
    covers = ('return', 'raise:PyCdlibInvalidInput')

    def setup(self, c):
        a = c.a
        a.self = c.new(VE)
        a.p = c.int('platform_id')
        return Call([a.p], self_obj=a.self)

    def raises(self, c, a):
        return {'PyCdlibInvalidInput': Not(Or(a.p == 0, a.p == 1, a.p == 2, a.p == 0xef))}

    def post(self, c, a, out):
        return {'platform-stored': a.self.platform_id == a.p}

    def post_raise(self, c, a, out):
        return {'not-initialised': Eq(a.self._initialized, False)}


@contract
class ValidationRoundTrip(Base):
    """the library accepts its own validation entries: parse(record(new(p))) succeeds with the same platform"""
    target = VE + '.parse'
    label = 'eltorito.EltoritoValidationEntry.new+record+parse'
    platform = 0

    def setup(self, c):
        a = c.a
        src = c.new(VE)
        c.call(VE + '.new', src, self.platform)
        a.rec = c.call(VE + '.record', src)
        a.self = c.new(VE)
        return Call([a.rec], self_obj=a.self)

    def post(self, c, a, out):
        return {'same-platform': a.self.platform_id == self.platform, 'initialised': Eq(a.self._initialized, True)}


MEDIA = ['noemul', 'floppy', 'hdemul', 'bogus']


@contract
class EntryNew(Base):
    """C11/entry: media byte 0/1/2/3/4 from (noemul | floppy with 2400/2880/5760 sectors | hdemul), anything else InvalidInput;
    sector count = requested for no-emulation, 1 otherwise; boot indicator 0x88 / 0"""
    target = EE + '.new'
    media = 'noemul'

    def expected_covers(self):
        return ('raise:PyCdlibInvalidInput',) if self.media == 'bogus' else (('return', 'raise:PyCdlibInvalidInput') if self.media == 'floppy' else ('return',))

    def setup(self, c):
        a = c.a
        a.self = c.new(EE)
        a.count = c.int('sector_count', 0, 65535)
        a.seg = c.int('load_seg', 0, 65535)
        a.systype = c.int('system_type', 0, 255)
        a.bootable = c.bool('bootable')
        return Call([a.count, a.seg, self.media, a.systype, a.bootable], self_obj=a.self)

    def raises(self, c, a):
        if self.media == 'floppy':
            return {'PyCdlibInvalidInput': Not(Or(a.count == 2400, a.count == 2880, a.count == 5760))}
        if self.media in ('noemul', 'hdemul'):
            return {'PyCdlibInvalidInput': False}
        return {'PyCdlibInvalidInput': True}

    def post(self, c, a, out):
        s = a.self
        if self.media == 'noemul':
            media, count = 0, a.count
        elif self.media == 'hdemul':
            media, count = 4, 1
        else:
            media, count = If(a.count == 2400, 1, If(a.count == 2880, 2, 3)), 1
        return {'media-type': s.boot_media_type == media, 'sector-count': s.sector_count == count,
                'boot-indicator': s.boot_indicator == If(a.bootable, 0x88, 0), 'load-segment': s.load_segment == a.seg,
                'system-type': s.system_type == a.systype, 'rba-unset': s.load_rba == 0, 'criteria-zero': Eq(s.selection_criteria, b'\x00' * 19)}

    def post_raise(self, c, a, out):
        return {'not-initialised': Eq(a.self._initialized, False)}


def entry_fields(c, prefix=''):
    return dict(boot_indicator=c.choice(prefix + 'boot_indicator', [0x88, 0]), boot_media_type=c.int(prefix + 'media', 0, 4),
                load_segment=c.int(prefix + 'load_segment', 0, 65535), system_type=c.int(prefix + 'system_type', 0, 255),
                sector_count=c.int(prefix + 'sector_count', 0, 65535), load_rba=c.int(prefix + 'load_rba', 0, (1 << 32) - 1),
                selection_criteria_type=c.int(prefix + 'sel_type', 0, 255), selection_criteria=c.bytes(prefix + 'sel', 19))


@contract
class EntryRecord(Base):
    """C11/entry layout (El Torito 2.2/2.4): indicator, media, LE16 load segment, system type, 0, LE16 sector count, LE32 load RBA"""
    target = EE + '.record'

    def setup(self, c):
        a = c.a
        a.f = entry_fields(c)
        a.self = c.obj(EE, _initialized=True, **a.f)
        return Call([], self_obj=a.self)

    def post(self, c, a, out):
        r, f = out.result, a.f
        return {'length-32': len(r) == 32,
                'layout': And(r[0] == f['boot_indicator'], r[1] == f['boot_media_type'], r[2] + 256 * r[3] == f['load_segment'],
                              r[4] == f['system_type'], r[5] == 0, r[6] + 256 * r[7] == f['sector_count'],
                              sx.le_int(V.items_of(r)[8:12]) == f['load_rba'], r[12] == f['selection_criteria_type']),
                'criteria': Eq(r[13:32], f['selection_criteria'])}


@contract
class EntryRoundTrip(Base):
    """C05: record(parse(b)) == b for every 32-byte entry that parse accepts; parse raises only InvalidISO"""
    target = EE + '.record'
    label = 'eltorito.EltoritoEntry.parse+record'
    setup_may_raise = ('PyCdlibInvalidISO',)

    def setup(self, c):
        a = c.a
        a.b = c.bytes('b', 32)
        a.self = c.new(EE)
        c.call(EE + '.parse', a.self, a.b)
        return Call([], self_obj=a.self)

    def post(self, c, a, out):
        return {'identity': Eq(out.result, a.b)}


@contract
class UpdateCatalogExtent(Base):
    """C11/pointer: update_catalog_extent(e) stores LE32(e) in the first four bytes of the boot record's system-use field and
    leaves the other 1973 bytes alone; extent_location() reads it back"""
    target = BC + '.update_catalog_extent'

    def setup(self, c):
        a = c.a
        a.old = c.bytes('bsu', 1977)
        a.br = c.obj('pycdlib.headervd.BootRecord', _initialized=True, boot_system_use=a.old)
        a.self = c.obj(BC, _initialized=True, br=a.br)
        a.e = c.int('extent', 0, (1 << 32) - 1)
        return Call([a.e], self_obj=a.self)

    def post(self, c, a, out):
        new = a.br.boot_system_use
        return {'length-kept': len(new) == 1977, 'le32-extent': sx.le_int(V.items_of(new)[0:4]) == a.e, 'rest-unchanged': Eq(new[4:], a.old[4:])}


# ---------------------------------------------------------------------------------------------
# boot info table
# ---------------------------------------------------------------------------------------------
@contract
class BootInfoTableRecord(Base):
    """C11/bit: the 56-byte table is LE32(PVD sector), LE32(file sector), LE32(file length), LE32(checksum), then 40 zero bytes"""
    target = BIT + '.record'

    def setup(self, c):
        a = c.a
        a.pvd_extent = c.int('pvd_extent', 0, (1 << 32) - 1)
        a.file_extent = c.int('file_extent', 0, (1 << 32) - 1)
        a.orig_len = c.int('orig_len', 0, (1 << 32) - 1)
        a.csum = c.int('csum', 0, (1 << 32) - 1)
        vd = c.obj('pycdlib.headervd.PrimaryOrSupplementaryVD', _initialized=True, new_extent_loc=a.pvd_extent, orig_extent_loc=None)
        ino = c.obj('pycdlib.inode.Inode', _initialized=True, new_extent_loc=a.file_extent, orig_extent_loc=0)
        a.self = c.obj(BIT, _initialized=True, vd=vd, inode=ino, orig_len=a.orig_len, csum=a.csum)
        return Call([], self_obj=a.self)

    def post(self, c, a, out):
        r = V.items_of(out.result)
        if len(r) != 56:
            return {'length-56': False}
        return {'length-56': True, 'pvd-sector': sx.le_int(r[0:4]) == a.pvd_extent, 'file-sector': sx.le_int(r[4:8]) == a.file_extent,
                'file-length': sx.le_int(r[8:12]) == a.orig_len, 'checksum': sx.le_int(r[12:16]) == a.csum, 'reserved-zero': Eq(V.mk_bytes(r[16:]), b'\x00' * 40)}


def sum32le(items):
    tot = 0
    for i in range(0, len(items), 4):
        tot = tot + sx.le_int(items[i:i + 4])
    return tot


class BitSumInner(LoopSpec):
    """inner loop of the boot-info checksum.  Ghost g = exact sum of the LE words consumed so far (all sectors);
    invariant: 0 <= csum < 2^32 and csum = g (mod 2^32).  The ghost chain g' = g + word persists across the cuts."""
    unrolled = True
    modifies = ('csum',)

    def enter(self, it, frame):
        if '__g' not in it.ctx.ghost:
            it.ctx.ghost['__g'] = frame.locals['csum']  # 0 at the first sector
        frame.locals['__prev_i'] = frame.locals['i']

    def expected(self, it, frame):
        block = V.items_of(frame.locals['block'])
        i0, i = frame.locals['__prev_i'], frame.locals['i']
        return it.ctx.ghost['__g'] + sum32le(block[i0:i])

    def invariant(self, it, frame, phase):
        csum = frame.locals['csum']
        rng = sx.And(csum >= 0, csum < (1 << 32))
        if phase == 'assume':
            return {'congruent': csum == it.ctx.ghost['__g'] + (1 << 32) * it.ctx.fresh_int('t'), 'range': rng}
        if phase == 'init':
            w = it.ctx.ghost['__g']
        else:
            w = self.expected(it, frame)
        if not sx.is_sym(csum - w):
            return {'congruent': (csum - w) % (1 << 32) == 0, 'range': rng}
        q = it.ctx.fresh_int('iq')
        r = it.ctx.fresh_int('ir')
        it.ctx.assume(sx.And(csum - w == (1 << 32) * q + r, r >= 0, r < (1 << 32)))
        return {'congruent': r == 0, 'range': rng}

    def persist(self, it, frame):
        # ghost chain g' = g + word: kept in the path condition (needed by the post-condition) but outside the per-iteration VCs
        g2 = it.ctx.fresh_int('g')
        eq = g2 == self.expected(it, frame)
        it.ctx.ghost['__g'] = g2
        frame.locals['__prev_i'] = frame.locals['i']
        return [eq]


@contract
class BootInfoChecksum(Base):
    """C11/bit: the checksum is the sum (mod 2^32) of the LE 32-bit words of the boot file's bytes [64, n), the file being the n bytes
    the user supplied (zero-padded to a sector) - whatever follows them in the source file object."""
    target = 'pycdlib.pycdlib.PyCdlib._calculate_eltorito_boot_info_table_csum'
    loops = {('pycdlib.pycdlib.PyCdlib._calculate_eltorito_boot_info_table_csum', 1): BitSumInner()}
    n = 100
    extra = 0

    def setup(self, c):
        a = c.a
        a.content = c.bytes('content', self.n)
        a.trail = c.bytes('trailing', self.extra)
        a.fp = c.file(V.mk_bytes(V.items_of(a.content) + V.items_of(a.trail)))
        a.self = c.obj('pycdlib.pycdlib.PyCdlib', _initialized=True, logical_block_size=2048)
        pad = (-self.n) % 2048
        body = V.items_of(a.content)[64:] + [0] * pad if self.n > 64 else []
        body = body + [0] * ((-len(body)) % 4)
        a.q, a.spec = c.divmod(sum32le(body), 1 << 32)
        return Call([a.fp, self.n], self_obj=a.self)

    def post(self, c, a, out):
        return {'sum-of-file-words-from-64': out.result == a.spec}


# ---------------------------------------------------------------------------------------------
# boot catalog
# ---------------------------------------------------------------------------------------------
def make_catalog(c, nsections, platform=0, efi_sections=()):
    """a catalog built with the real new()/add_section() calls (no-emulation entries with symbolic sizes)"""
    a = c.a
    br = c.obj('pycdlib.headervd.BootRecord', _initialized=True, boot_system_use=b'\x00' * 1977)
    cat = c.new(BC, br)
    a.inos = []
    a.counts = []
    for k in range(nsections + 1):
        ino = c.obj('pycdlib.inode.Inode', _initialized=True, linked_records=[], data_length=2048, new_extent_loc=-1, num_udf=0)
        cnt = c.int('count%d' % k, 0, 65535)
        a.inos.append(ino)
        a.counts.append(cnt)
        if k == 0:
            c.call(BC + '.new', cat, br, ino, cnt, 0, 'noemul', 0, platform, True)
        else:
            c.call(BC + '.add_section', cat, ino, cnt, 0, 'noemul', 0, (k in efi_sections), True)
    return cat


@contract
class CatalogRecord(Base):
    """C11/catalog: validation entry, initial entry, then per section a header (0x90 ... 0x90, 0x91 last; platform = validation platform
    or 0xef for EFI; one entry) and its entry with the requested load size; 64 + 64k bytes <= one sector"""
    target = BC + '.record'
    k = 0
    platform = 0

    def setup(self, c):
        a = c.a
        a.efi = tuple(i for i in range(1, self.k + 1) if i % 2 == 0)
        a.self = make_catalog(c, self.k, self.platform, a.efi)
        return Call([], self_obj=a.self)

    def post(self, c, a, out):
        r = V.items_of(out.result)
        n = 64 + 64 * self.k
        if len(r) != n:
            return {'length': False}
        cl = {'length': n <= 2048,
              'validation': And(r[0] == 1, r[1] == self.platform, r[30] == 0x55, r[31] == 0xAA, sum16(r[:32]) % 65536 == 0),
              'initial-entry': And(r[32] == 0x88, r[33] == 0, r[38] + 256 * r[39] == a.counts[0])}
        for j in range(1, self.k + 1):
            h = 64 * j
            e = h + 32
            cl['section%d' % j] = And(r[h] == (0x91 if j == self.k else 0x90), r[h + 1] == (0xef if j in a.efi else self.platform),
                                      r[h + 2] + 256 * r[h + 3] == 1, r[e] == 0x88, r[e + 1] == 0, r[e + 6] + 256 * r[e + 7] == a.counts[j])
        return cl


@contract
class CatalogTooManySections(Base):
    """the 32nd section is refused with InvalidInput and the catalog is unchanged"""
    target = BC + '.add_section'
    covers = ('raise:PyCdlibInvalidInput',)

    def setup(self, c):
        a = c.a
        a.self = make_catalog(c, 31)
        a.before = c.call(BC + '.record', a.self)
        a.ino = c.obj('pycdlib.inode.Inode', _initialized=True, linked_records=[], data_length=2048)
        return Call([a.ino, 4, 0, 'noemul', 0, False, True], self_obj=a.self)

    def raises(self, c, a):
        return {'PyCdlibInvalidInput': True}

    def post_raise(self, c, a, out):
        after = c.call(BC + '.record', a.self)
        return {'catalog-unchanged': Eq(after, a.before), 'inode-not-linked': len(a.ino.linked_records) == 0}


@contract
class RmEltoritoDetachEntry(Base):
    """C11/rm (fragment of PyCdlib.rm_eltorito: body of `for entry in entries_to_remove`): the El Torito entry leaves its inode's
    reference list - and only it - and the boot info table that add_eltorito attached to the boot file is detached as well
    ('removing El Torito removes all of this')."""
    target = 'pycdlib.pycdlib.PyCdlib.rm_eltorito'
    label = 'pycdlib.PyCdlib.rm_eltorito<for entry in entries_to_remove>'
    with_table = True

    def setup(self, c):
        a = c.a
        a.rec = c.obj('pycdlib.dr.DirectoryRecord', initialized=True)
        a.other = c.obj(EE, _initialized=True, sector_count=4, inode=None)
        a.table = c.obj(BIT, _initialized=True, orig_len=100, csum=0) if self.with_table else None
        a.ino = c.obj('pycdlib.inode.Inode', _initialized=True, data_length=100, boot_info_table=a.table, linked_records=[])
        a.entry = c.obj(EE, _initialized=True, sector_count=4, inode=a.ino)
        a.ino.linked_records = [(a.rec, True), (a.entry, False), (a.other, False)]
        return Call([], fn=Fragment(self.target, {'for_iter': 'entries_to_remove'}, dict(entry=a.entry)))

    def post(self, c, a, out):
        lr = a.ino.linked_records
        return {'entry-unlinked': all(x[0] is not a.entry for x in lr),
                'others-kept-in-order': len(lr) == 2 and lr[0][0] is a.rec and lr[1][0] is a.other,
                'boot-info-table-detached': a.ino.boot_info_table is None}

    def observe(self, c, a, out):
        return {'kind': out.kind, 'n': len(a.ino.linked_records), 'table': a.ino.boot_info_table is None}


@contract
class BootInfoTableParse(Base):
    """C11/C05: parse() recognises exactly the tables that point at this PVD and this file's sector - in particular every
    table the library itself wrote (whatever length and checksum it records) - and then re-records the same 56 bytes."""
    target = BIT + '.parse'

    def setup(self, c):
        a = c.a
        a.pvd_extent = c.int('pvd_extent', 0, (1 << 32) - 1)
        a.file_extent = c.int('file_extent', 0, (1 << 32) - 1)
        a.data = c.bytes('table', 16)
        a.vd = c.obj('pycdlib.headervd.PrimaryOrSupplementaryVD', _initialized=True, new_extent_loc=a.pvd_extent, orig_extent_loc=None)
        a.ino = c.obj('pycdlib.inode.Inode', _initialized=True, new_extent_loc=a.file_extent, orig_extent_loc=0,
                      data_length=c.int('inode_data_length', 0, (1 << 32) - 1))
        a.self = c.new(BIT)
        return Call([a.vd, a.data, a.ino], self_obj=a.self)

    def post(self, c, a, out):
        d = V.items_of(a.data)
        points_here = And(sx.le_int(d[0:4]) == a.pvd_extent, sx.le_int(d[4:8]) == a.file_extent)
        s = a.self
        res = out.result
        cl = {'recognised-iff-it-points-at-this-pvd-and-file': Eq(res, True) if (not sx.is_sym(points_here) and points_here) else
              (Eq(res, False) if not sx.is_sym(points_here) else sx.Iff(Eq(res, True), points_here))}
        if res is True:
            cl['fields'] = And(s.orig_len == sx.le_int(d[8:12]), s.csum == sx.le_int(d[12:16]), Eq(s._initialized, True))
        return cl
