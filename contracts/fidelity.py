"""C01 / C03 / C04 / C08 / C09 at scenario level: an image is built through the real API (executed by pyvc), written, and then
decoded by the INDEPENDENT reader of contracts/reader.py.  File contents are symbolic bytes, so 'reads back byte for byte'
is proved for every content; structure (names, tree shape) comes from a table of edit scripts."""
from pyvc import sx
from pyvc import values as V
from pyvc.sx import And, Or, Not, Implies, If, Eq
from pyvc.contract import contract, Call
from contracts.utils import Base
from contracts import scenario as S
from contracts import reader as R

LONGNAME = 'a-very-long-rock-ridge-name-' * 8       # 224 characters: needs a continuation area
DEEP = ['/D1', '/D1/D2', '/D1/D2/D3', '/D1/D2/D3/D4', '/D1/D2/D3/D4/D5', '/D1/D2/D3/D4/D5/D6', '/D1/D2/D3/D4/D5/D6/D7', '/D1/D2/D3/D4/D5/D6/D7/D8']

# edit scripts: image keyword args + operations.  ('file', iso, rr, joliet, size) ('dir', iso, rr, joliet) ('rm_file', iso, joliet)
# ('rm_dir', iso, joliet) ('link', old_iso, new_iso) ('symlink', iso, rr, target) ('hide', iso)
SCRIPTS = {
    'plain-small': (dict(), [('file', '/A.;1', None, None, 5), ('dir', '/D', None, None), ('file', '/D/B.TXT;1', None, None, 3000), ('file', '/EMPTY.;1', None, None, 0)]),
    'joliet': (dict(joliet=3), [('file', '/A.;1', None, '/a long joliet name.txt', 7), ('dir', '/D', None, '/d'), ('file', '/D/B.;1', None, '/d/b', 2048),
                                ('file', '/ONLYISO.;1', None, None, 4)]),
    'rock-ridge': (dict(rock_ridge='1.09'), [('file', '/A.;1', 'a', None, 5), ('dir', '/D', 'dir', None), ('file', '/D/B.;1', LONGNAME, None, 100),
                                             ('symlink', '/S.;1', 'sym', 'dir/' + LONGNAME), ('symlink', '/T.;1', 'abs', '/usr/./lib/../x'), ('dir', '/D/E', 'e', None)]),
    'rr-joliet-remove': (dict(rock_ridge='1.12', joliet=3), [('file', '/A.;1', 'a', '/a', 5), ('file', '/B.;1', 'b', '/b', 9), ('dir', '/D', 'd', '/d'),
                                                             ('rm_file', '/A.;1', '/a'), ('dir', '/G', 'g', '/g'), ('rm_dir', '/D', '/d'), ('hide', '/B.;1')]),
    'hard-links': (dict(joliet=3), [('file', '/A.;1', None, '/a', 6), ('dir', '/D', None, '/d'), ('link', '/A.;1', '/D/L.;1'), ('file', '/Z.;1', None, '/z', 2)]),
    'empty-files': (dict(), [('file', '/A.;1', None, None, 0), ('file', '/B.;1', None, None, 0), ('file', '/C.;1', None, None, 5), ('dir', '/D', None, None), ('file', '/D/E.;1', None, None, 0)]),
    'many-files': (dict(), [('file', '/F%03d.;1' % i, None, None, 1) for i in range(60)]),
    'deep-rr': (dict(rock_ridge='1.09'), [('dir', p, p.rsplit('/', 1)[1].lower(), None) for p in DEEP] + [('file', DEEP[-1] + '/X.;1', 'x', None, 3)]),
}


LONG2 = 'n' * 700                                   # three NM entries
SYM_MANY = '/'.join('comp%02d' % i for i in range(60))            # several SL entries, split between components
SYM_LONGCOMP = 'x/' + 'y' * 300 + '/../z'                         # one component longer than an SL entry can hold

# Rock Ridge scripts (C08).  A 6th element of a 'file' op / 5th of a 'dir' op is a dict of extra keyword arguments (file_mode)
RR_SCRIPTS = {
    'rr-110-modes': (dict(rock_ridge='1.10'), [('file', '/A.;1', 'a', None, 5, {'file_mode': 0o100640}), ('dir', '/D', 'dir', None, {'file_mode': 0o040700}),
                                               ('file', '/D/B.;1', 'b' * 190, None, 9, {'file_mode': 0o100755}), ('dir', '/D/E', 'e' * 215, None),
                                               ('dir', '/D/F', 'f', None), ('symlink', '/S.;1', 's' * 180, 'dir/' + 'b' * 190)]),
    'rr-112-xa-symlinks': (dict(rock_ridge='1.12', xa=True), [('file', '/A.;1', LONG2, None, 5), ('symlink', '/S1.;1', 'many', SYM_MANY),
                                                              ('symlink', '/S2.;1', 'longcomp', SYM_LONGCOMP), ('symlink', '/S3.;1', 'root', '/'),
                                                              ('symlink', '/S4.;1', 'dots', '../.././a'), ('dir', '/D', 'd', None), ('symlink', '/D/S5.;1', 'w' * 250, '/' + 'q' * 255)]),
    'rr-ce-history': (dict(rock_ridge='1.09'), [('file', '/F%02d.;1' % i, ('name%02d-' % i) + 'x' * (150 + 9 * i), None, 1) for i in range(12)] +
                      [('rm_file', '/F03.;1', None), ('rm_file', '/F04.;1', None), ('rm_file', '/F08.;1', None)] +
                      [('file', '/G1.;1', 'g1-' + 'y' * 170, None, 2), ('file', '/G2.;1', 'g2-' + 'y' * 240, None, 2), ('symlink', '/G3.;1', 'g3', SYM_MANY),
                       ('rm_file', '/F00.;1', None), ('dir', '/H', 'h' * 230, None)]),
    # symbolic links whose entries end exactly at a component boundary (and near it), so that an SL entry with the CONTINUE flag ends
    # with a COMPLETE component
    'rr-symlink-boundaries': (dict(rock_ridge='1.09'), [('file', '/FOO.;1', 'foo', None, 4), ('symlink', '/SYM.;1', 'sym', 'a' * 128 + '/' + 'b' * 120 + '/ccc')] +
                              [('symlink', '/S%03d.;1' % k, 's%03d' % k, 'a' * k + '/' + 'b' * 120 + '/ccc') for k in range(120, 137)]),
    # relocated directories whose Rock Ridge names need continuation areas: the CL placeholder and the real directory (K56, K57)
    'deep-rr-long-names': (dict(rock_ridge='1.09'), [('dir', p, p.rsplit('/', 1)[1].lower(), None) for p in DEEP[:7]] +
                           [('dir', DEEP[7], 'eighth-' + 'n' * 200, None), ('file', DEEP[7] + '/X.;1', 'x' * 180, None, 3), ('dir', DEEP[7] + '/D9', 'ninth-' + 'm' * 210, None),
                            ('symlink', DEEP[6] + '/S.;1', 's' * 200, 'a/' + 'b' * 100), ('dir', DEEP[6] + '/E8', 'e-' + 'q' * 190, None), ('file', DEEP[6] + '/E8/Y.;1', 'y', None, 4)]),
    'deep-rr-112': (dict(rock_ridge='1.12'), [('dir', p, p.rsplit('/', 1)[1].lower() + '-' + 'l' * 40 * (i % 3), None) for i, p in enumerate(DEEP)] +
                    [('dir', DEEP[-1] + '/D9', 'd9', None), ('file', DEEP[-1] + '/D9/X.;1', 'x' * 200, None, 3), ('file', DEEP[-1] + '/Y.;1', 'y', None, 4),
                     ('dir', '/D1/D2/D3/D4/D5/D6/D7/E8', 'e8', None), ('file', '/D1/D2/D3/D4/D5/D6/D7/E8/Z.;1', 'z', None, 5)]),
    # a chain of 20 directories: relocation is due whenever the REAL level reaches eight - at the 8th component and then every
    # six components further down (K75: it used to go by the number of components, leaving levels 9 and 10 in between)
    'deep-rr-20': (dict(rock_ridge='1.09'), [('dir', '/' + '/'.join('D%d' % j for j in range(1, i + 1)), 'd%d' % i, None) for i in range(1, 21)] +
                   [('file', '/' + '/'.join('D%d' % j for j in range(1, 21)) + '/F.;1', 'f', None, 5),
                    ('file', '/' + '/'.join('D%d' % j for j in range(1, 15)) + '/G.;1', 'g' * 150, None, 2049),
                    ('symlink', '/' + '/'.join('D%d' % j for j in range(1, 16)) + '/S.;1', 's', '../../x')]),
    # the holding directory RR_MOVED goes away with its last relocated directory and has to come back for the next one - on the
    # object that built the image (K76) and on one that opened it (K78: parsing remembered the wrong record as the holding directory)
    'deep-rr-remove-readd': (dict(rock_ridge='1.09'), [('dir', p, p.rsplit('/', 1)[1].lower(), None) for p in DEEP[:7]] +
                             [('dir', DEEP[6] + '/X8', 'x8', None), ('rm_dir', DEEP[6] + '/X8', None), ('dir', DEEP[6] + '/Y8', 'y8-' + 'l' * 200, None),
                              ('file', DEEP[6] + '/Y8/F.;1', 'f', None, 5), ('reopen',), ('rm_file', DEEP[6] + '/Y8/F.;1', None), ('rm_dir', DEEP[6] + '/Y8', None),
                              ('dir', DEEP[6] + '/Z8', 'z8', None), ('file', DEEP[6] + '/Z8/G.;1', 'g', None, 2049), ('dir', DEEP[6] + '/W8', 'w8', None), ('reopen',),
                              ('dir', DEEP[6] + '/V8', 'v8', None), ('file', DEEP[6] + '/V8/H.;1', 'h', None, 3)]),
    # the user made a directory called RR_MOVED before the first relocation: it becomes the holding directory and keeps its own
    # entries (K79: the relocation used to be refused half way for the duplicate name)
    'rr-user-made-rr-moved': (dict(rock_ridge='1.09'), [('dir', '/RR_MOVED', 'rr_moved', None), ('file', '/RR_MOVED/U.;1', 'u', None, 4)] +
                              [('dir', p, p.rsplit('/', 1)[1].lower(), None) for p in DEEP[:7]] +
                              [('dir', DEEP[7], 'd8', None), ('file', DEEP[7] + '/F.;1', 'f', None, 5), ('reopen',), ('dir', DEEP[6] + '/E8', 'e8', None),
                               ('file', DEEP[6] + '/E8/G.;1', 'g', None, 2049), ('file', '/RR_MOVED/V.;1', 'v', None, 3)]),
    # names that existed are used again, in every namespace (K77: a removed entry stayed in the list sorted by Rock Ridge name)
    'rr-joliet-name-reuse': (dict(rock_ridge='1.09', joliet=3), [('file', '/A.;1', 'foo', '/foo', 5), ('dir', '/D', 'dir', '/dir'), ('file', '/D/B.;1', 'bar', '/dir/bar', 3),
                                                                  ('rm_file', '/A.;1', '/foo'), ('file', '/C.;1', 'foo', '/foo', 7), ('rm_file', '/D/B.;1', '/dir/bar'), ('rm_dir', '/D', '/dir'),
                                                                  ('dir', '/D', 'dir', '/dir'), ('file', '/D/B.;1', 'bar', '/dir/bar', 2049), ('reopen',), ('rm_file', '/C.;1', '/foo'),
                                                                  ('file', '/A.;1', 'foo', '/foo', 4), ('symlink', '/S.;1', 'lnk', 'foo'), ('rm_file', '/S.;1', None), ('symlink', '/T.;1', 'lnk', 'dir/bar')]),
    # names and targets that fill one continuation block almost completely (beyond that they are refused: K73)
    'rr-one-block-limit': (dict(rock_ridge='1.09'), [('file', '/A.;1', 'a' * 2100, None, 5), ('symlink', '/S.;1', 's', 't' * 2080), ('dir', '/D', 'd' * 2000, None),
                                                     ('file', '/D/B.;1', 'b' * 1000, None, 2049), ('symlink', '/D/T.;1', 'n' * 1000, 'u' * 1000)]),
    # symbolic link targets with doubled, leading and trailing slashes (components without a name) and dots
    'rr-symlink-shapes': (dict(rock_ridge='1.09'), [('dir', '/D', 'd', None)] + [('symlink', '/S%d.;1' % i, 's%d' % i, t) for i, t in enumerate(
        ['a/', 'a//b', './', '../', '///', '/a//', '.', '..', '/', 'a/./b', '//a', '/..', 'x' * 255 + '//' + 'y'])]),
    # the image is written and OPENED again in the middle of the history; the entries added afterwards need continuation areas (K58)
    'rr-edit-after-reopen': (dict(rock_ridge='1.09'), [('file', '/A.;1', 'a', None, 5), ('dir', '/D', 'd', None), ('reopen',), ('file', '/B.;1', 'b' * 200, None, 2049),
                                                       ('symlink', '/S.;1', 'sym', 'c' * 255), ('dir', '/D/E', 'e' * 120, None), ('reopen',), ('rm_file', '/B.;1', None),
                                                       ('file', '/D/E/F.;1', 'f' * 251, None, 3)]),
}

# Joliet scripts (C09): names outside ASCII / outside the BMP, 64-character names, trees that differ between Joliet and ISO9660
JOLIET_SCRIPTS = {
    'joliet-duplicate-pvd': (dict(joliet=3), [('file', '/A.;1', None, '/a', 5), ('dup_pvd',), ('dir', '/D', None, '/d'), ('dup_pvd',), ('file', '/D/B.;1', None, '/d/b', 2049)]),
    'joliet-unicode': (dict(joliet=3), [('file', '/A.;1', None, '/\u00e9t\u00e9 \u65e5\u672c\u8a9e.txt', 7), ('file', '/B.;1', None, '/' + 'w' * 64, 3),
                                        ('dir', '/D', None, '/\u0434\u0438\u0440'), ('file', '/D/C.;1', None, '/\u0434\u0438\u0440/\U0001f600 smile', 2049),
                                        ('file', '/Z.;1', None, '/Zz', 1), ('file', '/Y.;1', None, '/zZ', 1)]),
    'joliet-divergent': (dict(joliet=3), [('dir', '/D', None, None), ('file', '/D/ISOONLY.;1', None, None, 5), ('jdir', '/jonly'), ('file', '/A.;1', None, '/jonly/a in joliet only dir', 6),
                                          ('file', '/B.;1', None, '/b', 2), ('jlink', '/B.;1', '/jonly/second name of b'), ('rm_jlink', '/b'),
                                          ('file', '/E.;1', None, '/e', 0)]),
    'joliet-level1-many': (dict(joliet=1), [('file', '/F%03d.;1' % i, None, '/' + ('long joliet name number %03d ' % i) * 2, 1) for i in range(40)] +
                           [('rm_file', '/F007.;1', '/' + 'long joliet name number 007 ' * 2), ('dir', '/D', None, '/' + 'd' * 64)]),
    'joliet-same-name-links': (dict(joliet=3), [('dir', '/A', None, '/a'), ('jdir', '/b'), ('file', '/A/FOO.;1', None, '/a/foo', 2850), ('jlink', '/A/FOO.;1', '/b/foo'),
                                                ('rm_jlink', '/b/foo'), ('file', '/A/EARLIER.;1', None, '/a/earlier', 5000), ('dir', '/A/SUB', None, '/a/sub'),
                                                ('jlink', '/A/FOO.;1', '/a/sub/foo'), ('jlink', '/A/FOO.;1', '/b/foo'), ('rm_jlink', '/a/sub/foo'), ('file', '/0.;1', None, '/0', 2049)]),
    'joliet-many-dirs': (dict(joliet=3), [('dir', '/D%02d' % i, None, '/' + ('directory %02d ' % i) * 4 + 'xyz') for i in range(20)] +
                         [('file', '/D05/F.;1', None, '/' + 'directory 05 ' * 4 + 'xyz' + '/f', 3), ('rm_dir', '/D07', '/' + 'directory 07 ' * 4 + 'xyz'),
                          ('rm_dir', '/D19', '/' + 'directory 19 ' * 4 + 'xyz'), ('rm_dir', '/D18', '/' + 'directory 18 ' * 4 + 'xyz'), ('rm_dir', '/D17', '/' + 'directory 17 ' * 4 + 'xyz'),
                          ('rm_dir', '/D16', '/' + 'directory 16 ' * 4 + 'xyz'), ('jdir', '/' + 'directory 05 ' * 4 + 'xyz' + '/joliet only sub')]),
    'joliet-rr-udf-less': (dict(joliet=2, rock_ridge='1.09'), [('dir', '/D', 'dee', '/Dee'), ('file', '/D/A.;1', 'a-rr', '/Dee/a-joliet', 10), ('symlink', '/S.;1', 'sym', 'dee/a-rr'),
                                                                ('link', '/D/A.;1', '/L.;1', 'l-rr'), ('file', '/M.;1', 'm', '/m', 3), ('rm_link', '/L.;1'), ('link', '/D/A.;1', '/D/K.;1', 'k-rr')]),
}

SCRIPTS_ALL = dict(SCRIPTS)
SCRIPTS_ALL.update(RR_SCRIPTS)
SCRIPTS_ALL.update(JOLIET_SCRIPTS)


FLAVOURS = {
    'plain': dict(), 'level3': dict(interchange_level=3), 'joliet': dict(joliet=3), 'rr109': dict(rock_ridge='1.09'), 'rr112': dict(rock_ridge='1.12'),
    'rr110-joliet': dict(rock_ridge='1.10', joliet=2), 'rr112-joliet-xa': dict(rock_ridge='1.12', joliet=3, xa=True),
    'level4': dict(interchange_level=4), 'joliet1-level2': dict(joliet=1, interchange_level=2),
}
# bridge flavours: every entry may have a name in each of ISO9660, Rock Ridge, Joliet and UDF (histories named random:<flavour>:...)
FLAVOURS_X = {'udf-joliet': dict(joliet=3, udf='2.60'), 'udf-rr-joliet': dict(joliet=3, udf='2.60', rock_ridge='1.09'), 'udf-plain': dict(udf='2.60')}


def random_script(flavour, seed, nops=28, reopen_every=0):
    """a random but well-formed edit history (deterministic in flavour and seed): files of boundary sizes, directories, removals,
    hard links in both namespaces, symbolic links, hidden flags - every operation is one the library must accept, chosen from
    the current state of the tree. With reopen_every=k the image is written and opened again after every k operations and the
    history goes on on the OPENED object (zero-length files are then no longer removed: K21)"""
    import random
    rnd = random.Random('%s/%d' % (flavour, seed) + ('/r%d' % reopen_every if reopen_every else ''))
    reopened = [False]
    kw = FLAVOURS[flavour] if flavour in FLAVOURS else FLAVOURS_X[flavour]
    rr, jol, udf = 'rock_ridge' in kw, 'joliet' in kw, 'udf' in kw
    maxdepth = (18 if nops >= 100 else 10) if rr else 6      # long Rock Ridge histories go deep enough for a second relocation
    dirs = {'': ('', '', '')}        # iso dir path -> (rr name of the dir itself, joliet path, udf path)
    files = {}                       # iso path -> dict(j=[joliet paths], cid, links=[other iso paths])
    contents = 0
    symlinks = []
    jonly = []
    ops = []
    gone_files, gone_dirs = {}, {}   # parent directory -> names of removed entries, to be used again (C13: names that existed)
    counter = [0]

    def fresh():
        counter[0] += 1
        return counter[0]

    def rrname(k):
        n = rnd.choice([1, 5, 30, 120, 200, 251, 400]) if rnd.random() < 0.4 else rnd.randint(1, 20)
        base = 'n%d-' % k
        return (base + 'x' * n)[:max(n, len(base))]

    def jname(k):
        alphabet = ['a', 'B', ' ', '\u00e9', '\u65e5', '.', '-']
        n = rnd.choice([1, 7, 40, 64]) if rnd.random() < 0.3 else rnd.randint(1, 15)
        tail = ''.join(rnd.choice(alphabet) for _ in range(n))
        prefix = 'j%d' % k                       # the counter keeps generated names distinct: never cut into it
        name = (prefix + tail)[:max(len(prefix), min(64, n + len(prefix)))]
        while len(name.encode('utf-8')) > 64:      # the library's limit is 64 UTF-8 bytes
            name = name[:-1]
        return name.rstrip(' .') or 'j%d' % k

    def uname(k):
        alphabet = ['a', 'B', '-', ' ', '\u00e9', '\u4e2d', '_']
        tail = ''.join(rnd.choice(alphabet) for _ in range(rnd.choice([0, 3, 20, 100]) if rnd.random() < 0.4 else rnd.randint(0, 12)))
        return ('u%d' % k + tail)[:120].rstrip(' ')

    class _Deep(list):
        """the possible parents; long Rock Ridge histories often go for the deepest one, so that chains reach the second relocation"""

    _choice = rnd.choice

    def choice(seq):
        if isinstance(seq, _Deep) and rr and nops >= 100 and rnd.random() < 0.4:
            return max(sorted(seq), key=lambda d: d.count('/'))
        return _choice(seq)
    rnd.choice = choice

    for _i in range(nops):
        if reopen_every and _i and _i % reopen_every == 0:
            ops.append(('reopen',))
            reopened[0] = True
        r = rnd.random()
        parents = _Deep(d for d in dirs if d.count('/') < maxdepth - 1)
        if jol and r < 0.04:
            # a file that exists in the Joliet tree only
            d = rnd.choice(parents)
            k = fresh()
            ops.append(('jfile', dirs[d][1] + '/' + jname(k), rnd.choice([0, 3, 2049])))
            jonly.append(ops[-1][1])
            contents += 1
        elif r < 0.38 or not files:
            d = rnd.choice(parents)
            k = fresh()
            ip = '%s/F%d.;1' % (d, k)
            size = rnd.choice([0, 1, 5, 2047, 2048, 2049, 4096, 5000])
            rn = rrname(k) if rr else None
            jp = (dirs[d][1] + '/' + jname(k)) if (jol and rnd.random() < 0.8) else None
            up = (dirs[d][2] + '/' + uname(k)) if (udf and rnd.random() < 0.85) else None
            if gone_files.get(d) and rnd.random() < 0.4:
                # the names of a file that was removed from this directory are used again (in every namespace)
                ip, rn, jp, up = gone_files[d].pop()
            ops.append(('file', ip, rn, jp, size) + (({'udf_path': up},) if up else ()))
            files[ip] = dict(j=[jp] if jp else [], cid=contents, links=[], size=size, u=up, names=(ip, rn, jp, up))
            contents += 1
        elif r < 0.55:
            d = rnd.choice(parents)
            k = fresh()
            ip = '%s/D%d' % (d, k)
            rn = rrname(k) if rr else None
            jp = (dirs[d][1] + '/' + jname(k)) if jol else None
            up = (dirs[d][2] + '/' + uname(k)) if udf else None
            if gone_dirs.get(d) and rnd.random() < 0.4:
                ip, rn, jp, up = gone_dirs[d].pop()            # a removed directory comes back under its old names
            ops.append(('dir', ip, rn, jp) + (({'udf_path': up},) if up else ()))
            dirs[ip] = (rn, jp or '', up or '')
        elif r < 0.67:
            removable = sorted(p for p, g in files.items() if g['size'] or not reopened[0])
            if not removable:
                continue
            ip = rnd.choice(removable)
            f = files.pop(ip)
            if f.get('names') and len(f['j']) <= 1:
                gone_files.setdefault(ip.rsplit('/', 1)[0], []).append(f['names'])
            # rm_file removes every name of that content
            ops.append(('rm_file', ip, f['j'][0] if f['j'] else None) + ((f['u'],) if f.get('u') else ()))
            for other in [p for p, g in files.items() if g['cid'] == f['cid']]:
                files.pop(other)
        elif r < 0.75:
            empties = [d for d in dirs if d and not any(p.startswith(d + '/') for p in list(files) + list(dirs) + symlinks)
                       and not any(jp and jp.startswith(dirs[d][1] + '/') for g in files.values() for jp in g['j'])
                       and not any(jp.startswith(dirs[d][1] + '/') for jp in jonly)]
            if not empties:
                continue
            d = rnd.choice(empties)
            ops.append(('rm_dir', d, dirs[d][1] or None) + ((dirs[d][2],) if dirs[d][2] else ()))
            gone_dirs.setdefault(d.rsplit('/', 1)[0], []).append((d, dirs[d][0], dirs[d][1] or None, dirs[d][2] or None))
            gone_files.pop(d, None)
            gone_dirs.pop(d, None)
            dirs.pop(d)
        elif r < 0.85:
            src = rnd.choice(sorted(files))
            d = rnd.choice(parents)
            k = fresh()
            if jol and rnd.random() < 0.4:
                jp = dirs[d][1] + '/' + jname(k)
                ops.append(('jlink', src, jp))
                files[src]['j'].append(jp)
                for p, g in files.items():
                    if g['cid'] == files[src]['cid'] and p != src:
                        g['j'] = files[src]['j']
            else:
                ip = '%s/L%d.;1' % (d, k)
                ops.append(('link', src, ip) + ((rrname(k),) if rr else ()))
                files[ip] = dict(j=files[src]['j'], cid=files[src]['cid'], links=[], size=files[src]['size'], u=files[src].get('u'))
        elif r < 0.93 and rr:
            d = rnd.choice(parents)
            k = fresh()
            ip = '%s/S%d.;1' % (d, k)
            target = rnd.choice(['a', '../x', '/abs/./y', 'd/' + 'z' * 100]) if udf else rnd.choice(['a', '/', '../x', './a/../b', 'c' * 255, '/'.join('p%d' % i for i in range(rnd.randint(2, 70))), 'q' * 300 + '/r', '/abs/' + 'z' * 100])
            ops.append(('symlink', ip, rrname(k), target) + ((dirs[d][2] + '/' + uname(k),) if udf else ()))
            symlinks.append(ip)
        elif r < 0.96:
            ip = rnd.choice(sorted(files))
            ops.append(('hide', ip))
        else:
            # remove ONE name of a content that has several
            multi = [p for p, g in files.items() if sum(1 for q, h in files.items() if h['cid'] == g['cid']) > 1 and (g['size'] or not reopened[0])]
            if multi:
                ip = rnd.choice(sorted(multi))
                ops.append(('rm_link', ip))
                files.pop(ip)
            else:
                cands = sorted(p for p, g in files.items() if len(g['j']) > 1 and (g['size'] or not reopened[0]))
                if cands:
                    ip = rnd.choice(cands)
                    jp = files[ip]['j'][-1]
                    ops.append(('rm_jlink', jp))
                    files[ip]['j'].remove(jp)
    return kw, ops


def random_names(tier, flavours=None, quick_n=1, thorough_n=12):
    """names of the random edit histories of a tier: seeds 1..n per flavour, shifted by VERIF_SEED so that other histories can be
    explored without touching the checks"""
    import os
    # the quick tier always runs the same histories; VERIF_SEED moves the thorough tier to other ones
    base = int(os.environ.get('VERIF_SEED', '0') or 0) * 1000 if tier != 'quick' else 0
    n = quick_n if tier == 'quick' else thorough_n
    names = ['random:%s:%d' % (fl, base + k) for fl in (flavours or sorted(FLAVOURS)) for k in range(1, n + 1)]
    if tier != 'quick':
        # two long histories (200 operations) per flavour: deep trees, relocation, many continuation areas, multi-sector directories
        names += ['random:%s:%d:200' % (fl, base + k) for fl in (flavours or sorted(FLAVOURS)) for k in (1, 2)]
    return names


def random_bridge_names(tier):
    """random histories on bridge images where entries get names in every namespace at once (ISO9660 + Rock Ridge + Joliet + UDF),
    fresh and with the image written and opened again every few operations"""
    import os
    base = int(os.environ.get('VERIF_SEED', '0') or 0) * 1000 if tier != 'quick' else 0
    if tier == 'quick':
        return ['random:udf-rr-joliet:1:28', 'random:udf-joliet:1:28:r7']
    names = ['random:%s:%d:28' % (fl, base + k) for fl in sorted(FLAVOURS_X) for k in range(1, 5)]
    names += ['random:%s:%d:28:r%d' % (fl, base + k, (7, 3)[k % 2]) for fl in sorted(FLAVOURS_X) for k in range(1, 5)]
    return names + ['random:%s:%d:150' % (fl, base + 1) for fl in sorted(FLAVOURS_X)] + ['random:udf-rr-joliet:%d:120:r10' % (base + 1)]


def random_reopen_names(tier):
    """random histories during which the image is written and opened again every few operations (the history goes on on the opened
    object): quick one per flavour family, thorough all flavours, several seeds and two longer ones"""
    import os
    base = int(os.environ.get('VERIF_SEED', '0') or 0) * 1000 if tier != 'quick' else 0
    if tier == 'quick':
        return ['random:plain:1:28:r7', 'random:joliet:1:28:r7', 'random:rr109:1:28:r7', 'random:rr112-joliet-xa:1:28:r5']
    names = ['random:%s:%d:28:r%d' % (fl, base + k, (7, 5, 2)[k % 3]) for fl in sorted(FLAVOURS) for k in range(1, 7)]
    names += ['random:%s:%d:120:r10' % (fl, base + k) for fl in sorted(FLAVOURS) for k in (1, 2)]
    return names


def get_script(name):
    """(image keyword arguments, operations) of a table script or of 'random:<flavour>:<seed>'"""
    if name.startswith('random:'):
        parts = name.split(':')
        return random_script(parts[1], int(parts[2]), int(parts[3]) if len(parts) > 3 else 28, int(parts[4][1:]) if len(parts) > 4 else 0)
    return SCRIPTS_ALL[name]


def modes_of(script):
    """the POSIX mode each ISO path must show through Rock Ridge"""
    m = {}
    for op in script:
        if op[0] == 'file':
            m[op[1]] = (op[5] if len(op) > 5 else {}).get('file_mode', 0o100444)
        elif op[0] == 'dir':
            m[op[1]] = (op[4] if len(op) > 4 else {}).get('file_mode', 0o040555)
        elif op[0] == 'symlink':
            m[op[1]] = 0o120555
        elif op[0] == 'link':
            m[op[2]] = m.get(op[1], 0o100444)
        elif op[0] in ('rm_file', 'rm_dir', 'rm_link'):
            m.pop(op[1], None)
    return m


def model_of(script):
    """what the edits imply: ISO tree, Joliet tree, Rock Ridge names/targets, hidden flags, content ids"""
    iso, jol, rr, hidden, symlinks = {}, {}, {}, set(), {}
    content = {}
    for op in script:
        if op[0] == 'file':
            _, ip, rn, jp, size = op[:5]
            cid = len(content)
            content[cid] = size
            iso[ip] = ('file', cid)
            if rn is not None:
                rr[ip] = rn
            if jp is not None:
                jol[jp] = ('file', cid)
        elif op[0] == 'dir':
            _, ip, rn, jp = op[:4]
            iso[ip] = ('dir',)
            if rn is not None:
                rr[ip] = rn
            if jp is not None:
                jol[jp] = ('dir',)
        elif op[0] == 'rm_file':
            gone = iso.get(op[1])
            if gone is not None and gone[0] == 'file':
                for d in (iso, jol):
                    for k in [k for k, v in d.items() if v == gone]:
                        d.pop(k)
                        rr.pop(k, None)
                        hidden.discard(k)
            iso.pop(op[1], None)
            rr.pop(op[1], None)
            hidden.discard(op[1])              # the name may come back; the flag does not
            if op[2]:
                jol.pop(op[2], None)
        elif op[0] == 'rm_dir':
            iso.pop(op[1], None)
            rr.pop(op[1], None)
            hidden.discard(op[1])
            if op[2]:
                jol.pop(op[2], None)
        elif op[0] == 'link':
            iso[op[2]] = iso[op[1]]
            if len(op) > 3:
                rr[op[2]] = op[3]
        elif op[0] == 'rm_link':
            iso.pop(op[1], None)
            rr.pop(op[1], None)
            hidden.discard(op[1])
        elif op[0] == 'jfile':
            cid = len(content)
            content[cid] = op[2]
            jol[op[1]] = ('file', cid)
        elif op[0] == 'jdir':
            jol[op[1]] = ('dir',)
        elif op[0] == 'jlink':
            jol[op[2]] = iso[op[1]]
        elif op[0] == 'rm_jlink':
            jol.pop(op[1], None)
        elif op[0] == 'symlink':
            iso[op[1]] = ('symlink',)
            rr[op[1]] = op[2]
            symlinks[op[1]] = op[3]
        elif op[0] == 'hide':
            hidden.add(op[1])
    return iso, jol, rr, hidden, symlinks, content


def udf_model_of(script):
    """the UDF tree an ISO9660-style script implies (entries given a udf_path)"""
    m, ncontent, cid_of = {}, 0, {}
    for op in script:
        if op[0] == 'file':
            cid_of[op[1]] = ncontent
            up = (op[5] if len(op) > 5 else {}).get('udf_path')
            if up:
                m[up] = ('file', ncontent)
            ncontent += 1
        elif op[0] == 'jfile':
            ncontent += 1
        elif op[0] == 'dir':
            up = (op[4] if len(op) > 4 else {}).get('udf_path')
            if up:
                m[up] = ('dir',)
        elif op[0] == 'link':
            cid_of[op[2]] = cid_of[op[1]]
        elif op[0] == 'rm_file':
            gone = ('file', cid_of.get(op[1]))
            for k in [k for k, v in m.items() if v == gone]:
                m.pop(k)
        elif op[0] == 'rm_dir':
            if len(op) > 3:
                m.pop(op[3], None)
        elif op[0] == 'symlink' and len(op) > 4:
            m[op[4]] = ('symlink', op[3])
    return m


def build(c, name):
    kw, script = get_script(name)
    iso = S.new_image(c, **kw)
    contents = {}
    rrflag = 'rock_ridge' in kw
    for op in script:
        if op[0] == 'file':
            _, ip, rn, jp, size = op[:5]
            cid = len(contents)
            data = c.bytes('content%d' % cid, size)
            contents[cid] = data
            k = dict(iso_path=ip)
            k.update(op[5] if len(op) > 5 else {})
            if rn is not None:
                k['rr_name'] = rn
            if jp is not None:
                k['joliet_path'] = jp
            S.call(c, iso, 'add_fp', S.data_file(c, data), size, **k)
        elif op[0] == 'rm_link':
            S.call(c, iso, 'rm_hard_link', iso_path=op[1])
        elif op[0] == 'jfile':
            cid = len(contents)
            data = c.bytes('content%d' % cid, op[2])
            contents[cid] = data
            S.call(c, iso, 'add_fp', S.data_file(c, data), op[2], joliet_path=op[1])
        elif op[0] == 'jdir':
            S.call(c, iso, 'add_directory', joliet_path=op[1])
        elif op[0] == 'jlink':
            S.call(c, iso, 'add_hard_link', iso_old_path=op[1], joliet_new_path=op[2])
        elif op[0] == 'rm_jlink':
            S.call(c, iso, 'rm_hard_link', joliet_path=op[1])
        elif op[0] == 'dir':
            _, ip, rn, jp = op[:4]
            k = dict(iso_path=ip)
            k.update(op[4] if len(op) > 4 else {})
            if rn is not None:
                k['rr_name'] = rn
            if jp is not None:
                k['joliet_path'] = jp
            S.call(c, iso, 'add_directory', **k)
        elif op[0] == 'rm_file':
            S.call(c, iso, 'rm_file', iso_path=op[1], **dict(({'joliet_path': op[2]} if op[2] else {}), **({'udf_path': op[3]} if len(op) > 3 else {})))
        elif op[0] == 'rm_dir':
            S.call(c, iso, 'rm_directory', iso_path=op[1], **dict(({'joliet_path': op[2]} if op[2] else {}), **({'udf_path': op[3]} if len(op) > 3 else {})))
        elif op[0] == 'link':
            S.call(c, iso, 'add_hard_link', iso_old_path=op[1], iso_new_path=op[2], **({'rr_name': op[3]} if len(op) > 3 else {}))
        elif op[0] == 'symlink':
            S.call(c, iso, 'add_symlink', symlink_path=op[1], rr_symlink_name=op[2], rr_path=op[3], **({'udf_symlink_path': op[4], 'udf_target': op[3]} if len(op) > 4 else {}))
        elif op[0] == 'hide':
            S.call(c, iso, 'set_hidden', iso_path=op[1])
        elif op[0] == 'dup_pvd':
            S.call(c, iso, 'duplicate_pvd')
        elif op[0] == 'reopen':
            # write what there is, open it again and go on editing the OPENED object
            img = S.written(c, iso)
            iso = c.new(S.PC)
            S.call(c, iso, 'open_fp', c.file(img))
    return iso, contents


def norm_target(t):
    return t


def extents_overlap(objs):
    """objs: [(what, first_sector, nsectors)]"""
    bad = []
    objs = sorted(objs, key=lambda o: o[1])
    for (wa, sa, na), (wb, sb, nb) in zip(objs, objs[1:]):
        if na and nb and sa + na > sb:
            bad.append('%s [%d,+%d) overlaps %s [%d,+%d)' % (wa, sa, na, wb, sb, nb))
    return bad


@contract
class Mastered(Base):
    """C01 + C03 + C04 + C08 + C09 for one edit script: the written image, decoded by an independent reader, is structurally valid
    ECMA-119 (volume descriptor set, both-endian copies, records packed in sectors and sorted, . and .., path tables in standard
    order), shows exactly the ISO9660 / Joliet trees, Rock Ridge names, modes, link counts and symlink targets the edits imply,
    every file reads back byte for byte (for EVERY content), objects occupy disjoint sectors inside the declared volume size and
    the image is exactly that long."""
    target = S.PC + '.write_fp'
    script = 'plain-small'
    crosscheck = False
    label = property(lambda self: 'pycdlib.PyCdlib.write_fp<%s>' % self.script)

    def setup(self, c):
        S.pin_environment(c)
        a = c.a
        a.iso, a.contents = build(c, self.script)
        a.out = c.file(b'')
        return Call([a.out], self_obj=a.iso)

    def post(self, c, a, out):
        img = list(a.out.items) if c.symbolic else list(a.out.getvalue())
        kw, script = get_script(self.script)
        iso_m, jol_m, rr_m, hidden_m, sym_m, content_m = model_of(script)
        cl = {}
        try:
            im, res = R.read_iso(img)
        except R.Bad as e:
            return {'independent-reader-can-decode-the-image': False}
        cl['independent-reader-can-decode-the-image'] = 'root' in res
        if 'root' not in res:
            return cl
        root = res['root']
        pvd = res['pvd']
        R.check_path_tables(im, pvd, root)
        tree = R.logical_tree(im, root)
        # C01: exactly the entries the edits imply
        want_paths = sorted(p.encode() for p in iso_m)
        relocating = 'rock_ridge' in kw and any(p.count('/') >= 8 for p in iso_m)
        if not relocating:
            cl['iso9660-tree-is-what-the-edits-imply'] = sorted(tree) == want_paths
        if 'rock_ridge' in kw:
            # the POSIX view through Rock Ridge (relocated directories shown where they logically are)
            rrt, rr_ce = R.rr_logical_tree(im, root)

            def rr_path(p):
                parts = [x for x in p.split('/') if x]
                return b''.join(b'/' + rr_m['/' + '/'.join(parts[:i + 1])].encode() for i in range(len(parts)))
            want_rr = {}
            for p, v in iso_m.items():
                want_rr[rr_path(p)] = {'dir': 'dir', 'file': 'file', 'symlink': 'symlink'}[v[0]]
            got_rr = {p: v['kind'] for p, v in rrt.items() if p != b'/'}
            cl['rock-ridge-logical-tree-is-what-the-edits-imply'] = got_rr == want_rr
            tree_for_content = {}
            for p, v in iso_m.items():
                e = rrt.get(rr_path(p))
                if e is not None and v[0] == 'file':
                    tree_for_content[p.encode()] = ('file', e['extents'], e['length'], e.get('hidden', False))
                elif e is not None:
                    tree_for_content[p.encode()] = ('dir', e.get('hidden', False))
            if relocating:
                tree = tree_for_content
        content_ok = []
        shared_ok = True
        extent_of_content = {}
        for p, v in iso_m.items():
            t = tree.get(p.encode())
            if t is None:
                continue
            if v[0] == 'dir':
                content_ok.append(t[0] == 'dir')
            elif v[0] == 'file':
                size = content_m[v[1]]
                content_ok.append(t[0] == 'file' and t[2] == size)
                if t[0] == 'file' and t[2] == size:
                    got = R.file_bytes(im, t[1])
                    content_ok.append(Eq(V.mk_bytes(got), a.contents[v[1]]))
                    if size:
                        extent_of_content.setdefault(v[1], set()).add(t[1][0][0])
            cl_h = (t[-1] if t[0] == 'file' else t[1]) == (p in hidden_m)
            content_ok.append(cl_h)
        cl['every-file-reads-back-byte-for-byte-and-flags-match'] = And(*content_ok) if content_ok else True
        cl['links-share-their-sectors'] = all(len(s) == 1 for s in extent_of_content.values())
        # C09: Joliet
        if jol_m or res['svds']:
            jsvd = [s for s in res['svds'] if s['escape'][:3] in (b'%/@', b'%/C', b'%/E')]
            cl['one-joliet-descriptor'] = len(jsvd) == (1 if 'joliet' in kw else 0)
            if jsvd:
                jr = R.read_tree(im, jsvd[0])
                R.check_path_tables(im, jsvd[0], jr)
                jt = R.logical_tree(im, jr)
                want = sorted(('/' + '/'.join(x for x in p.split('/') if x)).encode('utf-16_be').replace('/'.encode('utf-16_be'), b'/') for p in jol_m)
                cl['joliet-tree-is-what-the-edits-imply'] = sorted(jt) == want
                same, jbytes = [], []
                for p, v in jol_m.items():
                    key = p.encode('utf-16_be').replace('/'.encode('utf-16_be'), b'/')
                    t = jt.get(key)
                    if t and v[0] == 'file':
                        jbytes.append(t[2] == content_m[v[1]] and Eq(V.mk_bytes(R.file_bytes(im, t[1])), a.contents[v[1]]))
                    if t and v[0] == 'file' and content_m[v[1]]:
                        same.append(t[1][0][0] in extent_of_content.get(v[1], {t[1][0][0]}) and t[2] == content_m[v[1]])
                cl['joliet-files-point-at-the-iso9660-data'] = all(same)
                cl['joliet-files-read-back-byte-for-byte'] = And(*jbytes) if jbytes else True
                cl['joliet-escape-sequence-is-the-requested-level'] = jsvd[0]['escape'][:3] == {1: b'%/@', 2: b'%/C', 3: b'%/E'}[kw['joliet']]
                idents = [ch.name for d, parent, path in jr.dirs_in_order for ch in d.children]
                cl['joliet-identifiers-are-ucs2-of-at-most-64-units'] = all(len(n) % 2 == 0 and len(n) <= 128 for n in idents)
                cl['joliet-volume-size-agrees'] = jsvd[0]['space_size'] == pvd['space_size']
        # C08: Rock Ridge
        ce_areas = []
        if 'rock_ridge' in kw:
            ok, nlink_ok, mode_ok = [], [], []
            modes = modes_of(script)
            dot_links = {}
            for d, parent, path in root.dirs_in_order:
                for r in d.all_records:
                    if r.name == b'\x00':
                        dot_links[path] = R.rock_ridge(im, r, 0).nlink
            for d, parent, path in root.dirs_in_order:
                subdirs = sum(1 for ch in d.children if ch.isdir)
                for r in d.all_records:
                    rr = R.rock_ridge(im, r, 0)
                    ce_areas += rr.ce_areas
                    p = (path + b'/' + r.name).decode() if r.name not in (b'\x00', b'\x01') else None
                    if p is None:
                        if not relocating:
                            # '..' records are not entries of the user's tree; readers take a directory's attributes from its '.'
                            if r.name == b'\x00':
                                nlink_ok.append(rr.nlink == 2 + subdirs)
                                mode_ok.append(rr.mode == modes.get(path.decode(), 0o040555))
                        continue
                    if p in rr_m:
                        ok.append(rr.name == rr_m[p].encode())
                    if p in modes:
                        mode_ok.append(rr.mode == modes[p])
                    if p in sym_m:
                        ok.append(rr.symlink == sym_m[p].encode() and (rr.mode & 0o170000) == 0o120000)
                        nlink_ok.append(rr.nlink == 1)
                    elif p in iso_m and iso_m[p][0] == 'dir':
                        ok.append(rr.mode is not None and (rr.mode & 0o170000) == 0o040000)
                        if not relocating:
                            nlink_ok.append(rr.nlink == dot_links.get(path + b'/' + r.name))
                    elif p in iso_m:
                        ok.append(rr.mode is not None and (rr.mode & 0o170000) == 0o100000 and rr.symlink is None)
                        nlink_ok.append(rr.nlink == 1)
            cl['rock-ridge-names-types-and-symlink-targets'] = all(ok) and len(ok) > 0
            cl['rock-ridge-link-counts'] = all(nlink_ok)
            cl['rock-ridge-modes-are-the-given-ones'] = all(mode_ok)
        # C04: allocation
        objs = [('system area', 0, 16)]
        for t, sec, ident in res['vds']:
            objs.append(('volume descriptor %r' % (t,), sec, 1))
        for info in [pvd] + res['svds']:
            n = -(-info['pt_size'] // 2048)
            if info['escape'][:3] in (b'%/@', b'%/C', b'%/E') or info is pvd:
                objs.append(('L path table of VD at %d' % info['sector'], info['pt_l'], n))
                objs.append(('M path table of VD at %d' % info['sector'], info['pt_m'], n))
        for d, parent, path in root.dirs_in_order:
            objs.append(('directory %s' % (path.decode() or '/'), d.extent, d.length // 2048))
        for s in res['svds']:
            if s['escape'][:3] in (b'%/@', b'%/C', b'%/E'):
                for d, parent, path in R.read_tree(im, s).dirs_in_order:
                    objs.append(('joliet directory', d.extent, d.length // 2048))
        for blk in sorted(set(b for b, o, l in ce_areas)):
            objs.append(('continuation block', blk, 1))
        seen_files = set()
        for d, parent, path in root.dirs_in_order:
            for ch in d.children:
                if ch.isdir:
                    continue
                if 'rock_ridge' in kw and R.rock_ridge(im, ch, 0).cl is not None:
                    continue     # placeholder of a relocated directory: no data of its own
                ln = sum(l for _, l in ch.extents)
                if ln and ch.extents[0][0] not in seen_files:
                    seen_files.add(ch.extents[0][0])
                    objs.append(('file %s' % ch.path.decode(), ch.extents[0][0], -(-ln // 2048)))
        over = extents_overlap(objs)
        ce_over = []
        areas = sorted(set(ce_areas))
        for (b1, o1, l1), (b2, o2, l2) in zip(areas, areas[1:]):
            if b1 == b2 and o1 + l1 > o2:
                ce_over.append((b1, o1, l1, o2))
        cl['no-two-objects-share-a-sector'] = not over and not ce_over
        cl['everything-inside-the-declared-volume'] = all(s + n <= pvd['space_size'] for _, s, n in objs)
        cl['image-length-is-the-declared-size'] = len(img) == pvd['space_size'] * 2048
        cl['structurally-valid-for-an-independent-reader'] = not im.problems
        if im.problems or over:
            a.problems = im.problems + over
        if 'udf' in kw:
            # the UDF side of a bridge image: the independent UDF reader must find exactly the entries given a UDF path
            umodel = udf_model_of(script)
            ucl, u = udf_clauses(img, umodel, content_m, a.contents, a)
            cl.update({'udf:' + k: v for k, v in ucl.items()})
            if u is not None:
                same = []
                for up, v in umodel.items():
                    f = u.files.get(up)
                    if f and v[0] == 'file' and content_m[v[1]] and v[1] in extent_of_content:
                        same.append(f['extents'][0][0] in extent_of_content[v[1]])
                cl['udf:udf-and-iso9660-names-share-their-data-sectors'] = all(same)
        return cl

    def observe(self, c, a, out):
        return {'kind': out.kind, 'problems': getattr(a, 'problems', None)}


def library_view(c, iso, iso_m, content_m, contents, jol_m=None):
    """what the library API itself reports for an image: existence / kind of every expected path and the bytes of every file"""
    ok = []
    for p, v in sorted(iso_m.items()):
        good, rec = S.try_call(c, lambda: S.call(c, iso, 'get_record', iso_path=p))
        if not good:
            ok.append(False)
            continue
        isdir = S.call(c, iso, 'get_record', iso_path=p).is_dir() if not c.symbolic else c.it.call(c.it.getattr(rec, 'is_dir'), [], {})
        ok.append(bool(isdir) == (v[0] == 'dir'))
        if v[0] == 'file':
            out = c.file(b'')
            S.call(c, iso, 'get_file_from_iso_fp', out, iso_path=p)
            got = V.mk_bytes(out.items) if c.symbolic else out.getvalue()
            ok.append(Eq(got, contents[v[1]]))
    for p, v in sorted((jol_m or {}).items()):
        if v[0] == 'file':
            out = c.file(b'')
            good, _ = S.try_call(c, lambda: S.call(c, iso, 'get_file_from_iso_fp', out, joliet_path=p))
            got = V.mk_bytes(out.items) if c.symbolic else out.getvalue()
            ok.append(good and Eq(got, contents[v[1]]))
    return And(*ok) if ok else True


def library_details(c, iso, kw, iso_m, jol_m, rr_m, hidden_m, sym_m, umodel, content_m, contents):
    """the library's own answers about single entries of an opened image: lookups by Rock Ridge and UDF path, the bytes read through
    them, hidden flags, symbolic links and their targets, and the path the library reports for a record it handed out"""
    def rr_path(p):
        parts = [x for x in p.split('/') if x]
        return ''.join('/' + rr_m['/' + '/'.join(parts[:i + 1])] for i in range(len(parts)))

    def read(**k):
        out = c.file(b'')
        S.call(c, iso, 'get_file_from_iso_fp', out, **k)
        return V.mk_bytes(out.items) if c.symbolic else out.getvalue()

    def meth(rec, name, *args):
        return c.it.call(c.it.getattr(rec, name), list(args), {}) if c.symbolic else getattr(rec, name)(*args)
    cl = {}
    relocating = 'rock_ridge' in kw and any(p.count('/') >= 8 for p in iso_m)
    if 'rock_ridge' in kw:
        ok, paths = [], []
        for p, v in sorted(iso_m.items()):
            rec = S.call(c, iso, 'get_record', rr_path=rr_path(p))
            ok.append(bool(meth(rec, 'is_symlink')) == (v[0] == 'symlink') and bool(meth(rec, 'is_dir')) == (v[0] == 'dir'))
            if v[0] == 'file':
                ok.append(Eq(read(rr_path=rr_path(p)), contents[v[1]]))
            if v[0] == 'symlink':
                rr = rec.rock_ridge if not c.symbolic else c.it.getattr(rec, 'rock_ridge')
                ok.append(meth(rr, 'symlink_path') == sym_m[p].encode())
            paths.append(S.call(c, iso, 'full_path_from_dirrecord', rec, rockridge=True) == rr_path(p))
        cl['rock-ridge-lookups'] = And(*ok) if ok else True
        cl['rock-ridge-paths-of-records'] = all(paths)
    if not relocating:
        ok = []
        for p, v in sorted(iso_m.items()):
            rec = S.call(c, iso, 'get_record', iso_path=p)
            flags = rec.file_flags if not c.symbolic else c.it.getattr(rec, 'file_flags')
            ok.append(bool(flags & 1) == (p in hidden_m))
            ok.append(S.call(c, iso, 'full_path_from_dirrecord', rec) == p)
        cl['iso9660-hidden-flags-and-paths-of-records'] = all(ok)
    if 'joliet' in kw:
        cl['joliet-paths-of-records'] = all(S.call(c, iso, 'full_path_from_dirrecord', S.call(c, iso, 'get_record', joliet_path=p)) == p for p in sorted(jol_m))
    if 'udf' in kw:
        ok = []
        for p, v in sorted(umodel.items()):
            rec = S.call(c, iso, 'get_record', udf_path=p)
            ok.append(S.call(c, iso, 'full_path_from_dirrecord', rec) == p)
            if v[0] == 'file':
                ok.append(Eq(read(udf_path=p), contents[v[1]]))
        cl['udf-lookups'] = And(*ok) if ok else True
    return cl


def library_listing(c, iso, kw, iso_m, jol_m, rr_m, umodel):
    """what PyCdlib.walk() lists in each namespace of an image against the model: exactly the expected directories and files,
    nothing else (the Rock Ridge holding directory rr_moved, which Rock Ridge readers do show, aside)"""
    def listing(**k):
        dirs, files = set(), set()
        for dn, dl, fl in S.call(c, iso, 'walk', **k):
            for d in dl:
                dirs.add(dn.rstrip('/') + '/' + d)
            for f in fl:
                files.add(dn.rstrip('/') + '/' + f)
        return dirs, files

    def rr_path(p):
        parts = [x for x in p.split('/') if x]
        return ''.join('/' + rr_m['/' + '/'.join(parts[:i + 1])] for i in range(len(parts)))
    cl = {}
    relocating = 'rock_ridge' in kw and any(p.count('/') >= 8 for p in iso_m)
    if not relocating:
        d, f = listing(iso_path='/')
        cl['iso9660'] = d == {p for p, v in iso_m.items() if v[0] == 'dir'} and f == {p for p, v in iso_m.items() if v[0] != 'dir'}
    if 'rock_ridge' in kw:
        d, f = listing(rr_path='/')
        want_dirs = {rr_path(p) for p, v in iso_m.items() if v[0] == 'dir'}
        cl['rock-ridge'] = (d if '/rr_moved' in want_dirs else d - {'/rr_moved'}) == want_dirs and \
            f == {rr_path(p) for p, v in iso_m.items() if v[0] != 'dir'}
    if 'joliet' in kw:
        d, f = listing(joliet_path='/')
        cl['joliet'] = d == {p for p, v in jol_m.items() if v[0] == 'dir'} and f == {p for p, v in jol_m.items() if v[0] != 'dir'}
    if 'udf' in kw:
        d, f = listing(udf_path='/')
        cl['udf'] = d == {p for p, v in umodel.items() if v[0] == 'dir'} and f == {p for p, v in umodel.items() if v[0] != 'dir'}
    return cl


@contract
class Reopened(Base):
    """C01 (the library can open what it wrote) + C05 (re-mastering is a fixpoint) + C02 (editing an opened image preserves the
    rest) for one edit script: the written image is opened again by the library (executed by pyvc); the API shows the expected
    entries and bytes; writing it again without edits reproduces it byte for byte; after removing one file and adding another file
    and a directory the next image, decoded by the independent reader, shows exactly the old content plus those edits, and every
    untouched file still has its bytes (for EVERY content)."""
    target = S.PC + '.open_fp'
    script = 'plain-small'
    generations = 1     # 2: the edited image is opened, edited and written once more
    edit = True         # False: stop after the fixpoint clause (C01 uses the reopen + fixpoint part only; the edits are C02's subject)
    crosscheck = False
    label = property(lambda self: 'pycdlib.PyCdlib.open_fp<%s>' % self.script)

    def setup(self, c):
        S.pin_environment(c)
        a = c.a
        a.iso, a.contents = build(c, self.script)
        a.img = S.written(c, a.iso)
        a.re = c.new(S.PC)
        a.fp = c.file(a.img)
        return Call([a.fp], self_obj=a.re)

    def post(self, c, a, out):
        kw, script = get_script(self.script)
        iso_m, jol_m, rr_m, hidden_m, sym_m, content_m = model_of(script)
        cl = {}
        cl['library-shows-the-expected-entries-and-bytes'] = library_view(c, a.re, {p: v for p, v in iso_m.items() if v[0] != 'symlink'}, content_m, a.contents, jol_m)
        good, lst = S.try_call(c, lambda: library_listing(c, a.re, kw, iso_m, jol_m, rr_m, udf_model_of(script) if 'udf' in kw else {}))
        cl['library-walk-succeeds'] = good
        if good:
            for ns, v in lst.items():
                cl['library-lists-exactly-the-expected-entries:' + ns] = v
        good, det = S.try_call(c, lambda: library_details(c, a.re, kw, iso_m, jol_m, rr_m, hidden_m, sym_m, udf_model_of(script) if 'udf' in kw else {}, content_m, a.contents))
        cl['library-lookups-succeed'] = good
        if good:
            for k_, v in det.items():
                cl['library-answers:' + k_] = v
        ok, again = S.try_call(c, lambda: S.written(c, a.re))
        cl['remastering-succeeds'] = ok
        if ok:
            cl['remastering-is-a-fixpoint'] = Eq(again, a.img)
        if not self.edit:
            return cl
        # C02: edit the opened image
        files = sorted(p for p, v in iso_m.items() if v[0] == 'file' and p.count('/') == 1)
        if self.script != 'empty-files':
            # the removal of an EMPTY file from an opened image is the subject of the 'empty-files' script (K21); elsewhere take a
            # file with content when there is one
            files = [p for p in files if content_m[iso_m[p][1]]] or sorted(p for p, v in iso_m.items() if v[0] == 'file' and content_m[v[1]])
            if not files and not self.script.startswith('random:'):
                files = sorted(p for p, v in iso_m.items() if v[0] == 'file' and p.count('/') == 1)
        extra = c.bytes('extra_content', 10)
        ops = []
        if files:
            victim = files[0]
            k = {'iso_path': victim}
            jv = [jp for jp, v in jol_m.items() if v == iso_m[victim]]
            if jv:
                k['joliet_path'] = jv[0]
            ops.append(('rm_file', [], k))
        k = {'iso_path': '/NEWFILE.;1'}
        if 'rock_ridge' in kw:
            k['rr_name'] = 'newfile'
        if 'joliet' in kw:
            k['joliet_path'] = '/newfile'
        ops.append(('add_fp', [S.data_file(c, extra), 10], k))
        k = {'iso_path': '/NEWDIR'}
        if 'rock_ridge' in kw:
            k['rr_name'] = 'newdir'
        if 'joliet' in kw:
            k['joliet_path'] = '/newdir'
        ops.append(('add_directory', [], k))
        edit_ok = True
        for m, args, k in ops:
            good, _ = S.try_call(c, lambda: S.call(c, a.re, m, *args, **k))
            edit_ok = edit_ok and good
        cl['edits-on-the-opened-image-are-accepted'] = edit_ok
        if not edit_ok:
            return cl
        ok2, img2 = S.try_call(c, lambda: S.written(c, a.re))
        cl['edited-image-can-be-written'] = ok2
        if not ok2:
            return cl
        want = dict(iso_m)
        if files:
            # rm_file removes every name of that content
            gone = want[files[0]]
            want = {p: v for p, v in want.items() if v != gone}
        want['/NEWFILE.;1'] = ('file', 'extra')
        want['/NEWDIR'] = ('dir',)
        try:
            im, res = R.read_iso(list(V.items_of(img2)))
            root = res['root']
            R.check_path_tables(im, res['pvd'], root)
        except (R.Bad, KeyError):
            cl['independent-reader-can-decode-the-edited-image'] = False
            return cl
        relocating = 'rock_ridge' in kw and any(p.count('/') >= 8 for p in iso_m)
        tree = R.logical_tree(im, root)
        if not relocating:
            cl['edited-tree-is-old-content-plus-exactly-the-edits'] = sorted(tree) == sorted(p.encode() for p in want)
            keep = []
            for p, v in want.items():
                t = tree.get(p.encode())
                if t is None or v[0] != 'file':
                    continue
                data = extra if v[1] == 'extra' else a.contents[v[1]]
                keep.append(Eq(V.mk_bytes(R.file_bytes(im, t[1])), data))
            cl['untouched-files-keep-their-bytes'] = And(*keep) if keep else True
        cl['edited-image-is-structurally-valid'] = not im.problems
        cl['edited-image-length-is-the-declared-size'] = len(V.items_of(img2)) == res['pvd']['space_size'] * 2048
        if im.problems:
            a.problems = im.problems
        if self.generations > 1 and not im.problems:
            # a second generation: open the edited image, add one more file, write, decode
            re2 = c.new(S.PC)
            ok3, _ = S.try_call(c, lambda: S.call(c, re2, 'open_fp', c.file(img2)))
            cl['second-generation-opens'] = ok3
            if not ok3:
                return cl
            extra2 = c.bytes('extra_content_2', 2049)
            k = {'iso_path': '/GEN2.;1'}
            if 'rock_ridge' in kw:
                k['rr_name'] = 'generation two'
            if 'joliet' in kw:
                k['joliet_path'] = '/generation two'
            ok4, _ = S.try_call(c, lambda: S.call(c, re2, 'add_fp', S.data_file(c, extra2), 2049, **k))
            ok5, img3 = S.try_call(c, lambda: S.written(c, re2)) if ok4 else (False, None)
            cl['second-generation-edit-and-write'] = ok4 and ok5
            if not (ok4 and ok5):
                return cl
            try:
                im3, res3 = R.read_iso(list(V.items_of(img3)))
                R.check_path_tables(im3, res3['pvd'], res3['root'])
                tree3 = R.logical_tree(im3, res3['root'])
            except (R.Bad, KeyError):
                cl['second-generation-decodes'] = False
                return cl
            want3 = dict(want)
            want3['/GEN2.;1'] = ('file', 'extra2')
            if not relocating:
                cl['second-generation-tree'] = sorted(tree3) == sorted(p.encode() for p in want3)
                keep3 = []
                for p, v in want3.items():
                    t = tree3.get(p.encode())
                    if t is None or v[0] != 'file':
                        continue
                    data = extra if v[1] == 'extra' else (extra2 if v[1] == 'extra2' else a.contents[v[1]])
                    keep3.append(Eq(V.mk_bytes(R.file_bytes(im3, t[1])), data))
                cl['second-generation-files-keep-their-bytes'] = And(*keep3) if keep3 else True
            cl['second-generation-structurally-valid'] = not im3.problems and len(V.items_of(img3)) == res3['pvd']['space_size'] * 2048
            if im3.problems:
                a.problems = im3.problems
        return cl

    def observe(self, c, a, out):
        return {'kind': out.kind, 'problems': getattr(a, 'problems', None)}

    # K21 (recorded, not repaired): on an OPENED image every zero-length file (and symlink) shares one placeholder inode, because
    # the image format records no data location for empty files; rm_file of one empty file therefore removes all of them.
    @property
    def known(self):
        if self.script == 'empty-files':
            return {'/post:edited-tree-is-old-content-plus-exactly-the-edits': [('K21', lambda a: True, 'rm_file of one empty file on an opened image removes every empty file of the image (they share one placeholder inode after parsing)')]}
        return {}


# ---------------------------------------------------------------------------------------------
# UDF bridge (C10)
# ---------------------------------------------------------------------------------------------
from contracts import udf_reader as UR  # noqa

UDF_SCRIPTS = {
    'udf-basic': (dict(udf='2.60'), [('file', '/A.;1', '/a', 5), ('dir', '/D', '/d'), ('file', '/D/B.;1', '/d/b-with-a-longer-name.txt', 3000),
                                     ('file', '/E.;1', '/empty', 0), ('dir', '/D/S', '/d/sub')]),
    'udf-unicode': (dict(udf='2.60'), [('file', '/A.;1', '/bär.txt', 7), ('file', '/B.;1', '/中文', 9), ('dir', '/D', '/über')]),
    'udf-remove': (dict(udf='2.60'), [('file', '/A.;1', '/a', 5), ('file', '/B.;1', '/b', 6), ('dir', '/D', '/d'), ('dir', '/G', '/g'),
                                      ('rm_file', '/A.;1', '/a'), ('rm_dir', '/D', '/d'), ('file', '/C.;1', '/c', 2049)]),
    'udf-many': (dict(udf='2.60'), [('file', '/F%03d.;1' % i, '/file-number-%03d-with-a-long-name' % i, 1) for i in range(45)]),
    # every user of a Rock Ridge continuation block is removed again (the block must go with them), two empty files (K45/K46)
    'udf-rr-ce-orphan': (dict(udf='2.60', rock_ridge='1.09'), [('file', '/A.;1', '/' + 'a' * 120 + '\u4e2d', 1), ('file', '/B.;1', '/' + 'b' * 110 + '\u00e9', 2049), ('file', '/C.;1', '/c', 5),
                                                               ('file', '/E1.;1', '/empty one', 0), ('file', '/E2.;1', '/empty two', 0),
                                                               ('rm_file', '/A.;1', '/' + 'a' * 120 + '\u4e2d'), ('rm_file', '/B.;1', '/' + 'b' * 110 + '\u00e9'),
                                                               ('dir', '/D', '/d\u00e9'), ('rm_dir', '/D', '/d\u00e9'), ('dir', '/G', '/g')]),
    'udf-mixed-encodings': (dict(udf='2.60'), [('dir', '/D1', '/caf\u00e9'), ('file', '/D1/A.;1', '/caf\u00e9/\u65e5\u672c.txt', 3), ('dir', '/D2', '/\u65e5\u672c'),
                                               ('file', '/D2/B.;1', '/\u65e5\u672c/abc', 4), ('dir', '/D2/D3', '/\u65e5\u672c/\u00fcber'), ('file', '/D2/D3/C.;1', '/\u65e5\u672c/\u00fcber/\u4e2d', 5)]),
    'udf-symlink': (dict(udf='2.60', rock_ridge='1.09'), [('file', '/A.;1', '/a', 5), ('dir', '/D', '/d'), ('symlink', '/S.;1', '/s', 'd/../a'),
                                                          ('symlink', '/T.;1', '/t', '/abs/./x')]),
    # further copies of the primary volume descriptor (K63: each used to add a sector behind the last anchor)
    'udf-duplicate-pvd': (dict(udf='2.60'), [('file', '/A.;1', '/a', 5), ('dup_pvd',), ('dir', '/D', '/d'), ('dup_pvd',), ('file', '/D/B.;1', '/d/b', 2049)]),
    # target shapes: doubled and trailing slashes, dots, the root alone (K61: empty components used to be written as root components)
    'udf-symlink-shapes': (dict(udf='2.60', rock_ridge='1.09'), [('dir', '/D', '/d')] +
                           [('symlink', '/S%d.;1' % i, '/s%d' % i, t) for i, t in enumerate(
                               ['a/', 'a//b', './', '../', '///', '/a//', '.', '..', '/', 'a/./b', '//a', 'd/../' + 'n' * 254, '\u00e9/\u4e2d' + 'w' * 126])]),
}


def random_udf_script(seed, nops=24, rr=False, reopen_every=0):
    """a random well-formed edit history on a UDF bridge image (deterministic in the seed); with reopen_every=k the image is written
    and opened again after every k operations (zero-length files are then no longer removed: K21)"""
    import random
    rnd = random.Random('udf/%d/%s' % (seed, rr) + ('/r%d' % reopen_every if reopen_every else ''))
    sizes = {}
    reopened = False
    kw = dict(udf='2.60')
    if rr:
        kw['rock_ridge'] = '1.09'
    dirs = {'': ''}         # iso dir -> udf dir
    files = {}              # iso path -> udf path
    links = []
    uonly = []              # UDF paths without an ISO9660 name of their own
    ops = []
    gone = {}               # directory -> (iso path, udf path) of removed files, to be used again
    k = 0
    alphabet = ['a', 'B', '-', ' ', '\u00e9', '\u4e2d', '_']
    for _i in range(nops):
        if reopen_every and _i and _i % reopen_every == 0:
            ops.append(('reopen',))
            reopened = True
        r = rnd.random()
        parents = [d for d in dirs if d.count('/') < 5]
        k += 1
        uname = 'u%d' % k + ''.join(rnd.choice(alphabet) for _ in range(rnd.choice([0, 3, 20, 100, 200]) if rnd.random() < 0.5 else rnd.randint(0, 12)))
        uname = uname[:120].rstrip(' ')          # a UDF identifier holds 254 bytes: 127 characters once one of them needs UTF-16
        if r < 0.45 or not files:
            d = rnd.choice(parents)
            ip = '%s/F%d.;1' % (d, k)
            up = dirs[d] + '/' + uname
            if gone.get(d) and rnd.random() < 0.4:
                ip, up = gone[d].pop()                      # the names of a removed file are used again
            ops.append(('file', ip, up, rnd.choice([0, 1, 2047, 2048, 2049, 4096, 6000])))
            files[ip] = up
            sizes[ip] = ops[-1][3]
        elif r < 0.65:
            d = rnd.choice(parents)
            ip = '%s/D%d' % (d, k)
            up = dirs[d] + '/' + uname
            ops.append(('dir', ip, up))
            dirs[ip] = up
        elif r < 0.8:
            removable = sorted(p for p in files if sizes[p] or not reopened)
            if not removable:
                continue
            ip = rnd.choice(removable)
            up = files.pop(ip)
            ops.append(('rm_file', ip, up))
            gone.setdefault(ip.rsplit('/', 1)[0], []).append((ip, up))
            for o in [o for o in ops if o[0] == 'ulink' and o[1] == up and o[2] in uonly]:
                uonly.remove(o[2])
        elif r < 0.9:
            empties = [d for d in dirs if d and not any(p.startswith(d + '/') for p in list(files) + list(dirs) + links)
                       and not any(u.startswith(dirs[d] + '/') for u in uonly)]
            if empties:
                d = rnd.choice(empties)
                gone.pop(d, None)
                ops.append(('rm_dir', d, dirs.pop(d)))
        elif rr and r < 0.95:
            d = rnd.choice(parents)
            ip = '%s/S%d.;1' % (d, k)
            up = dirs[d] + '/' + uname
            ops.append(('symlink', ip, up, rnd.choice(['a', '../x', '/abs/./y', 'd/' + 'z' * 100, 'a/', 'b//c', './', '/'])))
            links.append(ip)
        elif r < 0.97:
            # a file that exists in the UDF tree only
            d = rnd.choice(parents)
            up = dirs[d] + '/' + uname
            ops.append(('ufile', up, rnd.choice([0, 5, 2049])))
            uonly.append(up)
        elif files:
            # a second UDF name for a file, sometimes removed again
            src = files[rnd.choice(sorted(files))]
            d = rnd.choice(parents)
            up = dirs[d] + '/' + uname
            ops.append(('ulink', src, up))
            uonly.append(up)
            if rnd.random() < 0.4:
                ops.append(('rm_ulink', up))
                uonly.remove(up)
    return kw, ops


def get_udf_script(name):
    if name.startswith('udf-random'):
        parts = name.split(':')
        return random_udf_script(int(parts[1]), int(parts[2]) if len(parts) > 2 else 24, rr=name.startswith('udf-random-rr'),
                                 reopen_every=int(parts[3][1:]) if len(parts) > 3 else 0)
    return UDF_SCRIPTS[name]


def random_udf_reopen_names(tier):
    """random UDF histories during which the image is written and opened again every few operations"""
    import os
    base = int(os.environ.get('VERIF_SEED', '0') or 0) * 1000 if tier != 'quick' else 0
    if tier == 'quick':
        return ['udf-random:1:24:r6', 'udf-random-rr:1:24:r6']
    names = ['%s:%d:24:r%d' % (fl, base + k, (6, 3)[k % 2]) for fl in ('udf-random', 'udf-random-rr') for k in range(1, 9)]
    return names + ['udf-random:%d:120:r10' % (base + 1), 'udf-random-rr:%d:120:r10' % (base + 1)]


def random_udf_names(tier, quick_n=2, thorough_n=20):
    import os
    base = int(os.environ.get('VERIF_SEED', '0') or 0) * 1000 if tier != 'quick' else 0
    n = quick_n if tier == 'quick' else thorough_n
    names = ['udf-random:%d' % (base + k) for k in range(1, n + 1)] + ['udf-random-rr:%d' % (base + k) for k in range(1, n // 2 + 1)]
    if tier != 'quick':
        names += ['udf-random:%d:150' % (base + k) for k in (1, 2)] + ['udf-random-rr:%d:120' % (base + 1)]       # long histories
    return names


def build_udf(c, name):
    kw, script = get_udf_script(name)
    iso = S.new_image(c, **kw)
    rr = 'rock_ridge' in kw
    contents = {}
    for op in script:
        if op[0] == 'file':
            cid = len(contents)
            data = c.bytes('content%d' % cid, op[3])
            contents[cid] = data
            k = dict(iso_path=op[1], udf_path=op[2])
            if rr:
                k['rr_name'] = op[2].rsplit('/', 1)[1]
            S.call(c, iso, 'add_fp', S.data_file(c, data), op[3], **k)
        elif op[0] == 'dir':
            k = dict(iso_path=op[1], udf_path=op[2])
            if rr:
                k['rr_name'] = op[2].rsplit('/', 1)[1]
            S.call(c, iso, 'add_directory', **k)
        elif op[0] == 'rm_file':
            S.call(c, iso, 'rm_file', iso_path=op[1], udf_path=op[2])
        elif op[0] == 'rm_dir':
            S.call(c, iso, 'rm_directory', iso_path=op[1], udf_path=op[2])
        elif op[0] == 'symlink':
            S.call(c, iso, 'add_symlink', symlink_path=op[1], rr_symlink_name=op[2].rsplit('/', 1)[1], rr_path=op[3], udf_symlink_path=op[2], udf_target=op[3])
        elif op[0] == 'ufile':
            cid = len(contents)
            data = c.bytes('content%d' % cid, op[2])
            contents[cid] = data
            S.call(c, iso, 'add_fp', S.data_file(c, data), op[2], udf_path=op[1])
        elif op[0] == 'ulink':
            S.call(c, iso, 'add_hard_link', udf_old_path=op[1], udf_new_path=op[2])
        elif op[0] == 'rm_ulink':
            S.call(c, iso, 'rm_hard_link', udf_path=op[1])
        elif op[0] == 'dup_pvd':
            S.call(c, iso, 'duplicate_pvd')
        elif op[0] == 'reopen':
            img = S.written(c, iso)
            iso = c.new(S.PC)
            S.call(c, iso, 'open_fp', c.file(img))
    return iso, contents


def udf_model(script):
    m, content = {}, {}
    for op in script:
        if op[0] == 'file':
            cid = len(content)
            content[cid] = op[3]
            m[op[2]] = ('file', cid)
        elif op[0] == 'dir':
            m[op[2]] = ('dir',)
        elif op[0] == 'rm_file':
            # rm_file takes every name of the content
            gone = m.get(op[2])
            for k in [k for k, v in m.items() if v == gone]:
                m.pop(k)
        elif op[0] == 'rm_dir':
            m.pop(op[2], None)
        elif op[0] == 'symlink':
            m[op[2]] = ('symlink', op[3])
        elif op[0] == 'ufile':
            cid = len(content)
            content[cid] = op[2]
            m[op[1]] = ('file', cid)
        elif op[0] == 'ulink':
            m[op[2]] = m[op[1]]
        elif op[0] == 'rm_ulink':
            m.pop(op[1], None)
    return m, content


def udf_target_form(t):
    """the form in which a UDF symbolic link can hold a POSIX target: path components cannot be empty, so doubled and trailing
    slashes (which name nothing) are not recorded; a leading slash is (the root component)"""
    comps = t.split('/')
    keep = [x for x in comps[1:] if x != '']
    if comps[0] == '':
        return '/' + '/'.join(keep)
    return '/'.join([comps[0]] + keep)


def udf_clauses(img, model, content_m, contents, a):
    """the clauses an independent UDF reader decides for one image: (clauses, decoded image or None)"""
    try:
        u = UR.read_udf(img)
    except (R.Bad, KeyError, IndexError) as e:
        a.problems = ['reader gave up: %r' % (e,)]
        return {'independent-udf-reader-reaches-the-file-set': False}, None
    cl = {'independent-udf-reader-reaches-the-file-set': True}
    got = {p: v['kind'] for p, v in u.files.items()}
    want = {p: v[0] for p, v in model.items()}
    cl['udf-tree-and-names-are-what-the-edits-imply'] = got == want
    ok = []
    for p, v in model.items():
        f = u.files.get(p)
        if f is None:
            continue
        if v[0] == 'file':
            ok.append(f['length'] == content_m[v[1]])
            ok.append(Eq(V.mk_bytes(f['data']), contents[v[1]]))
        elif v[0] == 'symlink':
            ok.append(f['target'] == udf_target_form(v[1]))
    cl['every-file-reads-back-byte-for-byte-and-symlink-targets-match'] = And(*ok) if ok else True
    for p, f in u.files.items():
        if f['kind'] == 'file':
            for s, ln in f['extents']:
                u.objects.append(('UDF file data %s' % p, s, -(-ln // 2048)))
    cl['every-descriptor-tag-and-length-is-valid'] = not u.im.problems
    # several names of one file share its file entry and its data: one object
    seen_obj, objs = set(), []
    for w, s_, n_ in u.objects:
        key = (w.split(' /')[0], s_, n_) if (w.startswith('UDF file entry') or w.startswith('UDF file data')) else (w, s_, n_)
        if key not in seen_obj:
            seen_obj.add(key)
            objs.append((w, s_, n_))
    over = extents_overlap(objs)
    cl['udf-objects-occupy-disjoint-sectors'] = not over
    inside = all(s >= u.part_start and s + n <= u.part_start + u.part_len for w, s, n in u.objects
                 if w.startswith('UDF file') or w.startswith('UDF directory') or w.startswith('UDF symlink'))
    cl['files-and-directories-inside-the-partition'] = inside
    if u.im.problems or over:
        a.problems = u.im.problems + over
    return cl, u


@contract
class MasteredUDF(Base):
    """C10 for one edit script: an independent ECMA-167 reader that starts from the volume recognition sequence and the two anchors
    (sector 256 and the last sector) reaches the file set and recovers exactly the UDF tree, names, symlink targets and file bytes
    (EVERY content) the edits imply; every descriptor tag it touches is valid (identifier, checksum, CRC, location); partition,
    extents and information lengths cover what they describe; UDF structures and data occupy disjoint sectors inside the partition."""
    target = S.PC + '.write_fp'
    script = 'udf-basic'
    crosscheck = False
    label = property(lambda self: 'pycdlib.PyCdlib.write_fp<%s>' % self.script)

    def setup(self, c):
        S.pin_environment(c)
        a = c.a
        a.iso, a.contents = build_udf(c, self.script)
        a.out = c.file(b'')
        return Call([a.out], self_obj=a.iso)

    def post(self, c, a, out):
        img = list(a.out.items) if c.symbolic else list(a.out.getvalue())
        kw, script = get_udf_script(self.script)
        model, content_m = udf_model(script)
        cl, u = udf_clauses(img, model, content_m, a.contents, a)
        if u is None:
            return cl
        over = []
        # the ISO9660 view of the same image points at the same data sectors
        try:
            im2, res = R.read_iso(img)
            tree = R.logical_tree(im2, res['root'])
            same = []
            latest = {op[2]: op for op in script if op[0] == 'file'}       # names may be used again: the last file given a UDF path
            for op in latest.values():
                if op[2] in model and op[3] > 0:
                    t = tree.get(op[1].encode())
                    f = u.files.get(op[2])
                    if t and f and f['extents']:
                        same.append(t[1][0][0] == f['extents'][0][0])
            cl['udf-and-iso9660-names-share-their-data-sectors'] = all(same)
            cl['iso9660-side-structurally-valid'] = not im2.problems
            cl['image-length-is-the-declared-size'] = len(img) == res['pvd']['space_size'] * 2048
        except (R.Bad, KeyError):
            cl['iso9660-side-structurally-valid'] = False
        if u.im.problems or over:
            a.problems = u.im.problems + over
        return cl

    def observe(self, c, a, out):
        return {'kind': out.kind, 'problems': getattr(a, 'problems', None)}


@contract
class ReopenedUDF(Base):
    """C02 + C05 + C10 on UDF bridge images: open what was written, re-master identically, then remove one file and add another on
    the OPENED image: the next image must again satisfy an independent UDF reader (anchor in the last sector, valid tags) and the
    independent ISO9660 reader, show old content plus exactly the edits, and have exactly the declared length."""
    target = S.PC + '.open_fp'
    script = 'udf-basic'
    crosscheck = False
    label = property(lambda self: 'pycdlib.PyCdlib.open_fp<%s>' % self.script)

    def setup(self, c):
        S.pin_environment(c)
        a = c.a
        a.iso, a.contents = build_udf(c, self.script)
        a.img = S.written(c, a.iso)
        a.re = c.new(S.PC)
        a.fp = c.file(a.img)
        return Call([a.fp], self_obj=a.re)

    def post(self, c, a, out):
        kw, script = get_udf_script(self.script)
        model, content_m = udf_model(script)
        cl = {}
        # the library names every UDF entry of the opened image by the path it was given (each component in its own encoding)
        paths_ok = []
        for pth in sorted(model):
            good, rec = S.try_call(c, lambda: S.call(c, a.re, 'get_record', udf_path=pth))
            if not good:
                paths_ok.append(False)
                continue
            good, full = S.try_call(c, lambda: S.call(c, a.re, 'full_path_from_dirrecord', rec))
            paths_ok.append(good and full == pth)
        cl['library-reports-the-given-udf-paths'] = all(paths_ok)
        ok, again = S.try_call(c, lambda: S.written(c, a.re))
        cl['remastering-succeeds'] = ok
        if ok:
            cl['remastering-is-a-fixpoint'] = Eq(again, a.img)
        files = [(op[1], op[2]) for op in script if op[0] == 'file' and op[2] in model]
        # removing an EMPTY file from an opened image is K21's subject (script 'empty-files'); take a file with content if there is one
        nonempty = [f for f in files if content_m[model[f[1]][1]]]
        files = nonempty if (nonempty or self.script.startswith('udf-random')) else files
        extra = c.bytes('extra_content', 10)
        edit_ok = True
        if files:
            good, _ = S.try_call(c, lambda: S.call(c, a.re, 'rm_file', iso_path=files[0][0], udf_path=files[0][1]))
            edit_ok = edit_ok and good
            gone = model.get(files[0][1])
            for k_ in [k_ for k_, v_ in model.items() if v_ == gone]:     # rm_file takes every name of the content
                model.pop(k_)
        k = dict(iso_path='/NEWFILE.;1', udf_path='/newfile')
        if 'rock_ridge' in kw:
            k['rr_name'] = 'newfile'
        good, _ = S.try_call(c, lambda: S.call(c, a.re, 'add_fp', S.data_file(c, extra), 10, **k))
        edit_ok = edit_ok and good
        model['/newfile'] = ('file', 'extra')
        cl['edits-on-the-opened-image-are-accepted'] = edit_ok
        if not edit_ok:
            return cl
        ok2, img2 = S.try_call(c, lambda: S.written(c, a.re))
        cl['edited-image-can-be-written'] = ok2
        if not ok2:
            return cl
        img2 = list(V.items_of(img2))
        try:
            u = UR.read_udf(img2)
        except (R.Bad, KeyError, IndexError) as e:
            a.problems = ['udf reader gave up: %r' % (e,)]
            cl['independent-udf-reader-reaches-the-file-set'] = False
            return cl
        cl['independent-udf-reader-reaches-the-file-set'] = True
        cl['udf-tree-is-old-content-plus-exactly-the-edits'] = {p: v['kind'] for p, v in u.files.items()} == {p: v[0] for p, v in model.items()}
        keep = []
        for p, v in model.items():
            f = u.files.get(p)
            if f is None or v[0] != 'file':
                continue
            keep.append(Eq(V.mk_bytes(f['data']), extra if v[1] == 'extra' else a.contents[v[1]]))
        cl['untouched-files-keep-their-bytes'] = And(*keep) if keep else True
        cl['every-descriptor-tag-and-length-is-valid'] = not u.im.problems
        try:
            im2, res = R.read_iso(img2)
            cl['iso9660-side-structurally-valid'] = not im2.problems
            cl['image-length-is-the-declared-size'] = len(img2) == res['pvd']['space_size'] * 2048
            if im2.problems:
                a.problems = im2.problems
        except (R.Bad, KeyError):
            cl['iso9660-side-structurally-valid'] = False
        if u.im.problems:
            a.problems = u.im.problems
        return cl

    def observe(self, c, a, out):
        return {'kind': out.kind, 'problems': getattr(a, 'problems', None)}


@contract
class ReopenedForeignEmpty(Base):
    """C04/C02 on an image as OTHER mastering tools write it: the directory record of an empty file carries the sector number of
    the next file (genisoimage/mkisofs do that; ECMA-119 gives the field no meaning for a zero-length file).  Opening such an image
    and mastering it again must keep every file on its own sectors with its own bytes: an empty file is not a link to the file
    whose sector number it happens to carry."""
    target = S.PC + '.open_fp'
    script = 'empty-files'
    crosscheck = False
    label = property(lambda self: 'pycdlib.PyCdlib.open_fp<%s, empty files carrying the next file\'s sector>' % self.script)

    def setup(self, c):
        S.pin_environment(c)
        a = c.a
        built, a.contents = build(c, self.script)
        img = list(V.items_of(S.written(c, built)))
        im, res = R.read_iso(img)
        # patch: every empty file record points at the first sector of the next non-empty file of the image
        recs = []
        for d, parent, path in res['root'].dirs_in_order:
            for ch in d.children:
                if not ch.isdir:
                    recs.append(ch)
        nonempty = sorted(ch.extent for ch in recs if ch.length)
        a.patched = 0
        for ch in recs:
            if ch.length == 0 and nonempty:
                tgt = nonempty[0]
                le = list(tgt.to_bytes(4, 'little'))
                img[ch.rec_off + 2:ch.rec_off + 6] = le
                img[ch.rec_off + 6:ch.rec_off + 10] = le[::-1]
                a.patched += 1
        a.img = V.mk_bytes(img)
        a.re = c.new(S.PC)
        a.fp = c.file(a.img)
        return Call([a.fp], self_obj=a.re)

    def post(self, c, a, out):
        kw, script = get_script(self.script)
        iso_m, jol_m, rr_m, hidden_m, sym_m, content_m = model_of(script)
        cl = {'some-record-was-patched': a.patched > 0}
        cl['library-shows-the-expected-entries-and-bytes'] = library_view(c, a.re, {p: v for p, v in iso_m.items() if v[0] != 'symlink'}, content_m, a.contents, jol_m)
        k = {'iso_path': '/NEWFILE.;1'}
        extra = c.bytes('extra_content', 10)
        good, _ = S.try_call(c, lambda: S.call(c, a.re, 'add_fp', S.data_file(c, extra), 10, **k))
        cl['an-edit-is-accepted'] = good
        ok, img2 = S.try_call(c, lambda: S.written(c, a.re))
        cl['remastering-succeeds'] = ok
        if not ok:
            return cl
        try:
            im, res = R.read_iso(list(V.items_of(img2)))
            tree = R.logical_tree(im, res['root'])
        except (R.Bad, KeyError):
            cl['independent-reader-can-decode-the-remastered-image'] = False
            return cl
        keep, own = [], {}
        for p, v in iso_m.items():
            t = tree.get(p.encode())
            if v[0] != 'file':
                continue
            if t is None or t[0] != 'file':
                keep.append(False)
                continue
            keep.append(t[2] == content_m[v[1]] and Eq(V.mk_bytes(R.file_bytes(im, t[1])), a.contents[v[1]]))
            if content_m[v[1]]:
                own.setdefault(t[1][0][0], set()).add(v[1])
        cl['every-file-keeps-its-own-bytes-and-length'] = And(*keep) if keep else True
        cl['distinct-contents-on-distinct-sectors'] = all(len(s) == 1 for s in own.values())
        cl['remastered-image-is-structurally-valid'] = not im.problems
        return cl

    def observe(self, c, a, out):
        return {'kind': out.kind, 'exc': out.exc}
