"""Contracts for pycdlib/headervd.py (C03 volume descriptors, C04 accounting, C02 PT-INV, C05 round trips)."""
from pyvc import sx
from pyvc import values as V
from pyvc.sx import And, Or, Not, Implies, If, Eq
from pyvc.contract import contract, Call
from contracts.utils import Base
from contracts.dr import le, be

VD = 'pycdlib.headervd.PrimaryOrSupplementaryVD'
BR = 'pycdlib.headervd.BootRecord'
VDST = 'pycdlib.headervd.VolumeDescriptorSetTerminator'
FOT = 'pycdlib.headervd.FileOrTextIdentifier'
VDD = 'pycdlib.dates.VolumeDescriptorDate'
DR = 'pycdlib.dr.DirectoryRecord'


def vd_state(c, vd_type=1):
    """an initialised volume descriptor satisfying VD-INV (every number fits its field, every text field has its exact width)"""
    a = c.a
    def text(name, n):
        return c.bytes(name, n)
    def date(name):
        return c.obj(VDD, _initialized=True, date_str=c.bytes(name, 17))
    def fot(name):
        return c.obj(FOT, _initialized=True, text=c.bytes(name, 128))
    f = dict(_initialized=True, _vd_type=vd_type, version=c.choice('version', [1, 2]) if vd_type == 2 else 1,
             flags=c.int('flags', 0, 255) if vd_type == 2 else 0,
             system_identifier=text('sys', 32), volume_identifier=text('vol', 32), space_size=c.int('space_size', 0, (1 << 32) - 1),
             escape_sequences=text('esc', 32), set_size=c.int('set_size', 0, 65535), seqnum=c.int('seqnum', 0, 65535),
             log_block_size=c.int('lbs', 0, 65535), path_tbl_size=c.int('path_tbl_size', 0, (1 << 32) - 1),
             path_table_location_le=c.int('pt_le', 0, (1 << 32) - 1), optional_path_table_location_le=c.int('opt_le', 0, (1 << 32) - 1),
             path_table_location_be=c.int('pt_be', 0, (1 << 32) - 1), optional_path_table_location_be=c.int('opt_be', 0, (1 << 32) - 1),
             volume_set_identifier=text('volset', 128), publisher_identifier=fot('pub'), preparer_identifier=fot('prep'),
             application_identifier=fot('app'), copyright_file_identifier=text('copyr', 37), abstract_file_identifier=text('abstr', 37),
             bibliographic_file_identifier=text('bibli', 37), volume_creation_date=date('cdate'), volume_expiration_date=date('xdate'),
             volume_effective_date=date('edate'), file_structure_version=c.choice('fsv', [1, 2]) if vd_type == 2 else 1,
             application_use=text('appuse', 512), new_extent_loc=-1, orig_extent_loc=16, encoding='ascii')
    a.root = c.bytes('rootrec', 34)
    f['root_dir_record'] = c.obj(DR, initialized=True)
    a.f = f
    return c.obj(VD, **f)


def root_record_hook(it, fv, args, kwargs):
    """callee contract of DirectoryRecord.record for the root record embedded in a volume descriptor: 34 bytes (C03 DRRecord, len_fi=1)"""
    return it.ctx.ghost['root_record_bytes']


@contract
class VDRecord(Base):
    """C03/PVD/layout (ECMA-119 8.4/8.5): 2048 bytes, type, 'CD001', version, every both-byte-order pair agrees, L and M path table
    locations in their own byte order, 34-byte root record at 156, dates, file structure version, application use, zero fill"""
    target = VD + '.record'
    vd_type = 1
    hooks = {DR + '.record': root_record_hook}
    crosscheck = False

    def setup(self, c):
        a = c.a
        a.self = vd_state(c, self.vd_type)
        a.now = c.int('now', 1, 4102444799)
        a.z = c.int('z', -48, 56)
        if c.symbolic:
            c.p.ghost['tz_quarters'] = a.z
            c.p.ghost['now'] = a.now
            c.p.ghost['root_record_bytes'] = a.root
        else:
            root = a.root
            self.real_hooks = {DR + '.record': lambda _self: root}
        return Call([], self_obj=a.self)

    def post(self, c, a, out):
        r = V.items_of(out.result)
        f = a.f
        if len(r) != 2048:
            return {'length-2048': False}
        return {
            'length-2048': True,
            'header': And(r[0] == self.vd_type, Eq(V.mk_bytes(r[1:6]), b'CD001'), r[6] == f['version'], r[7] == f['flags']),
            'identifiers': And(Eq(V.mk_bytes(r[8:40]), f['system_identifier']), Eq(V.mk_bytes(r[40:72]), f['volume_identifier']), Eq(V.mk_bytes(r[72:80]), b'\x00' * 8)),
            'space-size-both-endian': And(le(r[80:84]) == f['space_size'], be(r[84:88]) == f['space_size']),
            'escape-sequences': Eq(V.mk_bytes(r[88:120]), f['escape_sequences']),
            'set-size-seqnum-blocksize-both-endian': And(le(r[120:122]) == f['set_size'], be(r[122:124]) == f['set_size'], le(r[124:126]) == f['seqnum'],
                                                          be(r[126:128]) == f['seqnum'], le(r[128:130]) == f['log_block_size'], be(r[130:132]) == f['log_block_size']),
            'path-table-size-both-endian': And(le(r[132:136]) == f['path_tbl_size'], be(r[136:140]) == f['path_tbl_size']),
            'path-table-locations': And(le(r[140:144]) == f['path_table_location_le'], le(r[144:148]) == f['optional_path_table_location_le'],
                                        be(r[148:152]) == f['path_table_location_be']),
            'root-record-34-bytes-at-156': Eq(V.mk_bytes(r[156:190]), a.root),
            'text-fields': And(Eq(V.mk_bytes(r[190:318]), f['volume_set_identifier']), Eq(V.mk_bytes(r[318:446]), f['publisher_identifier'].text),
                               Eq(V.mk_bytes(r[446:574]), f['preparer_identifier'].text), Eq(V.mk_bytes(r[574:702]), f['application_identifier'].text),
                               Eq(V.mk_bytes(r[702:739]), f['copyright_file_identifier']), Eq(V.mk_bytes(r[739:776]), f['abstract_file_identifier']),
                               Eq(V.mk_bytes(r[776:813]), f['bibliographic_file_identifier'])),
            'dates': And(Eq(V.mk_bytes(r[813:830]), f['volume_creation_date'].date_str), Eq(V.mk_bytes(r[847:864]), f['volume_expiration_date'].date_str),
                         Eq(V.mk_bytes(r[864:881]), f['volume_effective_date'].date_str)),
            'modification-date-is-a-date': And(*[And(r[830 + i] >= 48, r[830 + i] <= 57) for i in range(16)]),
            'file-structure-version-and-tail': And(r[881] == f['file_structure_version'], r[882] == 0, Eq(V.mk_bytes(r[883:1395]), f['application_use']),
                                                   Eq(V.mk_bytes(r[1395:]), b'\x00' * 653)),
        }


@contract
class VDSTRecord(Base):
    """C03: the set terminator is ff 'CD001' 01 and 2041 zero bytes"""
    target = VDST + '.record'

    def setup(self, c):
        c.a.self = c.obj(VDST, _initialized=True, new_extent_loc=-1)
        return Call([], self_obj=c.a.self)

    def post(self, c, a, out):
        return {'terminator': Eq(out.result, b'\xffCD001\x01' + b'\x00' * 2041)}


@contract
class BRRecord(Base):
    """C11/C03: boot record = 00 'CD001' 01, 32-byte boot system id, 32-byte boot id, 1977 bytes of system use - so the catalog
    pointer (first four bytes of system use) is at byte 71"""
    target = BR + '.record'

    def setup(self, c):
        a = c.a
        a.sysid, a.bid, a.use = c.bytes('sysid', 32), c.bytes('bootid', 32), c.bytes('use', 1977)
        a.self = c.obj(BR, _initialized=True, boot_system_identifier=a.sysid, boot_identifier=a.bid, boot_system_use=a.use)
        return Call([], self_obj=a.self)

    def post(self, c, a, out):
        r = out.result
        return {'length-2048': len(r) == 2048, 'header': Eq(r[0:7], b'\x00CD001\x01'), 'ids': And(Eq(r[7:39], a.sysid), Eq(r[39:71], a.bid)),
                'system-use-from-71': Eq(r[71:], a.use)}


@contract
class BRRoundTrip(Base):
    """C05: record(parse(b)) == b for every 2048-byte boot record parse accepts"""
    target = BR + '.record'
    label = 'headervd.BootRecord.parse+record'
    setup_may_raise = ('PyCdlibInvalidISO',)

    def setup(self, c):
        a = c.a
        a.b = c.bytes('vd', 2048)
        a.self = c.new(BR)
        c.call(BR + '.parse', a.self, a.b, 17)
        return Call([], self_obj=a.self)

    def post(self, c, a, out):
        return {'identity': Eq(out.result, a.b)}


# ---------------------------------------------------------------------------------------------
# accounting (C04/space, C04/pt, PT-INV)
# ---------------------------------------------------------------------------------------------
@contract
class AddToSpaceSize(Base):
    """C04/space: add_to_space_size(bytes) raises the declared volume size by ceil(bytes / block size) sectors and nothing else"""
    target = VD + '.add_to_space_size'
    remove = False

    def setup(self, c):
        a = c.a
        a.lbs = c.choice('lbs', [2048, 512, 4096])
        a.size = c.int('space_size', 0, (1 << 32) - 1)
        a.n = c.int('bytes', 0, 1 << 40)
        a.pts = c.int('path_tbl_size', 0)
        a.self = c.obj(VD, _initialized=True, log_block_size=a.lbs, space_size=a.size, path_tbl_size=a.pts)
        self.target = VD + ('.remove_from_space_size' if self.remove else '.add_to_space_size')
        a.q, a.r = c.divmod(a.n, a.lbs)
        return Call([a.n], self_obj=a.self)

    def post(self, c, a, out):
        sectors = If(a.r == 0, a.q, a.q + 1)
        delta = -sectors if self.remove else sectors
        return {'delta-is-ceil': a.self.space_size == a.size + delta, 'frame': a.self.path_tbl_size == a.pts}


def pt_inv(size, extents):
    """PT-INV: the path tables get 2*ceil(size/4096) extents (each table is padded to 4 KiB), at least... as booked"""
    return None


@contract
class AddToPtrSize(Base):
    """C04/pt + PT-INV: with path_table_num_extents = 2*ceil(size/4096) before, adding one record (8..264 bytes) keeps that equation
    and returns True exactly when two more extents are needed"""
    target = VD + '.add_to_ptr_size'
    remove = False
    covers = ('return',)

    def setup(self, c):
        a = c.a
        a.size = c.int('path_tbl_size', 10, 1 << 30)
        a.k, r = c.divmod(a.size, 4096)
        a.ceil0 = If(r == 0, a.k, a.k + 1)
        a.self = c.obj(VD, _initialized=True, path_tbl_size=a.size, path_table_num_extents=2 * a.ceil0, space_size=c.int('space_size', 0))
        a.d = c.int('ptr_size', 8, 264)
        a.space = a.self.space_size
        if self.remove:
            c.assume(a.size - a.d >= 10)
            a.k1, r1 = c.divmod(a.size - a.d, 4096)
        else:
            a.k1, r1 = c.divmod(a.size + a.d, 4096)
        a.ceil1 = If(r1 == 0, a.k1, a.k1 + 1)
        self.target = VD + ('.remove_from_ptr_size' if self.remove else '.add_to_ptr_size')
        return Call([a.d], self_obj=a.self)

    def post(self, c, a, out):
        s = a.self
        return {'size': s.path_tbl_size == (a.size - a.d if self.remove else a.size + a.d),
                'pt-inv-preserved': s.path_table_num_extents == 2 * a.ceil1,
                'returns-true-iff-extents-changed': sx.Iff(Eq(out.result, True), a.ceil1 != a.ceil0),
                'frame': s.space_size == a.space}


@contract
class VDCopy(Base):
    """C02/dup-pvd: copy(orig) yields a descriptor equal to the original on every field that record() and the size accounting
    read - including the number of path table extents (PT-INV must hold for the copy too)"""
    target = VD + '.copy'
    hooks = {}
    crosscheck = False

    def setup(self, c):
        a = c.a
        a.orig = vd_state(c, 1)
        a.orig.path_table_num_extents = c.int('pt_extents', 2, 1 << 20)
        a.orig.rr_ce_blocks = []
        a.self = c.new(VD, 1)
        return Call([a.orig], self_obj=a.self)

    def post(self, c, a, out):
        s, o = a.self, a.orig
        return {'sizes': And(s.space_size == o.space_size, s.path_tbl_size == o.path_tbl_size, s.log_block_size == o.log_block_size),
                'path-table-extents-copied': s.path_table_num_extents == o.path_table_num_extents,
                'locations': And(s.path_table_location_le == o.path_table_location_le, s.path_table_location_be == o.path_table_location_be),
                'same-root': s.root_dir_record is o.root_dir_record}
