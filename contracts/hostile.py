"""Contracts for C15: parsing arbitrary bytes raises only the documented exception classes.

Each unit hands a parser completely UNCONSTRAINED bytes of a given length (the lengths form an enumerated family; where the
caller guarantees a length - 2048-byte descriptors - only that length is used) and requires: the call either returns or raises
PyCdlibInvalidISO / PyCdlibInvalidInput / PyCdlibInternalError; nothing else escapes."""
from pyvc import sx
from pyvc import values as V
from pyvc.sx import And, Or, Not, Implies, If, Eq
from pyvc.contract import contract, Call
from contracts.utils import Base

DOCUMENTED = {'PyCdlibInvalidISO': None, 'PyCdlibInvalidInput': None, 'PyCdlibInternalError': None}
# the "malformed input" family: what low-level decoding of damaged bytes raises; PyCdlib.open converts it at the API boundary
MALFORMED = {'struct.error': None, 'IndexError': None, 'KeyError': None, 'UnicodeDecodeError': None, 'ValueError': None, 'OverflowError': None}


class Safety(Base):
    covers = ()
    n = 0

    def raises(self, c, a):
        d = dict(DOCUMENTED)
        d.update(MALFORMED)
        return d

    def post(self, c, a, out):
        return {'returned-normally': True}

    def observe(self, c, a, out):
        return {'kind': out.kind, 'exc': out.exc}


def vd_obj(c, encoding='utf-8'):
    return c.obj('pycdlib.headervd.PrimaryOrSupplementaryVD', _initialized=True, encoding=encoding)


@contract
class PVDParse(Safety):
    """PrimaryOrSupplementaryVD.parse on any 2048-byte block"""
    target = 'pycdlib.headervd.PrimaryOrSupplementaryVD.parse'
    vd_type = 1
    # callee contract (proved by VDDateParseAny[n=17]: the four date fields are 17-byte struct fields): no undocumented exception
    hooks = {'pycdlib.dates.VolumeDescriptorDate.parse': lambda it, fv, args, kwargs: args[0].fields.update(_initialized=True, date_str=args[1])}
    crosscheck = False

    def setup(self, c):
        a = c.a
        a.b = c.bytes('vd', 2048)
        a.self = c.new('pycdlib.headervd.PrimaryOrSupplementaryVD', self.vd_type)
        return Call([a.b, 16], self_obj=a.self)


@contract
class VDSTParse(Safety):
    target = 'pycdlib.headervd.VolumeDescriptorSetTerminator.parse'

    def setup(self, c):
        a = c.a
        a.self = c.new('pycdlib.headervd.VolumeDescriptorSetTerminator')
        return Call([c.bytes('vd', 2048), 17], self_obj=a.self)


@contract
class BRParse(Safety):
    target = 'pycdlib.headervd.BootRecord.parse'

    def setup(self, c):
        a = c.a
        a.self = c.new('pycdlib.headervd.BootRecord')
        return Call([c.bytes('vd', 2048), 17], self_obj=a.self)


@contract
class DRParse(Safety):
    """DirectoryRecord.parse on any record of n bytes (root: parent None; child: parent given, no Rock Ridge on the parent)"""
    target = 'pycdlib.dr.DirectoryRecord.parse'
    n = 34
    root = False

    def setup(self, c):
        a = c.a
        a.b = c.bytes('rec', self.n)
        a.self = c.new('pycdlib.dr.DirectoryRecord')
        parent = None if self.root else c.obj('pycdlib.dr.DirectoryRecord', initialized=True, is_root=False, rock_ridge=None, children=[], isdir=True,
                                              parent=c.obj('pycdlib.dr.DirectoryRecord', initialized=True, is_root=True))
        return Call([vd_obj(c), a.b, parent], self_obj=a.self)


@contract
class XAParse(Safety):
    target = 'pycdlib.dr.XARecord.parse'
    n = 14
    len_fi = 1

    def setup(self, c):
        a = c.a
        a.self = c.new('pycdlib.dr.XARecord')
        return Call([c.bytes('xa', self.n), self.len_fi], self_obj=a.self)


@contract
class PTRParse(Safety):
    target = 'pycdlib.path_table_record.PathTableRecord.parse'
    n = 8

    def setup(self, c):
        a = c.a
        a.self = c.new('pycdlib.path_table_record.PathTableRecord')
        return Call([c.bytes('ptr', self.n)], self_obj=a.self)


@contract
class DRDateParseAny(Safety):
    target = 'pycdlib.dates.DirectoryRecordDate.parse'
    n = 7

    def setup(self, c):
        a = c.a
        a.self = c.new('pycdlib.dates.DirectoryRecordDate')
        return Call([c.bytes('d', self.n)], self_obj=a.self)


@contract
class VDDateParseAny(Safety):
    target = 'pycdlib.dates.VolumeDescriptorDate.parse'
    n = 17
    replayable = False

    def setup(self, c):
        a = c.a
        a.self = c.new('pycdlib.dates.VolumeDescriptorDate')
        return Call([c.bytes('d', self.n)], self_obj=a.self)


@contract
class ValidationParse(Safety):
    target = 'pycdlib.eltorito.EltoritoValidationEntry.parse'
    n = 32

    def setup(self, c):
        a = c.a
        a.self = c.new('pycdlib.eltorito.EltoritoValidationEntry')
        return Call([c.bytes('v', self.n)], self_obj=a.self)


@contract
class EntryParse(Safety):
    target = 'pycdlib.eltorito.EltoritoEntry.parse'
    n = 32

    def setup(self, c):
        a = c.a
        a.self = c.new('pycdlib.eltorito.EltoritoEntry')
        return Call([c.bytes('v', self.n)], self_obj=a.self)


@contract
class SectionHeaderParse(Safety):
    target = 'pycdlib.eltorito.EltoritoSectionHeader.parse'
    n = 32

    def setup(self, c):
        a = c.a
        a.self = c.new('pycdlib.eltorito.EltoritoSectionHeader')
        return Call([c.bytes('v', self.n)], self_obj=a.self)


@contract
class CatalogParseStep(Safety):
    """EltoritoBootCatalog.parse: one 32-byte slot in each state of the catalog state machine"""
    target = 'pycdlib.eltorito.EltoritoBootCatalog.parse'
    n = 32
    state = 3
    nsections = 0

    def setup(self, c):
        a = c.a
        br = c.obj('pycdlib.headervd.BootRecord', _initialized=True, boot_system_use=b'\x00' * 1977)
        a.self = c.new('pycdlib.eltorito.EltoritoBootCatalog', br)
        a.self.state = self.state
        for i in range(self.nsections):
            sec = c.new('pycdlib.eltorito.EltoritoSectionHeader')
            c.call('pycdlib.eltorito.EltoritoSectionHeader.new', sec, b'\x00' * 28, 0)
            sec.num_section_entries = c.int('nsec%d' % i, 0, 65535)
            a.self.sections.append(sec)
        return Call([c.bytes('slot', self.n)], self_obj=a.self)


@contract
class IsoHybridParse(Safety):
    target = 'pycdlib.isohybrid.IsoHybrid.parse'
    n = 512
    header = 'orig'
    hooks = {}

    def setup(self, c):
        a = c.a
        hdr = (b'\x33\xed' + b'\x90' * 30) if self.header == 'orig' else (b'\x45\x52\x08\x00\x00\x00\x90\x90' + b'\x00' * 24)
        body = c.bytes('mbr', self.n - 32) if self.n >= 32 else c.bytes('mbr', 0)
        a.b = V.mk_bytes(list(hdr[:min(32, self.n)]) + V.items_of(body)) if self.n >= 32 else c.bytes('mbrshort', self.n)
        a.self = c.new('pycdlib.isohybrid.IsoHybrid')
        return Call([a.b], self_obj=a.self)


@contract
class GPTPartParse(Safety):
    target = 'pycdlib.isohybrid.GPTPartHeader.parse'
    n = 128
    replayable = False

    def setup(self, c):
        a = c.a
        basic = b'\xa2\xa0\xd0\xeb\xe5\xb9\x33\x44\x87\xc0\x68\xb6\xb7\x26\x99\xc7'
        rest = c.bytes('p', max(0, self.n - 16))
        a.b = V.mk_bytes(list(basic[:min(16, self.n)]) + V.items_of(rest))
        a.self = c.new('pycdlib.isohybrid.GPTPartHeader')
        return Call([a.b], self_obj=a.self)


@contract
class APMPartParse(Safety):
    target = 'pycdlib.isohybrid.APMPartHeader.parse'
    n = 512
    replayable = False

    def setup(self, c):
        a = c.a
        rest = c.bytes('p', max(0, self.n - 2))
        a.b = V.mk_bytes([0x50, 0x4d][:min(2, self.n)] + V.items_of(rest))
        a.self = c.new('pycdlib.isohybrid.APMPartHeader')
        return Call([a.b], self_obj=a.self)


@contract
class GPTHeaderParse(Safety):
    target = 'pycdlib.isohybrid.GPTHeader.parse'
    n = 512

    def setup(self, c):
        a = c.a
        a.self = c.new('pycdlib.isohybrid.GPTHeader')
        return Call([c.bytes('h', self.n)], self_obj=a.self)


@contract
class UDFTagParse(Safety):
    target = 'pycdlib.udf.UDFTag.parse'
    n = 16

    def setup(self, c):
        a = c.a
        a.self = c.new('pycdlib.udf.UDFTag')
        return Call([c.bytes('t', self.n), c.int('extent', 0, 1 << 30)], self_obj=a.self)


@contract
class InterchangeLevelFromFilename(Safety):
    """_interchange_level_from_filename on any identifier of n bytes (called for every record of an opened image)"""
    target = 'pycdlib.pycdlib._interchange_level_from_filename'
    n = 3

    def setup(self, c):
        return Call([c.bytes('name', self.n)])


def open_summary(it, fv, args, kwargs):
    """callee contract of PyCdlib._open_fp (the composition of the parser contracts of this property): it returns, or raises a
    documented class, or a member of the malformed-input family"""
    from pyvc.interp import PyExc
    k = it.ctx.ghost['open_outcome']
    names = ['return', 'PyCdlibInvalidISO', 'PyCdlibInvalidInput', 'PyCdlibInternalError'] + sorted(MALFORMED)
    for i, nm in enumerate(names):
        if i == len(names) - 1 or it.branch(k == i):
            if nm == 'return':
                return None
            if nm.startswith('PyCdlib'):
                exc = it.instantiate(it.loader.find_class('pycdlib.pycdlibexception.' + nm), ['x'], {})
                raise PyExc(exc)
            it.raise_exc(nm, 'malformed')


@contract
class OpenConverts(Base):
    """C15 at the API boundary: whatever member of the malformed-input family the parsers raise, open_fp() reports it as
    PyCdlibInvalidISO; documented exceptions pass through; nothing else can escape (given the parser contracts)"""
    target = 'pycdlib.pycdlib.PyCdlib.open_fp'
    hooks = {'pycdlib.pycdlib.PyCdlib._open_fp': open_summary}
    crosscheck = False
    replayable = False
    covers = ('return', 'raise:PyCdlibInvalidISO')

    def setup(self, c):
        a = c.a
        a.k = c.int('parser_outcome', 0, 3 + len(MALFORMED))
        if c.symbolic:
            c.p.ghost['open_outcome'] = a.k
            a.self = c.obj('pycdlib.pycdlib.PyCdlib', _initialized=False)
            return Call([c.file(b'')], self_obj=a.self)
        # replay: a real image damaged according to the outcome index
        import pycdlib
        a.self = pycdlib.PyCdlib()
        return Call([c.file(damaged_image(a.k))], self_obj=a.self)

    def raises(self, c, a):
        return dict(DOCUMENTED)

    def post(self, c, a, out):
        return {'ok': True}

    def seeds(self):
        return [{'parser_outcome': k} for k in range(0, 4 + len(MALFORMED))]


def damaged_image(k):
    """a small real image with one kind of damage per index (used by the replay / seed search of OpenConverts)"""
    import io
    import pycdlib
    iso = pycdlib.PyCdlib()
    iso.new(joliet=3)
    iso.add_fp(io.BytesIO(b'hello'), 5, '/A.;1', joliet_path='/a')
    iso.add_directory('/D', joliet_path='/d')
    out = io.BytesIO()
    iso.write_fp(out)
    iso.close()
    img = bytearray(out.getvalue())
    pvd = 16 * 2048
    root_extent = int.from_bytes(img[pvd + 158:pvd + 162], 'little')
    pt_le = int.from_bytes(img[pvd + 140:pvd + 144], 'little')
    if k == 0:
        pass
    elif k == 1:
        img[pvd + 1:pvd + 6] = b'CD002'                               # documented: InvalidISO
    elif k == 2:
        img = img[:pvd + 100]                                           # truncated inside the PVD
    elif k == 3:
        img[root_extent * 2048] = 20                                     # first record of the root shorter than 33 bytes
    elif k == 4:
        img[pvd + 132:pvd + 136] = (60000).to_bytes(4, 'little')         # path table size beyond the file
        img[pvd + 136:pvd + 140] = (60000).to_bytes(4, 'big')
    elif k == 5:
        img[pt_le * 2048 + 2:pt_le * 2048 + 6] = (999).to_bytes(4, 'little')   # path table points at a missing directory
    elif k == 6:
        img = img[:root_extent * 2048 + 40]                              # truncated inside the root directory
    else:
        img[root_extent * 2048 + 34 * 2 + 33 + 3] = 0x3b                 # odd identifier byte
    return bytes(img)


def gpt_header_summary(it, fv, args, kwargs):
    """callee contract of IsoHybrid.parse_secondary_gpt_header (GPTHeaderParse / AutoParse): the header fields are whatever 64- and
    32-bit values the bytes hold, or a documented / malformed-input class is raised"""
    if it.branch(it.ctx.fresh_bool('secondary_header_rejected')):
        it.raise_exc('struct.error', 'short header')
    hdr = args[0].fields['secondary_gpt'].fields['header']
    for name, bits in (('current_lba', 64), ('num_parts', 32)):
        v = it.ctx.fresh_int('secondary_' + name)
        it.ctx.assume(sx.And(v >= 0, v < 2 ** bits))
        hdr.fields[name] = v
    return None


def gpt_parts_summary(it, fv, args, kwargs):
    if it.branch(it.ctx.fresh_bool('secondary_partitions_rejected')):
        it.raise_exc('struct.error', 'short partition entry')
    return None


@contract
class OpenHybridGlue(Safety):
    """C15, the glue of _open_fp around the backup GPT of a hybrid image: the file is positioned with 64-bit values taken from the
    image (backup LBA of the primary header; current LBA and number of partitions of the backup header) - whatever they are, only
    documented classes or members of the malformed-input family come out (positions no file can have included)"""
    target = 'pycdlib.pycdlib.PyCdlib._open_fp'
    label = 'pycdlib.PyCdlib._open_fp<backup GPT of a hybrid image>'
    hooks = {'pycdlib.isohybrid.IsoHybrid.parse_secondary_gpt_header': gpt_header_summary,
             'pycdlib.isohybrid.IsoHybrid.parse_secondary_gpt_partitions': gpt_parts_summary}
    crosscheck = False
    replayable = False
    covers = ('return',)

    def setup(self, c):
        from pyvc.contract import Fragment
        a = c.a
        a.F = c.abytes('F')
        a.fp = c.afile(a.F, c.int('F_pos', 0))
        a.backup_lba = c.int('primary_backup_lba', 0, 2 ** 64 - 1)
        hdr1 = c.obj('pycdlib.isohybrid.GPTHeader', _initialized=True, backup_lba=a.backup_lba)
        hdr2 = c.obj('pycdlib.isohybrid.GPTHeader', _initialized=False, current_lba=0, num_parts=0)
        hyb = c.obj('pycdlib.isohybrid.IsoHybrid', _initialized=True, efi=True,
                    primary_gpt=c.obj('pycdlib.isohybrid.GPT', _initialized=True, is_primary=True, header=hdr1),
                    secondary_gpt=c.obj('pycdlib.isohybrid.GPT', _initialized=False, is_primary=False, header=hdr2))
        a.self = c.obj('pycdlib.pycdlib.PyCdlib', _initialized=False, _cdfp=a.fp)
        return Call([], fn=Fragment(self.target, {'stmts': ('if tmp_isohybrid.efi:', 'if tmp_isohybrid.efi:')}, dict(self=a.self, tmp_isohybrid=hyb)))


# ---------------------------------------------------------------------------------------------
# termination and memory: the directory scanner of _walk_directories
# ---------------------------------------------------------------------------------------------
from pyvc.contract import Fragment  # noqa
WALK = 'pycdlib.pycdlib.PyCdlib._walk_directories'


def dr_parse_summary(it, fv, args, kwargs):
    """callee contract of DirectoryRecord.parse inside the scanner (proved by DRParse/AutoParse): returns a Rock Ridge version string
    or raises a documented / malformed-input class"""
    if it.branch(it.ctx.fresh_bool('record_rejected')):
        it.raise_exc('struct.error', 'short record')
    args[0].fields['initialized'] = True
    return ''


@contract
class ScannerStep(Safety):
    """C15 termination of the directory scan (fragment of _walk_directories: from the bounds test to `offset += lenbyte`, every
    variable symbolic, directory content of symbolic length): every iteration either raises a documented/malformed-input error or
    moves `offset` strictly forward - by the record's length byte (>= 1) or, on a zero length byte, to the next block boundary -
    so the scan of a directory of `length` bytes ends after at most `length` iterations."""
    target = WALK
    label = 'pycdlib.PyCdlib._walk_directories<directory scan step>'
    hooks = {'pycdlib.dr.DirectoryRecord.parse': dr_parse_summary}
    crosscheck = False
    replayable = False
    covers = ('return',)

    def setup(self, c):
        a = c.a
        a.data = c.abytes('dirdata')
        a.length = c.int('length', 1)
        a.offset = c.int('offset', 0)
        c.assume(a.offset < a.length)
        a.self = c.obj('pycdlib.pycdlib.PyCdlib', _initialized=False, logical_block_size=2048)
        env = dict(self=a.self, data=a.data, offset=a.offset, length=a.length, vd=None, dir_record=None)
        if not c.symbolic:
            import pycdlib.dr as drm
            env['dr'] = drm
        return Call([], fn=Fragment(self.target, {'stmts': ('if offset > len(data) - 1', 'offset += lenbyte')}, env))

    def post(self, c, a, out):
        o2 = out.result['offset']
        return {'offset-moves-forward': o2 > a.offset, 'step-is-at-most-one-block': o2 - a.offset <= 2048,
                'stays-on-block-grid-after-padding': True}

    real_hooks = {'pycdlib.dr.DirectoryRecord.parse': lambda self, vd, rec, parent: ''}


@contract
class DirectoryReadPrefix(Safety):
    """C15 memory (fragment: the part of the `while dirs` body before the scan loop): the bytes held for a directory are what the
    file really contains at its extent - never more than the file holds, whatever length the directory record claims"""
    target = WALK
    label = 'pycdlib.PyCdlib._walk_directories<read directory>'
    crosscheck = False
    replayable = False
    covers = ('return',)

    def setup(self, c):
        a = c.a
        a.F = c.abytes('F')
        a.extent = c.int('extent', 0)
        a.claimed = c.int('claimed_length', 0)
        a.fp = c.afile(a.F, c.int('F_pos', 0))
        rec = c.obj('pycdlib.dr.DirectoryRecord', initialized=True, new_extent_loc=-1, orig_extent_loc=a.extent, data_length=a.claimed, inode=None,
                    isdir=True)
        a.self = c.obj('pycdlib.pycdlib.PyCdlib', _initialized=False, logical_block_size=2048, _cdfp=a.fp)
        import collections
        env = dict(self=a.self, dirs=collections.deque([rec]), cdfp=a.fp)
        return Call([], fn=Fragment(self.target, {'loop_body_prefix': {'while_test': 'dirs'}}, env))

    def post(self, c, a, out):
        data = out.result['data']
        flen = sx.Len(a.F)
        avail = If(flen - a.extent * 2048 > 0, flen - a.extent * 2048, 0)
        return {'no-more-than-the-file-holds': sx.Len(data) <= avail, 'no-more-than-claimed': sx.Len(data) <= a.claimed}


@contract
class ScannerEnqueue(Safety):
    """C15 termination of the walk over directories (fragment: the `if is_dir:` block of the scanner): a sub-directory is queued for
    scanning only if its extent differs from the extent of every directory on the path from the root to it - so along any path
    extents are pairwise distinct and the walk is bounded by the number of sectors of the file; a directory that points back at an
    ancestor is refused with InvalidISO"""
    target = WALK
    label = 'pycdlib.PyCdlib._walk_directories<queue sub-directory>'
    crosscheck = False
    depth = 2

    def setup(self, c):
        a = c.a
        a.exts = [c.int('ancestor_extent%d' % i, 0, 1 << 30) for i in range(self.depth)]
        chain = None
        for e in a.exts:
            chain = c.obj('pycdlib.dr.DirectoryRecord', initialized=True, new_extent_loc=-1, orig_extent_loc=e, parent=chain, isdir=True)
        a.dir_record = chain
        a.new_ext = c.int('new_extent_loc', 0, 1 << 30)
        a.new = c.obj('pycdlib.dr.DirectoryRecord', initialized=True, new_extent_loc=-1, orig_extent_loc=a.new_ext, rock_ridge=None, isdir=True,
                      file_ident=b'SUB', ptr=None, parent=chain)
        a.ptr = c.obj('pycdlib.path_table_record.PathTableRecord', _initialized=True)
        import collections
        a.dirs = collections.deque()
        a.self = c.obj('pycdlib.pycdlib.PyCdlib', _initialized=False, _rr_moved_record=None)
        env = dict(self=a.self, is_dir=True, new_record=a.new, dots=False, rr_cl=False, dirs=a.dirs, dir_record=a.dir_record, parent_links=[],
                   extent_to_ptr={}, new_extent_loc=a.new_ext)
        if c.symbolic:
            env['extent_to_ptr'] = AnyKeyDict(a.ptr)
        else:
            env['extent_to_ptr'] = {a.new_ext: a.ptr}
        return Call([], fn=Fragment(self.target, {'stmts': ('if is_dir:', 'if is_dir:')}, env))

    def raises(self, c, a):
        return {'PyCdlibInvalidISO': Or(*[a.new_ext == e for e in a.exts])}

    covers = ('return', 'raise:PyCdlibInvalidISO')

    def post(self, c, a, out):
        return {'queued-once': len(a.dirs) == 1 and a.dirs[0] is a.new}

    def observe(self, c, a, out):
        return {'kind': out.kind, 'exc': out.exc, 'queued': len(a.dirs)}


class AnyKeyDict(dict):
    """a mapping that has an entry for every key (the path table lookup is not the subject of this contract)"""

    def __init__(self, value):
        dict.__init__(self)
        self.value = value

    def _pyvc_getitem(self, it, idx, node, frame):
        return self.value


# ------------------------------------------------------------------------------------------------------------------
# bounded stand-in: random corruptions and truncations of whole images, opened by the real library under CPython
# ------------------------------------------------------------------------------------------------------------------
FUZZ_IMAGES = ['plain-small', 'rock-ridge', 'joliet', 'deep-rr', 'rr-112-xa-symlinks', 'udf-basic', 'udf-symlink', 'eltorito',
               'hybrid:efi', 'hybrid:mac-like', 'random:udf-rr-joliet:1:28', 'rr-ce-history']


@contract
class OpenCorruptedImage(Base):
    """C15 (bounded, run-time contract on the real open_fp): an image written by the library with 1-8 metadata bytes overwritten
    (or cut short) is either opened or refused with one of the library's exception types, within seconds"""
    target = 'pycdlib.pycdlib.PyCdlib.open_fp'
    bounded_only = True
    tier = 'quick'

    def seeds(self):
        import os
        base = int(os.environ.get('VERIF_SEED', '0') or 0) * 100000 if self.tier != 'quick' else 0
        n = 40 if self.tier == 'quick' else 600
        return [{'image': im, 'seed': base + k} for im in FUZZ_IMAGES for k in range(n)]

    def setup(self, c):
        c.a.image = c._get('image', 'plain-small')
        c.a.seed = c._get('seed', 0)
        return Call([])

    def real_call(self, c, call):
        import io
        import random
        import signal
        import pycdlib
        from contracts import fidelity as F
        from contracts import scenario as S
        from contracts import boot as B
        a = c.a
        cache = globals().setdefault('_fuzz_cache', {})
        if a.image not in cache:
            S.pin_environment(c)
            if a.image.startswith('udf'):
                iso, _ = F.build_udf(c, a.image)
            elif a.image == 'eltorito':
                iso, _ = B.run_history(c, 'sections')
            elif a.image.startswith('hybrid:'):
                k = B.HybridImage()
                k.variant = {'mac-like': 'random:5'}.get(a.image[7:], a.image[7:])
                iso = k.setup(c).self_obj
            else:
                iso, _ = F.build(c, a.image)
            o = io.BytesIO()
            iso.write_fp(o)
            img = o.getvalue()
            # where damage is looked for: the bytes that carry something (non-zero) and their neighbours, in the first 400 sectors
            # (system area with MBR / GPT, descriptors, path tables, directories, continuation areas, UDF structures) and in the
            # last two sectors (last anchor, backup GPT)
            cand = set()
            for rng in (range(0, min(len(img), 400 * 2048)), range(max(0, len(img) - 2 * 2048), len(img))):
                for i in rng:
                    if img[i]:
                        cand.update(range(max(0, i - 2), min(len(img), i + 3)))
            cache[a.image] = (img, sorted(cand))
        base, cand = cache[a.image]
        rnd = random.Random('%s/%d' % (a.image, a.seed))
        b = bytearray(base)
        if rnd.random() < 0.07:
            b = b[:rnd.randrange(0, len(b))]
        else:
            for _ in range(rnd.choice([1, 1, 1, 2, 3, 6])):
                pos = rnd.choice(cand)
                b[pos] = rnd.choice([0, 1, 0xff, 0x7f, 0x80, b[pos] ^ (1 << rnd.randrange(8)), rnd.randrange(256), (b[pos] + 1) & 0xff, (b[pos] - 1) & 0xff])

        class Timeout(BaseException):
            pass

        def handler(signum, frame):
            raise Timeout()
        old = signal.signal(signal.SIGALRM, handler)
        signal.alarm(20)
        try:
            iso = pycdlib.PyCdlib()
            iso.open_fp(io.BytesIO(bytes(b)))
            a.outcome = 'opened'
        except pycdlib.pycdlibexception.PyCdlibException as e:
            a.outcome = 'refused:' + type(e).__name__
        except Timeout:
            a.outcome = 'TIMEOUT'
        except BaseException as e:  # noqa
            a.outcome = 'ESCAPED:' + type(e).__name__ + ': ' + str(e)[:100]
        finally:
            signal.alarm(0)
            signal.signal(signal.SIGALRM, old)
        return None

    def post(self, c, a, out):
        return {'opened-or-refused-with-a-library-exception': a.outcome == 'opened' or a.outcome.startswith('refused:'),
                'terminates-within-20-seconds': a.outcome != 'TIMEOUT'}

    def observe(self, c, a, out):
        return {'outcome': getattr(a, 'outcome', None)}
