"""C15: one safety unit per (structure class with a constant FMT and a parse method) x (buffer length), generated mechanically from
the repository source on every run.  Contract: parse(any bytes) returns or raises a documented class or a member of the
'malformed input' family M (struct.error, IndexError, KeyError, UnicodeDecodeError, ValueError) that PyCdlib.open converts to
PyCdlibInvalidISO at the API boundary (contracts.hostile.OpenConverts).  Anything else (AttributeError, TypeError, ...) is a violation."""
import ast
import os

from pyvc import values as V
from pyvc.contract import contract, Call, LoopSpec
from pyvc.sx import And as sx_and
from contracts.hostile import Safety, DOCUMENTED

M_FAMILY = {'struct.error': None, 'IndexError': None, 'KeyError': None, 'UnicodeDecodeError': None, 'ValueError': None, 'OverflowError': None}
REPO = os.environ.get('PYVC_REPO', '/repo')


def struct_size(fmt):
    import struct
    return struct.calcsize(fmt)


def discover():
    out = []
    for mod in ('udf', 'rockridge', 'headervd', 'eltorito', 'isohybrid', 'dr', 'path_table_record', 'dates'):
        path = os.path.join(REPO, 'pycdlib', mod + '.py')
        tree = ast.parse(open(path).read())
        for n in tree.body:
            if not isinstance(n, ast.ClassDef):
                continue
            fmt, params, init = None, None, []
            for b in n.body:
                if isinstance(b, ast.Assign) and isinstance(b.targets[0], ast.Name) and b.targets[0].id == 'FMT' and isinstance(b.value, ast.Constant):
                    fmt = b.value.value
                if isinstance(b, ast.FunctionDef) and b.name == 'parse':
                    params = [x.arg for x in b.args.args][1:]
                if isinstance(b, ast.FunctionDef) and b.name == '__init__':
                    init = [x.arg for x in b.args.args][1:]
            if fmt and params and not init and params[0] in ('data', 'rrstr', 'valstr', 'instr', 'datestr', 'vd') and \
                    all(p in ('data', 'rrstr', 'valstr', 'instr', 'datestr', 'vd', 'extent', 'extent_loc', 'desc_tag', 'tag', 'parent') for p in params):
                out.append((mod, n.name, fmt, params))
    return out


CLASSES = discover()


class LVDMapsLoop(LoopSpec):
    """the partition map loop of UDFLogicalVolumeDescriptor.parse, inductively: from ANY offset >= 0 into the 72 map bytes and any
    remaining table length, one iteration raises nothing outside the allowed classes and leaves offset >= 0; the loop runs at
    most num_partition_maps times (a range)"""

    def havoc(self, it, frame):
        ctx = it.ctx
        frame.locals['offset'] = ctx.fresh_int('map_offset')
        frame.locals['map_table_length_left'] = ctx.fresh_int('map_left')
        frame.locals['__k'] = ctx.fresh_int('maps_done')
        frame.locals['self'].fields['partition_maps'] = []

    def invariant(self, it, frame, phase):
        if phase == 'init':
            return {'offset-starts-at-zero': frame.locals['offset'] >= 0}
        n = len(V.items_of(frame.locals['partition_maps']))
        cl = {'offset-inside-the-map-bytes': sx_and(frame.locals['offset'] >= 0, frame.locals['offset'] <= n), 'count-nonneg': frame.locals['__k'] >= 0}
        part = it.ctx.ghost.get('lvd_part')
        if phase == 'assume' and part is not None:
            # the inductive step is split over several units by the offset at which the iteration starts (their union is 0..n)
            cl['this-unit-s-slice-of-offsets'] = sx_and(frame.locals['offset'] >= part[0], frame.locals['offset'] < part[1])
        return cl

    def for_enter(self, it, frame, st):
        n = frame.locals['num_partition_maps']
        if it.truth(frame.locals['__k'] < n):
            frame.locals[st.target.id] = frame.locals['__k']
            return True
        return False

    def for_advance(self, it, frame, st):
        frame.locals['__k'] = frame.locals['__k'] + 1

    def decreases(self, it, frame):
        return frame.locals['num_partition_maps'] - frame.locals['__k']


@contract
class AutoParse(Safety):
    part = None
    loops = {('pycdlib.udf.UDFLogicalVolumeDescriptor.parse', 0): LVDMapsLoop()}
    """<class>.parse(arbitrary bytes of length n): only documented exceptions or the malformed-input family escape"""
    target = 'pycdlib.udf.UDFTag.parse'
    cls = 'udf.UDFTag'
    n = 16
    replayable = False   # decoding of arbitrary text is uninterpreted in the model

    label = property(lambda self: self.cls + '.parse')

    def info(self):
        for (mod, name, fmt, params) in CLASSES:
            if mod + '.' + name == self.cls:
                return mod, name, fmt, params
        raise LookupError(self.cls)

    def setup(self, c):
        mod, name, fmt, params = self.info()
        self.target = 'pycdlib.%s.%s.parse' % (mod, name)
        a = c.a
        a.self = c.new('pycdlib.%s.%s' % (mod, name))
        if c.symbolic and getattr(self, 'part', None) is not None:
            c.p.ghost['lvd_part'] = tuple(self.part)
        args = []
        for p in params:
            if p in ('data', 'rrstr', 'valstr', 'instr', 'datestr', 'vd'):
                args.append(c.bytes('buf', self.n))
            elif p in ('extent', 'extent_loc'):
                args.append(c.int('extent', 0, (1 << 32) - 1))
            elif p in ('desc_tag', 'tag'):
                args.append(c.obj('pycdlib.udf.UDFTag', _initialized=True, tag_ident=c.int('tag_ident', 0, 65535), tag_location=0, desc_version=2, tag_serial_number=0))
            elif p == 'parent':
                args.append(None)
        return Call(args, self_obj=a.self)

    def raises(self, c, a):
        d = dict(DOCUMENTED)
        d.update(M_FAMILY)
        return d


def family(tier):
    us = []
    from pyvc.verify import Unit
    for (mod, name, fmt, params) in CLASSES:
        size = struct_size(fmt)
        lens = {size, max(0, size - 1)}
        if tier == 'quick' and mod + '.' + name in ('udf.UDFExtendedFileEntry', 'udf.UDFLogicalVolumeDescriptor'):
            lens = {max(0, size - 1)}   # the full-size members take minutes (thousands of paths): thorough tier only
        if tier != 'quick':
            lens |= {0, size + 1}
        for n in sorted(lens):
            if mod + '.' + name == 'udf.UDFLogicalVolumeDescriptor' and n >= size:
                # the partition-map loop is proved inductively (LVDMapsLoop); its step is split over the start offset 0..72
                for lo in range(0, 73, 6):
                    us.append(Unit(AutoParse, {'cls': mod + '.' + name, 'n': n, 'part': [lo, min(lo + 6, 73)]}))
                continue
            us.append(Unit(AutoParse, {'cls': mod + '.' + name, 'n': n}))
    return us
