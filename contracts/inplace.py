"""C17: modify_file_in_place on an opened image, judged on the bytes of the backing image file before and after by the
INDEPENDENT readers (contracts/reader.py, contracts/udf_reader.py).  The new content is symbolic (every content of the given
length); images, victims and lengths come from a table."""
from pyvc import values as V
from pyvc.sx import And, Or, Not, Eq
from pyvc.contract import contract, Call
from contracts.utils import Base
from contracts import scenario as S
from contracts import reader as R
from contracts import udf_reader as UR

# a directory whose first sector is filled EXACTLY (., .., 5 records of 44 bytes, 44 records of 40 bytes = 2048) and that goes on
BOUNDARY_DIR = [('file', dict(iso_path='/D/E/A%04d.TXT;1' % i), 3) for i in range(5)] + [('file', dict(iso_path='/D/E/F%03d.;1' % i), 2100 if i in (43, 44) else 4) for i in range(60)]

IMAGES = {
    'plain': (dict(), [('file', dict(iso_path='/A.;1'), 5), ('file', dict(iso_path='/B.;1'), 3000), ('file', dict(iso_path='/C.;1'), 0), ('dir', dict(iso_path='/D')),
                       ('file', dict(iso_path='/D/X.;1'), 2048)]),
    'boundary-dir': (dict(), [('dir', dict(iso_path='/D')), ('dir', dict(iso_path='/D/E'))] + BOUNDARY_DIR),
    'joliet-links': (dict(joliet=3), [('dir', dict(iso_path='/D', joliet_path='/a directory')), ('file', dict(iso_path='/D/V.;1', joliet_path='/a directory/the victim with a long joliet name'), 2500),
                                      ('file', dict(iso_path='/O.;1', joliet_path='/other'), 7),
                                      ('link', dict(iso_old_path='/D/V.;1', iso_new_path='/LINK.;1')), ('link', dict(iso_old_path='/D/V.;1', joliet_new_path='/j')),
                                      ('file', dict(iso_path='/Z.;1', joliet_path='/z'), 2049)]),
    'all-namespaces': (dict(rock_ridge='1.09', joliet=3, udf='2.60'),
                       [('dir', dict(iso_path='/D', rr_name='dee', joliet_path='/dee', udf_path='/dee')),
                        ('file', dict(iso_path='/D/V.;1', rr_name='victim', joliet_path='/dee/victim', udf_path='/dee/victim'), 100),
                        ('file', dict(iso_path='/O.;1', rr_name='other', joliet_path='/other', udf_path='/other'), 9),
                        ('link', dict(iso_old_path='/D/V.;1', udf_new_path='/second-udf-name'))]),
    'xa-rr112': (dict(rock_ridge='1.12', xa=True), [('file', dict(iso_path='/V.;1', rr_name='v' * 230), 4096), ('file', dict(iso_path='/O.;1', rr_name='o'), 1)]),
    'eltorito': (dict(), [('file', dict(iso_path='/BOOT.;1'), 2048), ('eltorito', dict(bootfile_path='/BOOT.;1', bootcatfile='/BOOT.CAT;1')), ('file', dict(iso_path='/O.;1'), 3)]),
}

# (image, victim iso path, new length)
CASES = {
    'plain:B:min': ('plain', '/B.;1', 2049), 'plain:B:same': ('plain', '/B.;1', 3000), 'plain:B:max': ('plain', '/B.;1', 4096),
    'plain:A:1': ('plain', '/A.;1', 1), 'plain:A:2048': ('plain', '/A.;1', 2048), 'plain:C:0': ('plain', '/C.;1', 0), 'plain:X:deep': ('plain', '/D/X.;1', 1),
    'boundary:last-of-sector-1': ('boundary-dir', '/D/E/F043.;1', 4000), 'boundary:first-of-sector-2': ('boundary-dir', '/D/E/F044.;1', 2049),
    'boundary:second-sector': ('boundary-dir', '/D/E/F050.;1', 2048), 'boundary:first-record': ('boundary-dir', '/D/E/A0000.TXT;1', 1),
    'joliet:victim': ('joliet-links', '/D/V.;1', 4096), 'joliet:by-link-name': ('joliet-links', '/LINK.;1', 2049), 'joliet:other': ('joliet-links', '/Z.;1', 4000),
    'all:victim': ('all-namespaces', '/D/V.;1', 2048), 'all:other': ('all-namespaces', '/O.;1', 1),
    'xa:long-rr-name': ('xa-rr112', '/V.;1', 2049),
    'eltorito:other': ('eltorito', '/O.;1', 2000), 'eltorito:boot-file': ('eltorito', '/BOOT.;1', 2000),
}
REFUSED = {
    'refuse:grow-a-sector': ('plain', '/B.;1', 4097), 'refuse:shrink-a-sector': ('plain', '/B.;1', 2048), 'refuse:empty-to-one': ('plain', '/C.;1', 1),
    'refuse:one-sector-to-empty': ('plain', '/A.;1', 0), 'refuse:directory': ('plain', '/D', 2048), 'refuse:missing': ('plain', '/NOPE.;1', 5),
    'refuse:all-namespaces-grow': ('all-namespaces', '/D/V.;1', 2049),
}


def random_image(name):
    """'random:<flavour>:<seed>': the final tree of a random edit history of contracts/fidelity.py as an image table entry"""
    from contracts import fidelity as F
    kw, script = F.get_script(name)
    iso_m, jol_m, rr_m, hidden_m, sym_m, content_m = F.model_of(script)
    ops = []
    for p in sorted((p for p, v in iso_m.items() if v[0] == 'dir'), key=lambda p: (p.count('/'), p)):
        k = dict(iso_path=p)
        if p in rr_m:
            k['rr_name'] = rr_m[p]
        jp = [q for q, v in jol_m.items() if v[0] == 'dir' and q.count('/') == p.count('/')]
        ops.append(('dir', k, p))
    # Joliet directories are matched to ISO9660 directories by creation order in the script
    jdirs = {op[1]: op[3] for op in script if op[0] == 'dir' and op[3]}
    for op in ops:
        if op[2] in jdirs and jdirs[op[2]] in jol_m:
            op[1]['joliet_path'] = jdirs[op[2]]
    ops = [(o[0], o[1]) for o in ops]
    seen = {}
    for p, v in sorted(iso_m.items()):
        if v[0] != 'file':
            continue
        cid = v[1]
        if cid not in seen:
            k = dict(iso_path=p)
            if p in rr_m:
                k['rr_name'] = rr_m[p]
            jn = sorted(q for q, w in jol_m.items() if w == v)
            if jn:
                k['joliet_path'] = jn[0]
            ops.append(('file', k, content_m[cid]))
            seen[cid] = (p, jn[1:])
            for extra in jn[1:]:
                ops.append(('link', dict(iso_old_path=p, joliet_new_path=extra)))
        else:
            k = dict(iso_old_path=seen[cid][0], iso_new_path=p)
            if p in rr_m:
                k['rr_name'] = rr_m[p]
            ops.append(('link', k))
    return kw, ops


def random_case(name):
    """(image, victim, new length) for a random image: a file chosen by the seed, a new length that keeps its sector count"""
    import random
    kw, ops = random_image(name)
    rnd = random.Random(name)
    files = [(o[1]['iso_path'], o[2]) for o in ops if o[0] == 'file']
    links = [o[1]['iso_new_path'] for o in ops if o[0] == 'link' and 'iso_new_path' in o[1]]
    path, size = rnd.choice(files)
    nsec = -(-size // 2048)
    newlen = 0 if nsec == 0 else rnd.choice([(nsec - 1) * 2048 + 1, nsec * 2048, rnd.randint((nsec - 1) * 2048 + 1, nsec * 2048)])
    by_link = [l for l in links if any(o[0] == 'link' and o[1].get('iso_new_path') == l and o[1]['iso_old_path'] == path for o in ops)]
    victim = rnd.choice([path] + by_link)
    return name, victim, newlen


def case_of(name):
    return random_case(name) if name.startswith('random:') else CASES[name]


def build(c, image):
    kw, ops = random_image(image) if image.startswith('random:') else IMAGES[image]
    iso = S.new_image(c, **kw)
    contents, names = {}, {}      # cid -> bytes ; cid -> {'iso': [..], 'joliet': [..], 'udf': [..]}
    by_iso = {}
    for op in ops:
        if op[0] == 'file':
            cid = len(contents)
            contents[cid] = c.bytes('content%d' % cid, op[2])
            S.call(c, iso, 'add_fp', S.data_file(c, contents[cid]), op[2], **op[1])
            names[cid] = {'iso': [op[1]['iso_path']], 'joliet': [op[1]['joliet_path']] if 'joliet_path' in op[1] else [],
                          'udf': [op[1]['udf_path']] if 'udf_path' in op[1] else []}
            by_iso[op[1]['iso_path']] = cid
        elif op[0] == 'dir':
            S.call(c, iso, 'add_directory', **op[1])
        elif op[0] == 'link':
            S.call(c, iso, 'add_hard_link', **op[1])
            cid = by_iso[op[1]['iso_old_path']]
            for k, ns in (('iso_new_path', 'iso'), ('joliet_new_path', 'joliet'), ('udf_new_path', 'udf')):
                if k in op[1]:
                    names[cid][ns].append(op[1][k])
                    if ns == 'iso':
                        by_iso[op[1][k]] = cid
        elif op[0] == 'eltorito':
            S.call(c, iso, 'add_eltorito', **op[1])
    return iso, contents, names, by_iso


def views(img, udf=False):
    """everything the independent readers see: {'iso': {path: (extents, length)}, 'joliet': {...}, 'udf': {...}}, record spans of
    every file record, problems"""
    im, res = R.read_iso(img)
    root = res['root']
    R.check_path_tables(im, res['pvd'], root)
    out = {'iso': {}, 'joliet': {}, 'udf': {}, 'dirs': {'iso': set(), 'joliet': set(), 'udf': set()}, 'records': [], 'im': im, 'res': res, 'udf_obj': None}
    for p, t in R.logical_tree(im, root).items():
        if t[0] == 'file':
            out['iso'][p.decode()] = (t[1], t[2])
        else:
            out['dirs']['iso'].add(p.decode())
    for d, parent, path in root.dirs_in_order:
        for ch in d.children:
            if not ch.isdir:
                out['records'].append(('iso', ch.extent, ch.rec_off, ch.rec_len))
    for s in res['svds']:
        if s['escape'][:3] in (b'%/@', b'%/C', b'%/E'):
            jr = R.read_tree(im, s)
            R.check_path_tables(im, s, jr)
            for p, t in R.logical_tree(im, jr).items():
                name = '/'.join(x.decode('utf-16_be') for x in p.split(b'/'))
                if t[0] == 'file':
                    out['joliet'][name] = (t[1], t[2])
                else:
                    out['dirs']['joliet'].add(name)
            for d, parent, path in jr.dirs_in_order:
                for ch in d.children:
                    if not ch.isdir:
                        out['records'].append(('joliet', ch.extent, ch.rec_off, ch.rec_len))
    if udf:
        u = UR.read_udf(img)
        out['udf_obj'] = u
        for p, f in u.files.items():
            if f['kind'] == 'file':
                out['udf'][p] = (f['extents'], f['length'])
            elif f['kind'] == 'dir':
                out['dirs']['udf'].add(p)
        out['udf_problems'] = list(u.im.problems)
    return out


def data_of(img, extents):
    out = []
    for ext, ln in extents:
        out.extend(img[ext * 2048:ext * 2048 + ln])
    return out


@contract
class ModifiedInPlace(Base):
    """C17: after modify_file_in_place the backing image file is itself a valid image (independent readers) of the same length
    with the same trees in every namespace; the file has the new content and length under ALL of its names in all namespaces, for
    EVERY new content; every other file keeps its bytes and length; and every byte of the image file outside the file's own
    sectors, the directory records / UDF file entries of its names and the volume descriptor sectors is unchanged"""
    target = S.PC + '.modify_file_in_place'
    case = 'plain:B:min'
    again = False
    crosscheck = False
    label = property(lambda self: 'pycdlib.PyCdlib.modify_file_in_place<%s%s>' % (self.case, ' twice' if self.again else ''))

    def setup(self, c):
        S.pin_environment(c)
        a = c.a
        image, a.victim, a.newlen = case_of(self.case)
        built, a.contents, a.names, a.by_iso = build(c, image)
        a.img = S.written(c, built)
        a.fp = c.file(a.img)
        a.re = c.new(S.PC)
        S.call(c, a.re, 'open_fp', a.fp)
        if self.again:
            # an earlier in-place modification of the same file (full sector count kept), then the one under contract
            first = c.bytes('first_content', a.newlen)
            S.call(c, a.re, 'modify_file_in_place', S.data_file(c, first), a.newlen, a.victim)
        a.new = c.bytes('new_content', a.newlen)
        return Call([S.data_file(c, a.new), a.newlen, a.victim], self_obj=a.re)

    def post(self, c, a, out):
        before = list(V.items_of(a.img))
        after = list(a.fp.items) if c.symbolic else list(a.fp.getvalue())
        cl = {'image-file-length-unchanged': len(after) == len(before)}
        try:
            udf = (not self.case.startswith('random:')) and 'udf' in IMAGES[CASES[self.case][0]][0]
            vb = views(before, udf)
            va = views(after, udf)
        except (R.Bad, KeyError, IndexError) as e:
            a.problems = ['independent reader cannot decode: %r' % (e,)]
            cl['modified-image-file-is-a-valid-image'] = False
            return cl
        problems = list(va['im'].problems) + va.get('udf_problems', [])
        a.problems = problems
        cl['modified-image-file-is-a-valid-image'] = not problems
        vid = a.by_iso[a.victim]
        same_tree, content_ok, victim_ok = [], [], []
        for ns in ('iso', 'joliet', 'udf'):
            same_tree.append(sorted(vb[ns]) == sorted(va[ns]) and vb['dirs'][ns] == va['dirs'][ns])
            for cid, nm in a.names.items():
                for p in nm[ns]:
                    got = va[ns].get(p)
                    if got is None:
                        content_ok.append(False)
                        continue
                    want = a.new if cid == vid else a.contents[cid]
                    ok = And(got[1] == len(V.items_of(want)), Eq(V.mk_bytes(data_of(after, got[0])), want)) if got[1] == len(V.items_of(want)) else False
                    (victim_ok if cid == vid else content_ok).append(ok)
                    # nothing moves
                    if len(V.items_of(want)) and vb[ns].get(p) is not None and vb[ns][p][1]:
                        same_tree.append([e for e, l in got[0]] == [e for e, l in vb[ns][p][0]])
        cl['same-trees-in-every-namespace-nothing-moved'] = all(same_tree)
        cl['the-file-has-the-new-content-and-length-under-all-its-names'] = And(*victim_ok) if victim_ok else False
        cl['every-other-file-is-unchanged'] = And(*content_ok) if content_ok else True
        # frame: what may change
        allowed = []
        vds = vb['res']['vds']
        for t, sec, ident in vds:
            if ident == b'CD001' and t in (1, 2):
                allowed.append((sec * 2048 + 80, sec * 2048 + 88))       # the volume space size field, both byte orders
        vext = None
        for p in a.names[vid]['iso']:
            if vb['iso'].get(p) and vb['iso'][p][0]:
                vext = vb['iso'][p][0][0][0]
        oldlen = len(V.items_of(a.contents[vid]))
        nsec = max(-(-oldlen // 2048), -(-a.newlen // 2048))
        if vext is not None and nsec:
            allowed.append((vext * 2048, (vext + nsec) * 2048))
        if vext is not None and oldlen:
            for ns, ext, off, ln in vb['records']:
                if ext == vext:
                    allowed.append((off, off + ln))
        else:
            # an empty file has no data location: its records are identified by path
            im = vb['im']
            for d, parent, path in vb['res']['root'].dirs_in_order:
                for ch in d.children:
                    if not ch.isdir and ch.path.decode() in a.names[vid]['iso']:
                        allowed.append((ch.rec_off, ch.rec_off + ch.rec_len))
        if vb['udf_obj'] is not None:
            u = vb['udf_obj']
            for what, sec, n in u.objects:
                if what.startswith('UDF file entry ') and what[len('UDF file entry '):] in a.names[vid]['udf']:
                    allowed.append((sec * 2048, (sec + n) * 2048))
        allowed.sort()
        a.allowed = allowed
        frame = []
        pos = 0
        for lo, hi in allowed + [(len(before), len(before))]:
            if lo > pos:
                frame.append(Eq(V.mk_bytes(before[pos:lo]), V.mk_bytes(after[pos:lo])))
            pos = max(pos, hi)
        cl['nothing-else-in-the-image-file-changed'] = And(*frame) if frame else True
        return cl

    def observe(self, c, a, out):
        return {'kind': out.kind, 'exc': out.exc, 'problems': getattr(a, 'problems', None), 'allowed': getattr(a, 'allowed', None)}


@contract
class InPlaceRefused(Base):
    """C17: a replacement that would change the number of sectors, or that targets a directory or a missing path, is refused
    with InvalidInput and leaves the image file byte-identical (for EVERY offered content)"""
    target = S.PC + '.modify_file_in_place'
    case = 'refuse:grow-a-sector'
    crosscheck = False
    covers = ('raise:PyCdlibInvalidInput',)
    label = property(lambda self: 'pycdlib.PyCdlib.modify_file_in_place<%s>' % self.case)

    def setup(self, c):
        S.pin_environment(c)
        a = c.a
        image, a.victim, a.newlen = REFUSED[self.case]
        built, a.contents, a.names, a.by_iso = build(c, image)
        a.img = S.written(c, built)
        a.fp = c.file(a.img)
        a.re = c.new(S.PC)
        S.call(c, a.re, 'open_fp', a.fp)
        a.new = c.bytes('new_content', a.newlen)
        return Call([S.data_file(c, a.new), a.newlen, a.victim], self_obj=a.re)

    def raises(self, c, a):
        return {'PyCdlibInvalidInput': True}

    def post(self, c, a, out):
        return {'the-call-is-refused': False}

    def post_raise(self, c, a, out):
        after = list(a.fp.items) if c.symbolic else list(a.fp.getvalue())
        ok, again = S.try_call(c, lambda: S.written(c, a.re))
        return {'image-file-byte-identical': Eq(V.mk_bytes(after), a.img),
                'the-opened-image-still-masters-the-same-bytes': ok and Eq(again, a.img)}

    def observe(self, c, a, out):
        return {'kind': out.kind, 'exc': out.exc}
