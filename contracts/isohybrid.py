"""Contracts for pycdlib/isohybrid.py (C12, C05)."""
from pyvc import sx
from pyvc import values as V
from pyvc.sx import And, Or, Not, Implies, If, Eq
from pyvc.contract import contract, Call, Fragment
from contracts.utils import Base

IH = 'pycdlib.isohybrid.IsoHybrid'
MAX_ISO = (1 << 41)  # 2 TiB: sector counts in the MBR are 32-bit


def geometry(c):
    a = c.a
    a.heads = c.int('heads', 1, 256)
    a.sectors = c.int('sectors', 1, 63)
    a.cyl = a.heads * a.sectors * 512


GPT_BACKUP_BYTES = 128 * 128 + 512      # the backup GPT: 128 partition entries and the header, written at the very end of the image


def spec_padding(c, iso_size, cyl, efi=False):
    """(number of whole cylinders of the padded image, padding) from the statement: 'the image is padded to a whole number of
    cylinders and is otherwise an unchanged, valid ISO' - so with EFI the padding must also hold the backup GPT, which is written
    at the end of the image: the SMALLEST padding that makes whole cylinders and, with EFI, is at least the backup GPT's size"""
    q, r = c.divmod(iso_size, cyl)
    pad = If(r == 0, 0, cyl - r)
    ncyl = If(r == 0, q, q + 1)
    if efi:
        # k further cylinders, k minimal (cyl is concrete wherever EFI is involved, so this stays linear)
        k = c.int('extra_cylinders_for_the_backup_gpt', 0, 40)
        c.assume(And(pad + k * cyl >= GPT_BACKUP_BYTES, Or(k == 0, pad + (k - 1) * cyl < GPT_BACKUP_BYTES)))
        return ncyl + k, pad + k * cyl
    return ncyl, pad


def hyb_obj(c, efi=False, mac=False, geom=None, **over):
    """an initialised IsoHybrid satisfying HYB-INV (what new() establishes)"""
    a = c.a
    if geom is None:
        geometry(c)
    else:
        a.heads, a.sectors = geom
        a.cyl = a.heads * a.sectors * 512
    f = dict(_initialized=True, efi=efi, mac=mac, geometry_heads=a.heads, geometry_sectors=a.sectors,
             part_entry=c.int('part_entry', 1, 4), part_offset=c.int('part_offset', 0, (1 << 32) - 1), ptype=c.int('ptype', 0, 255),
             mbr_id=c.int('mbr_id', 0, (1 << 32) - 1), rba=c.int('rba', 0, (1 << 32) - 1), bhead=c.int('bhead', 0, 255),
             bsect=c.int('bsect', 0, 255), bcyle=c.int('bcyle', 0, 255), ehead=a.heads - 1,
             mbr=c.bytes('mbr', 400), header=(b'\x45\x52\x08\x00\x00\x00\x90\x90' + b'\x00' * 24) if mac else (b'\x33\xed' + b'\x90' * 30))
    if efi:
        f['efi_lba'] = c.int('efi_lba', 0, (1 << 30) - 1)
        f['efi_count'] = c.int('efi_count', 0, (1 << 32) - 1)
    if mac:
        f['mac_lba'] = c.int('mac_lba', 0, (1 << 30) - 1)
        f['mac_count'] = c.int('mac_count', 0, (1 << 32) - 1)
    f.update(over)
    a.f = f
    a.self = c.obj(IH, **f)
    return a.self


@contract
class CalcCC(Base):
    """C12/cc: 0 <= pad < cyl, size+pad is a whole number of cylinders, cc = min(that number, 1024)"""
    target = IH + '._calc_cc'
    merge_ifs = False  # non-linear VC: two small paths are easier for the solver than one ite term
    efi = False
    geom = None        # (heads, sectors) concrete; None: symbolic geometry (without EFI)

    def setup(self, c):
        a = c.a
        geometry(c)
        a.size = c.int('iso_size', 0, MAX_ISO)
        if self.geom is not None:
            a.heads, a.sectors = self.geom
            a.cyl = a.heads * a.sectors * 512
        a.self = c.obj(IH, geometry_heads=a.heads, geometry_sectors=a.sectors, efi=self.efi)
        a.ncyl, a.pad = spec_padding(c, a.size, a.cyl, self.efi)
        return Call([a.size], self_obj=a.self)

    def post(self, c, a, out):
        cc, pad = out.result
        cl = {'padding': pad == a.pad, 'cylinders-capped-1024': cc == sx.Min(a.ncyl, 1024)}
        if self.efi:
            cl['pad-holds-the-backup-gpt-and-no-cylinder-more'] = And(pad >= GPT_BACKUP_BYTES, pad - a.cyl < GPT_BACKUP_BYTES)
        else:
            cl['pad-range'] = And(pad >= 0, pad < a.cyl)
        return cl


def le32(r, o):
    return r[o] + 256 * r[o + 1] + 65536 * r[o + 2] + 16777216 * r[o + 3]


@contract
class RecordMBR(Base):
    """C12/mbr: record(size) is a 512-byte MBR: header, boot code, rba at 432, id at 440, 0x55AA at 510, exactly one active
    partition entry (the requested one) whose start+size covers the cylinder-padded image; EFI/Mac entries 2/3 when requested."""
    target = IH + '.record'
    efi = False
    mac = False
    heads = 64
    sectors = 32
    hooks = {}

    def setup(self, c):
        a = c.a
        s = hyb_obj(c, efi=self.efi, mac=self.mac, geom=(self.heads, self.sectors))
        a.size = c.int('iso_size', 2048, MAX_ISO)
        c.assume(a.size % 2048 == 0) if not c.symbolic else None
        if c.symbolic:
            k = c.int('iso_sectors', 1, MAX_ISO // 2048)
            c.assume(a.size == 2048 * k)
        # documented use: the partition starts inside the image
        c.assume(a.f['part_offset'] * 512 <= a.size)
        # statement-level invariant: the active entry must not be one that EFI/Mac overwrite
        if self.efi:
            c.assume(a.f['part_entry'] != 2)
        if self.mac:
            c.assume(a.f['part_entry'] != 3)
        a.ncyl, a.pad = spec_padding(c, a.size, a.cyl, self.efi)
        # format limit: the padded image must be addressable with 32-bit 512-byte sector numbers
        c.assume(a.size + a.pad <= ((1 << 32) - 1) * 512)
        if self.efi:
            a.gpt = c.obj('pycdlib.isohybrid.GPT', _initialized=True)
            s.primary_gpt = a.gpt
        return Call([a.size], self_obj=s)

    def post(self, c, a, out):
        r, f = out.result, a.f
        if len(r) < 512:
            return {'length': False}
        e = 446
        cl = {'length-512': len(r) == (512 if not self.efi else 512 + 4),
              'header': Eq(r[0:32], f['header']), 'boot-code': Eq(r[32:432], f['mbr']),
              'rba-at-432': le32(r, 432) == f['rba'], 'zero-at-436': le32(r, 436) == 0, 'id-at-440': le32(r, 440) == f['mbr_id'],
              'zero-at-444': And(r[444] == 0, r[445] == 0), 'signature-55aa': And(r[510] == 0x55, r[511] == 0xAA)}
        act = []
        for i in range(1, 5):
            o = 446 + 16 * (i - 1)
            is_act = f['part_entry'] == i
            act.append(If(r[o] == 0x80, 1, 0))
            entry_ok = And(r[o] == 0x80, r[o + 1] == f['bhead'], r[o + 2] == f['bsect'], r[o + 3] == f['bcyle'], r[o + 4] == f['ptype'],
                           r[o + 5] == f['ehead'], le32(r, o + 8) == f['part_offset'],
                           # the partition covers exactly the cylinder-padded image
                           (le32(r, o + 8) + le32(r, o + 12)) * 512 == a.size + a.pad)
            cl['entry%d' % i] = Implies(is_act, entry_ok)
            if i == 2 and self.efi:
                cl['efi-entry'] = And(Eq(r[o:o + 8], b'\x00\xfe\xff\xff\xef\xfe\xff\xff'), le32(r, o + 8) == 4 * f['efi_lba'], le32(r, o + 12) == f['efi_count'])
            elif i == 3 and self.mac:
                cl['mac-entry'] = And(Eq(r[o:o + 8], b'\x00\xfe\xff\xff\x00\xfe\xff\xff'), le32(r, o + 8) == 4 * f['mac_lba'], le32(r, o + 12) == f['mac_count'])
            else:
                cl['entry%d-else-zero' % i] = Implies(Not(is_act), Eq(r[o:o + 16], b'\x00' * 16))
        cl['exactly-one-active'] = sx.Sum(act) == 1
        return cl


def gpt_record_hook(it, fv, args, kwargs):
    """callee contract of GPT.record used by IsoHybrid.record: an opaque byte string (its own contract is GPTRecord*)"""
    return b'GPT!'


RecordMBR.hooks = {'pycdlib.isohybrid.GPT.record': gpt_record_hook}
RecordMBR.real_hooks = {'pycdlib.isohybrid.GPT.record': lambda self: b'GPT!'}


@contract
class RecordPadding(Base):
    """C12/pad: record_padding(size) is exactly pad zero bytes, so the final image is a whole number of cylinders"""
    target = IH + '.record_padding'
    heads = 64
    sectors = 32
    efi = False

    def setup(self, c):
        a = c.a
        a.size = c.int('iso_size', 0, 1 << 22)
        a.self = c.obj(IH, _initialized=True, geometry_heads=self.heads, geometry_sectors=self.sectors, efi=self.efi)
        a.cyl = self.heads * self.sectors * 512
        a.ncyl, a.pad = spec_padding(c, a.size, a.cyl, self.efi)
        return Call([a.size], self_obj=a.self)

    def post(self, c, a, out):
        r = out.result
        return {'length-is-pad': sx.Len(r) == a.pad, 'zeros': sx.AllBytes(r, 0)}


@contract
class UpdateRba(Base):
    """C12/rba: the MBR boot-file address is four times the boot file's 2048-byte sector"""
    target = IH + '.update_rba'

    def setup(self, c):
        a = c.a
        a.self = c.obj(IH, _initialized=True, rba=c.int('old_rba'))
        a.e = c.int('extent', 0, 1 << 30)
        return Call([a.e], self_obj=a.self)

    def post(self, c, a, out):
        return {'rba-is-4x-sector': a.self.rba == 4 * a.e}


@contract
class IsoHybridNew(Base):
    """HYB-INV is established by new(): every field record() packs fits its on-disc field, the active entry is 1..4
    (and not one that EFI/Mac data replaces); otherwise the call is refused with InvalidInput."""
    target = IH + '.new'
    covers = ('return', 'raise:PyCdlibInvalidInput')
    efi = False
    mac = False
    hooks = {}

    def setup(self, c):
        a = c.a
        a.self = c.new(IH)
        a.part_entry = c.int('part_entry')
        a.mbr_id = c.int('mbr_id')
        a.part_offset = c.int('part_offset')
        a.sectors = c.int('sectors')
        a.heads = c.int('heads')
        a.part_type = c.int('part_type')
        # precondition (established by PyCdlib.add_isohybrid, see AddIsoHybrid): the values fit their on-disc fields
        c.assume(And(a.part_entry >= 1, a.part_entry <= 4, a.part_type >= 0, a.part_type <= 255, a.part_offset >= 0,
                     a.part_offset < (1 << 32), a.mbr_id >= 0, a.mbr_id < (1 << 32)))
        return Call([self.efi, self.mac, a.part_entry, a.mbr_id, a.part_offset, a.sectors, a.heads, a.part_type], self_obj=a.self)

    def legal(self, a):
        return And(a.sectors >= 1, a.sectors <= 63, a.heads >= 1, a.heads <= 256, Implies(self.mac, a.part_type == 0))

    def raises(self, c, a):
        return {'PyCdlibInvalidInput': Not(self.legal(a))}

    def post(self, c, a, out):
        s = a.self
        return {'inv-bytes': And(s.bhead >= 0, s.bhead <= 255, s.bsect >= 0, s.bsect <= 255, s.bcyle >= 0, s.bcyle <= 255,
                                 s.ehead == a.heads - 1, s.ptype == a.part_type, s.part_offset == a.part_offset,
                                 s.part_entry == a.part_entry, s.mbr_id == a.mbr_id, s.rba == 0,
                                 s.geometry_heads == a.heads, s.geometry_sectors == a.sectors),
                'chs-start': And(s.bhead == (a.part_offset // a.sectors) % a.heads if not c.symbolic else True),
                'initialized': Eq(s._initialized, True)}


def gpt_new_hook(it, fv, args, kwargs):
    args[0].fields['_initialized'] = True
    return None


IsoHybridNew.hooks = {'pycdlib.isohybrid.GPT.new': gpt_new_hook}


def real_gpt_new(self, mac):
    self._initialized = True


IsoHybridNew.real_hooks = {'pycdlib.isohybrid.GPT.new': real_gpt_new}


def boot_image_obj(c, signature_ok=True, n_efi=0):
    """PyCdlib object with an El Torito catalog whose initial entry points at an external boot file and which has n_efi further
    entries in an EFI section"""
    data = bytearray(b'\x00' * 0x40 + (b'\xfb\xc0\x78\x70' if signature_ok else b'\x00\x00\x00\x00') + b'\x00' * 60)
    fp = c.file(bytes(data))
    ino = c.obj('pycdlib.inode.Inode', _initialized=True, manage_fp=False, data_fp=fp, original_data_location=2, fp_offset=0,
                data_length=len(data), linked_records=[], boot_info_table=None, new_extent_loc=-1, num_udf=0)
    entry = c.obj('pycdlib.eltorito.EltoritoEntry', _initialized=True, sector_count=4, inode=ino)
    val = c.obj('pycdlib.eltorito.EltoritoValidationEntry', _initialized=True, platform_id=0)
    sections = []
    if n_efi:
        efi_entries = [c.obj('pycdlib.eltorito.EltoritoEntry', _initialized=True, sector_count=1, inode=None) for _ in range(n_efi)]
        sections.append(c.obj('pycdlib.eltorito.EltoritoSectionHeader', _initialized=True, platform_id=0xef, section_entries=efi_entries))
    cat = c.obj('pycdlib.eltorito.EltoritoBootCatalog', _initialized=True, initial_entry=entry, validation_entry=val, sections=sections)
    return c.obj('pycdlib.pycdlib.PyCdlib', _initialized=True, eltorito_boot_catalog=cat, logical_block_size=2048, isohybrid_mbr=None,
                 _needs_reshuffle=False, _always_consistent=False, pvds=[], joliet_vd=None, enhanced_vd=None, udf_root=None)


@contract
class AddIsoHybrid(Base):
    """C12/C13-style refusal at the time of the edit: add_isohybrid accepts exactly the parameter sets that can be recorded
    (HYB-INV) and afterwards holds an initialised IsoHybrid with those parameters; otherwise InvalidInput."""
    target = 'pycdlib.pycdlib.PyCdlib.add_isohybrid'
    covers = ('return', 'raise:PyCdlibInvalidInput')
    efi = False
    mac = False
    n_efi = None        # EFI boot images in the boot catalog (default: as many as the request needs)
    hooks = {'pycdlib.isohybrid.GPT.new': gpt_new_hook}
    real_hooks = {'pycdlib.isohybrid.GPT.new': lambda self, mac: setattr(self, '_initialized', True)}

    def images(self):
        return self.n_efi if self.n_efi is not None else (2 if self.mac else 1 if self.efi else 0)

    def expected_covers(self):
        if ((self.efi or self.mac) and self.images() < 1) or (self.mac and self.images() < 2):
            return ('raise:PyCdlibInvalidInput',)
        return self.covers

    def setup(self, c):
        a = c.a
        a.self = boot_image_obj(c, n_efi=self.images())
        a.part_entry = c.int('part_entry')
        a.mbr_id = c.int('mbr_id')
        a.part_offset = c.int('part_offset')
        a.sectors = c.int('sectors')
        a.heads = c.int('heads')
        a.part_type = c.int('part_type')
        return Call([], dict(part_entry=a.part_entry, mbr_id=a.mbr_id, part_offset=a.part_offset, geometry_sectors=a.sectors,
                             geometry_heads=a.heads, part_type=a.part_type, mac=self.mac, efi=self.efi), self_obj=a.self)

    def legal(self, a):
        efi = self.efi or self.mac
        return And(a.sectors >= 1, a.sectors <= 63, a.heads >= 1, a.heads <= 256, Implies(self.mac, a.part_type == 0),
                   a.part_entry >= 1, a.part_entry <= 4, a.part_type >= 0, a.part_type <= 255,
                   a.part_offset >= 0, a.part_offset < (1 << 32), a.mbr_id >= 0, a.mbr_id < (1 << 32),
                   Implies(efi, a.part_entry != 2), Implies(self.mac, a.part_entry != 3))

    def raises(self, c, a):
        if self.mac and self.efi is False:
            return {'PyCdlibInvalidInput': True}
        # the GPT partitions describe EFI boot images of the catalog: one for EFI, two with Mac support (K66)
        if ((self.efi or self.mac) and self.images() < 1) or (self.mac and self.images() < 2):
            return {'PyCdlibInvalidInput': True}
        return {'PyCdlibInvalidInput': Not(self.legal(a))}

    def post(self, c, a, out):
        s = a.self.isohybrid_mbr
        if s is None:
            return {'hybrid-present': False}
        return {'hybrid-present': True,
                'inv-bytes': And(s.bhead >= 0, s.bhead <= 255, s.bsect >= 0, s.bsect <= 255, s.bcyle >= 0, s.bcyle <= 255,
                                 s.ehead == a.heads - 1, s.ptype == a.part_type, s.part_offset == a.part_offset,
                                 s.part_entry == a.part_entry, s.mbr_id == a.mbr_id, s.rba == 0,
                                 s.geometry_heads == a.heads, s.geometry_sectors == a.sectors),
                'initialized': Eq(s._initialized, True),
                'layout-metadata-marked-stale': Eq(a.self._needs_reshuffle, True)}


@contract
class AddIsoHybridMacWithoutEfi(AddIsoHybrid):
    """mac=True with efi=False is always refused"""
    covers = ('raise:PyCdlibInvalidInput',)
    efi = False
    mac = True


# ---------------------------------------------------------------------------------------------
# GPT / EFI / Mac
# ---------------------------------------------------------------------------------------------
GPTP = 'pycdlib.isohybrid.GPTPartHeader'
GPTH = 'pycdlib.isohybrid.GPTHeader'
GPTC = 'pycdlib.isohybrid.GPT'


def gpt_obj(c, prefix, is_primary, nparts):
    hdr = c.obj(GPTH, _initialized=True, current_lba=c.int(prefix + 'cur', 0, 1 << 40), backup_lba=c.int(prefix + 'bak', 0, 1 << 40),
                first_usable_lba=34, last_usable_lba=c.int(prefix + 'last', 0, 1 << 40), partition_entries_lba=c.int(prefix + 'pel', 0, 1 << 40),
                num_parts=128, size_of_partition_entries=128)
    parts = [c.obj(GPTP, _initialized=True, first_lba=c.int('%sp%d_first' % (prefix, i), 0, 1 << 40), last_lba=c.int('%sp%d_last' % (prefix, i), 0, 1 << 40))
             for i in range(nparts)]
    return c.obj(GPTC, _initialized=True, is_primary=is_primary, header=hdr, parts=parts, apm_parts=[])


@contract
class UpdateEfi(Base):
    """C12/efi: after update_efi(extent, count, size): MBR EFI entry = (extent, count); in BOTH GPTs partition 1 covers the ISO
    [0, size/512-1], partition 2 delimits exactly the El Torito EFI image [4*extent, 4*extent+count-1]; the headers mirror each other
    (primary at LBA 1, backup at the last 512-byte sector of the cylinder-padded image) and agree on the last usable LBA."""
    target = IH + '.update_efi'
    heads = 64
    sectors = 32
    mac = False

    def setup(self, c):
        a = c.a
        a.cyl = self.heads * self.sectors * 512
        a.size = c.int('iso_size', 2048 * 64, MAX_ISO // 4)
        k = c.int('iso_sectors', 64, MAX_ISO // 2048)
        c.assume(a.size == 2048 * k)
        a.extent = c.int('extent', 0, 1 << 30)
        a.count = c.int('count', 0, 65535)
        n = 3 if self.mac else 2
        a.pg = gpt_obj(c, 'p_', True, n)
        a.sg = gpt_obj(c, 's_', False, n)
        a.self = c.obj(IH, _initialized=True, efi=True, mac=self.mac, geometry_heads=self.heads, geometry_sectors=self.sectors,
                       primary_gpt=a.pg, secondary_gpt=a.sg, efi_lba=0, efi_count=0)
        a.ncyl, a.pad = spec_padding(c, a.size, a.cyl, True)
        a.total512 = c.divmod(a.size + a.pad, 512)[0]   # 512-byte sectors of the cylinder-padded image
        a.iso512 = 4 * k                                   # 512-byte sectors of the ISO itself
        return Call([a.extent, a.count, a.size], self_obj=a.self)

    def post(self, c, a, out):
        s = a.self
        last = a.total512 - 1
        cl = {'mbr-efi-entry': And(s.efi_lba == a.extent, s.efi_count == a.count)}
        for name, g in (('primary', s.primary_gpt), ('backup', s.secondary_gpt)):
            cl[name + '-part1-covers-iso'] = g.parts[0].last_lba == a.iso512 - 1
            cl[name + '-part2-is-efi-image'] = And(g.parts[1].first_lba == 4 * a.extent, g.parts[1].last_lba == 4 * a.extent + a.count - 1)
            cl[name + '-last-usable'] = g.header.last_usable_lba == a.total512 - 34
        cl['headers-mirror'] = And(s.primary_gpt.header.current_lba == 1, s.primary_gpt.header.backup_lba == last,
                                   s.secondary_gpt.header.current_lba == last, s.secondary_gpt.header.backup_lba == 1)
        cl['backup-entries-before-backup-header'] = s.secondary_gpt.header.partition_entries_lba == last - 32
        return cl


@contract
class UpdateMac(Base):
    """C12/mac: update_mac(extent, count): MBR Mac entry = (extent, count) and partition 3 of BOTH GPTs delimits exactly the
    second EFI (Mac) image [4*extent, 4*extent+count-1] - the backup must mirror the primary."""
    target = IH + '.update_mac'

    def setup(self, c):
        a = c.a
        a.extent = c.int('extent', 0, 1 << 30)
        a.count = c.int('count', 0, 65535)
        a.pg = gpt_obj(c, 'p_', True, 3)
        a.sg = gpt_obj(c, 's_', False, 3)
        a.self = c.obj(IH, _initialized=True, efi=True, mac=True, primary_gpt=a.pg, secondary_gpt=a.sg, mac_lba=0, mac_count=0)
        return Call([a.extent, a.count], self_obj=a.self)

    def post(self, c, a, out):
        s = a.self
        cl = {'mbr-mac-entry': And(s.mac_lba == a.extent, s.mac_count == a.count)}
        for name, g in (('primary', s.primary_gpt), ('backup', s.secondary_gpt)):
            cl[name + '-part3-is-mac-image'] = And(g.parts[2].first_lba == 4 * a.extent, g.parts[2].last_lba == 4 * a.extent + a.count - 1)
        return cl


@contract
class ReshuffleEltoritoEntry(Base):
    """C12/efi-mac + C11/pointer (fragment of PyCdlib._reshuffle_extents: body of `for enc in enc_to_update`, free variables as
    parameters): the hybrid structures receive the sector count OF THE ENTRY BEING PLACED, and the MBR boot address is set from
    the platform-0 entry."""
    target = 'pycdlib.pycdlib.PyCdlib._reshuffle_extents'
    label = 'pycdlib.PyCdlib._reshuffle_extents<for enc in enc_to_update>'
    platform = 0xef
    seen = 0

    def setup(self, c):
        a = c.a
        a.extent = c.int('current_extent', 32, 1 << 28)
        a.count = c.int('this_entry_sectors', 1, 65535)
        a.other = c.int('other_entry_sectors', 1, 65535)
        a.space = c.int('space_size', 64, 1 << 28)
        a.size = 2048 * a.space
        a.pg = gpt_obj(c, 'p_', True, 3)
        a.sg = gpt_obj(c, 's_', False, 3)
        a.hyb = c.obj(IH, _initialized=True, efi=True, mac=True, geometry_heads=64, geometry_sectors=32, primary_gpt=a.pg, secondary_gpt=a.sg,
                      efi_lba=c.int('old_efi_lba', 0, 1 << 28), efi_count=c.int('old_efi_count', 0, 65535), mac_lba=c.int('old_mac_lba', 0, 1 << 28),
                      mac_count=c.int('old_mac_count', 0, 65535), rba=c.int('old_rba', 0, (1 << 32) - 1))
        ino = c.obj('pycdlib.inode.Inode', _initialized=True, linked_records=[], data_length=2048, new_extent_loc=-1, num_udf=0)
        a.this_entry = c.obj('pycdlib.eltorito.EltoritoEntry', _initialized=True, sector_count=a.count, inode=ino, load_rba=0)
        a.other_entry = c.obj('pycdlib.eltorito.EltoritoEntry', _initialized=True, sector_count=a.other, inode=ino, load_rba=0)
        pvd = c.obj('pycdlib.headervd.PrimaryOrSupplementaryVD', _initialized=True, space_size=a.space)
        a.self = c.obj('pycdlib.pycdlib.PyCdlib', _initialized=True, isohybrid_mbr=a.hyb, pvd=pvd, logical_block_size=2048, _has_udf=False, udf_anchors=[])
        if c.symbolic:
            enc = c.obj('pycdlib.inode.Inode')  # any attribute bag
            enc.fields.clear()
            enc.fields.update(entry=a.this_entry, platform_id=self.platform, name=b'BOOT.;1')
        else:
            class Enc:
                pass
            enc = Enc()
            enc.entry, enc.platform_id, enc.name = a.this_entry, self.platform, b'BOOT.;1'
        # `entry` is whatever the enclosing function last bound: the contract must hold for any other entry
        env = dict(self=a.self, enc=enc, entry=a.other_entry, current_extent=a.extent, part_start=0, linked_inodes=set(),
                   num_seen_efi=self.seen)
        return Call([], fn=Fragment(self.target, {'for_iter': 'enc_to_update'}, env))

    def post(self, c, a, out):
        h = a.hyb
        cl = {'entry-placed-at-current-extent': a.this_entry.load_rba == a.extent}
        if self.platform == 0xef and self.seen == 0:
            cl['efi-gets-this-entry-count'] = And(h.efi_lba == a.extent, h.efi_count == a.count,
                                                  h.primary_gpt.parts[1].last_lba == 4 * a.extent + a.count - 1)
        elif self.platform == 0xef and self.seen == 1:
            cl['mac-gets-this-entry-count'] = And(h.mac_lba == a.extent, h.mac_count == a.count,
                                                  h.primary_gpt.parts[2].last_lba == 4 * a.extent + a.count - 1)
        elif self.platform == 0:
            cl['rba-is-4x-boot-sector'] = h.rba == 4 * a.extent
        return cl


def _obs_reshuffle(self, c, a, out):
    h = a.hyb
    return {'kind': out.kind, 'exc': out.exc, 'efi': [h.efi_lba, h.efi_count], 'mac': [h.mac_lba, h.mac_count], 'rba': h.rba,
            'load_rba': a.this_entry.load_rba, 'p1': [h.primary_gpt.parts[1].first_lba, h.primary_gpt.parts[1].last_lba],
            'p2': [h.primary_gpt.parts[2].first_lba, h.primary_gpt.parts[2].last_lba]}


ReshuffleEltoritoEntry.observe = _obs_reshuffle


# ---------------------------------------------------------------------------------------------
# CRC-32
# ---------------------------------------------------------------------------------------------
def crc32_step_spec(crc, x):
    """one byte of the reflected CRC-32 (polynomial 0xEDB88320), bit by bit - ITU-T V.42 / IEEE 802.3, no table"""
    c = crc ^ x
    for _ in range(8):
        c = If((c & 1) != 0, sx.LShR(c, 1) ^ 0xEDB88320, sx.LShR(c, 1))
    return c


def crc32_spec(data):
    crc = 0xffffffff
    for x in data:
        crc = crc32_step_spec(crc, x)
    return crc ^ 0xffffffff


@contract
class Crc32Step(Base):
    """C12/crc step lemma: for EVERY 32-bit state and byte, the table-driven loop body of isohybrid.crc32 equals the bit-wise
    CRC-32 step.  With crc32(b'') = 0 (Crc32Whole) this gives crc32 = CRC-32 for every input length by induction on the loop."""
    target = 'pycdlib.isohybrid.crc32'
    label = 'isohybrid.crc32<loop body>'

    def setup(self, c):
        a = c.a
        a.crc = c.bv('crc', 32)
        a.x = c.bv('x', 8)
        return Call([], fn=Fragment(self.target, {'for_target': 'x'}, dict(crc=a.crc, x=a.x)))

    def post(self, c, a, out):
        return {'table-step-equals-bitwise-step': Eq(out.result['crc'], crc32_step_spec(a.crc, a.x))}

    def observe(self, c, a, out):
        return {'kind': out.kind, 'crc': out.result['crc'] if out.kind == 'return' else None}


@contract
class Crc32Whole(Base):
    """init/finalisation of crc32 and agreement with the specification on symbolic strings of a fixed length n"""
    target = 'pycdlib.isohybrid.crc32'
    n = 0

    def setup(self, c):
        a = c.a
        a.items = [c.bv('d%d' % i, 8) for i in range(self.n)]
        a.data = V.mk_bytes(a.items)
        return Call([a.data])

    def post(self, c, a, out):
        return {'equals-crc32-spec': Eq(out.result, crc32_spec(a.items))}


def crc32_hook(it, fv, args, kwargs):
    """callee contract of isohybrid.crc32 at its call sites: a pure function of its argument with a 32-bit result
    (what it computes is Crc32Step/Crc32Whole's business).  Calls are recorded so that callers' post-conditions can say
    WHICH bytes were checksummed."""
    data = args[0]
    items = V.items_of(data)
    key = tuple(x.get_id() if sx.is_sym(x) else ('c', x) for x in items)
    calls = it.ctx.ghost.setdefault('crc_calls', {})
    if key not in calls:
        calls[key] = (items, it.ctx.fresh_int('crc32', 0, (1 << 32) - 1))
    return calls[key][1]


def crc_of(c, items):
    """CRC-32 of a byte list: the recorded callee result (symbolic) or zlib.crc32 (concrete replay)"""
    if not c.symbolic or all(not sx.is_sym(x) for x in items) and not getattr(c, 'p', None):
        import zlib
        return zlib.crc32(bytes(items)) & 0xffffffff
    calls = c.p.ghost.get('crc_calls', {})
    key = tuple(x.get_id() if sx.is_sym(x) else ('c', x) for x in items)
    if key in calls:
        return calls[key][1]
    # same length call with provably equal bytes
    for k, (its, h) in calls.items():
        if len(its) == len(items):
            return If(And(*[Eq(p, q) for p, q in zip(its, items)]), h, -1)
    return -1  # nobody checksummed these bytes


class GPTBase(Base):
    mac = False
    hooks = {'pycdlib.isohybrid.crc32': crc32_hook}

    def make_gpt(self, c, is_primary, prefix):
        g = c.new(GPTC, is_primary)
        c.call(GPTC + '.new', g, self.mac)
        h = g.header
        h.current_lba = c.int(prefix + 'cur', 0, (1 << 40))
        h.backup_lba = c.int(prefix + 'bak', 0, (1 << 40))
        h.last_usable_lba = c.int(prefix + 'last', 0, (1 << 40))
        if not is_primary:
            h.partition_entries_lba = c.int(prefix + 'pel', 0, (1 << 40))
        for i, p in enumerate(g.parts):
            p.first_lba = c.int('%sp%d_first' % (prefix, i), 0, 1 << 40)
            p.last_lba = c.int('%sp%d_last' % (prefix, i), 0, 1 << 40)
        return g

    def header_clauses(self, c, hdr, array, g, tag):
        it = V.items_of(hdr)
        zeroed = it[:16] + [0, 0, 0, 0] + it[20:92]
        h = g.header
        le64 = lambda o: sx.le_int(it[o:o + 8])  # noqa
        return {
            tag + 'signature-revision-size': Eq(V.mk_bytes(it[:16]), b'EFI PART\x00\x00\x01\x00\x5c\x00\x00\x00'),
            tag + 'header-crc-valid': le32(it, 16) == crc_of(c, zeroed),
            tag + 'array-crc-covers-declared-array': And(le32(it, 80) == 128, le32(it, 84) == 128, le32(it, 88) == crc_of(c, V.items_of(array))),
            tag + 'lbas': And(le64(24) == h.current_lba, le64(32) == h.backup_lba, le64(40) == h.first_usable_lba, le64(48) == h.last_usable_lba,
                              le64(72) == h.partition_entries_lba),
            tag + 'reserved-zero': And(le32(it, 20) == 0, Eq(V.mk_bytes(it[92:512]), b'\x00' * 420)),
        }

    def array_clauses(self, c, array, g, tag):
        it = V.items_of(array)
        cl = {}
        for i, p in enumerate(g.parts):
            o = 128 * i
            cl['%spart%d-lbas' % (tag, i + 1)] = And(sx.le_int(it[o + 32:o + 40]) == p.first_lba, sx.le_int(it[o + 40:o + 48]) == p.last_lba)
        n = len(g.parts)
        cl[tag + 'unused-entries-zero'] = Eq(V.mk_bytes(it[128 * n:]), b'\x00' * (16384 - 128 * n))
        return cl


@contract
class GPTRecordPrimary(GPTBase):
    """C12/crc: primary GPT = header sector (valid header CRC, partition-array CRC over the 128x128-byte array it declares)
    followed by the array; every partition entry carries its LBAs."""
    target = GPTC + '.record'
    label = 'isohybrid.GPT.record<primary>'
    crosscheck = False

    def setup(self, c):
        a = c.a
        a.g = self.make_gpt(c, True, 'p_')
        return Call([], self_obj=a.g)

    def post(self, c, a, out):
        r = out.result
        n = 512 + 16384 + (((3 * 4 + 2) * 512) if self.mac else 0)  # header, [APM hole: 14 sectors], array
        if len(r) != n:
            return {'length': False}
        hdr = r[0:512]
        array = r[len(r) - 16384:]
        cl = {'length': True}
        cl.update(self.header_clauses(c, hdr, array, a.g, ''))
        cl.update(self.array_clauses(c, array, a.g, ''))
        return cl


@contract
class GPTRecordSecondary(GPTBase):
    """backup GPT = the 128x128-byte array followed by the header sector"""
    target = GPTC + '.record'
    label = 'isohybrid.GPT.record<backup>'
    crosscheck = False

    def setup(self, c):
        a = c.a
        a.g = self.make_gpt(c, False, 's_')
        return Call([], self_obj=a.g)

    def post(self, c, a, out):
        r = out.result
        if len(r) != 512 + 16384:
            return {'length': False}
        array = r[0:16384]
        hdr = r[16384:]
        cl = {'length': True}
        cl.update(self.header_clauses(c, hdr, array, a.g, ''))
        cl.update(self.array_clauses(c, array, a.g, ''))
        return cl


@contract
class IsoHybridRoundTrip(Base):
    """C05/RT for the hybrid MBR: parse(record(size)) recovers the state that record() wrote - in particular the geometry (heads,
    sectors per track) that decides how the image is padded when it is mastered again -, for every geometry, partition offset and
    image size, also beyond 256 and 1024 cylinders"""
    target = IH + '.parse'
    heads = 64
    sectors = 32
    label = 'isohybrid.IsoHybrid.parse+record'

    def setup(self, c):
        a = c.a
        src = hyb_obj(c, geom=(self.heads, self.sectors))
        a.size = c.int('iso_size', 2048, MAX_ISO)
        if c.symbolic:
            k = c.int('iso_sectors', 1, MAX_ISO // 2048)
            c.assume(a.size == 2048 * k)
        else:
            c.assume(a.size % 2048 == 0)
        c.assume(a.f['part_offset'] * 512 <= a.size)
        ncyl, pad = spec_padding(c, a.size, a.cyl)
        c.assume(a.size + pad <= ((1 << 32) - 1) * 512)
        a.b = c.call(IH + '.record', src, a.size)
        a.src = src
        a.self = c.new(IH)
        return Call([a.b], self_obj=a.self)

    def post(self, c, a, out):
        s, f = a.self, a.f
        return {'recognised': Eq(out.result, True),
                'geometry-recovered': And(s.geometry_heads == self.heads, s.geometry_sectors == self.sectors),
                'fields-recovered': And(s.part_entry == f['part_entry'], s.part_offset == f['part_offset'], s.ptype == f['ptype'], s.rba == f['rba'],
                                        s.mbr_id == f['mbr_id'], s.bhead == f['bhead'], s.bsect == f['bsect'], s.bcyle == f['bcyle'], s.ehead == f['ehead'])}

    def observe(self, c, a, out):
        return {'kind': out.kind, 'exc': out.exc, 'geom': [a.self.geometry_heads, a.self.geometry_sectors] if out.kind == 'return' else None}
