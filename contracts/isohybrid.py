"""Contracts for pycdlib/isohybrid.py (C12, C05)."""
from pyvc import sx
from pyvc import values as V
from pyvc.sx import And, Or, Not, Implies, If, Eq
from pyvc.contract import contract, Call, Fragment
from contracts.utils import Base

IH = 'pycdlib.isohybrid.IsoHybrid'
MAX_ISO = (1 << 41)  # 2 TiB: sector counts in the MBR are 32-bit


def geometry(c):
    a = c.a
    a.heads = c.int('heads', 1, 256)
    a.sectors = c.int('sectors', 1, 63)
    a.cyl = a.heads * a.sectors * 512


def spec_padding(c, iso_size, cyl):
    """(number of whole cylinders of the padded image, padding) from the statement:
    'the image is padded to a whole number of cylinders'"""
    q, r = c.divmod(iso_size, cyl)
    pad = If(r == 0, 0, cyl - r)
    ncyl = If(r == 0, q, q + 1)
    return ncyl, pad


def hyb_obj(c, efi=False, mac=False, geom=None, **over):
    """an initialised IsoHybrid satisfying HYB-INV (what new() establishes)"""
    a = c.a
    if geom is None:
        geometry(c)
    else:
        a.heads, a.sectors = geom
        a.cyl = a.heads * a.sectors * 512
    f = dict(_initialized=True, efi=efi, mac=mac, geometry_heads=a.heads, geometry_sectors=a.sectors,
             part_entry=c.int('part_entry', 1, 4), part_offset=c.int('part_offset', 0, (1 << 32) - 1), ptype=c.int('ptype', 0, 255),
             mbr_id=c.int('mbr_id', 0, (1 << 32) - 1), rba=c.int('rba', 0, (1 << 32) - 1), bhead=c.int('bhead', 0, 255),
             bsect=c.int('bsect', 0, 255), bcyle=c.int('bcyle', 0, 255), ehead=a.heads - 1,
             mbr=c.bytes('mbr', 400), header=(b'\x45\x52\x08\x00\x00\x00\x90\x90' + b'\x00' * 24) if mac else (b'\x33\xed' + b'\x90' * 30))
    if efi:
        f['efi_lba'] = c.int('efi_lba', 0, (1 << 30) - 1)
        f['efi_count'] = c.int('efi_count', 0, (1 << 32) - 1)
    if mac:
        f['mac_lba'] = c.int('mac_lba', 0, (1 << 30) - 1)
        f['mac_count'] = c.int('mac_count', 0, (1 << 32) - 1)
    f.update(over)
    a.f = f
    a.self = c.obj(IH, **f)
    return a.self


@contract
class CalcCC(Base):
    """C12/cc: 0 <= pad < cyl, size+pad is a whole number of cylinders, cc = min(that number, 1024)"""
    target = IH + '._calc_cc'

    def setup(self, c):
        a = c.a
        geometry(c)
        a.size = c.int('iso_size', 0, MAX_ISO)
        a.self = c.obj(IH, geometry_heads=a.heads, geometry_sectors=a.sectors)
        a.ncyl, a.pad = spec_padding(c, a.size, a.cyl)
        return Call([a.size], self_obj=a.self)

    def post(self, c, a, out):
        cc, pad = out.result
        return {'padding': pad == a.pad, 'cylinders-capped-1024': cc == sx.Min(a.ncyl, 1024),
                'pad-range': And(pad >= 0, pad < a.cyl)}


def le32(r, o):
    return r[o] + 256 * r[o + 1] + 65536 * r[o + 2] + 16777216 * r[o + 3]


@contract
class RecordMBR(Base):
    """C12/mbr: record(size) is a 512-byte MBR: header, boot code, rba at 432, id at 440, 0x55AA at 510, exactly one active
    partition entry (the requested one) whose start+size covers the cylinder-padded image; EFI/Mac entries 2/3 when requested."""
    target = IH + '.record'
    efi = False
    mac = False
    heads = 64
    sectors = 32
    hooks = {}

    def setup(self, c):
        a = c.a
        s = hyb_obj(c, efi=self.efi, mac=self.mac, geom=(self.heads, self.sectors))
        a.size = c.int('iso_size', 2048, MAX_ISO)
        c.assume(a.size % 2048 == 0) if not c.symbolic else None
        if c.symbolic:
            k = c.int('iso_sectors', 1, MAX_ISO // 2048)
            c.assume(a.size == 2048 * k)
        # documented use: the partition starts inside the image
        c.assume(a.f['part_offset'] * 512 <= a.size)
        # statement-level invariant: the active entry must not be one that EFI/Mac overwrite
        if self.efi:
            c.assume(a.f['part_entry'] != 2)
        if self.mac:
            c.assume(a.f['part_entry'] != 3)
        a.ncyl, a.pad = spec_padding(c, a.size, a.cyl)
        # format limit: the padded image must be addressable with 32-bit 512-byte sector numbers
        c.assume(a.size + a.pad <= ((1 << 32) - 1) * 512)
        if self.efi:
            a.gpt = c.obj('pycdlib.isohybrid.GPT', _initialized=True)
            s.primary_gpt = a.gpt
        return Call([a.size], self_obj=s)

    def post(self, c, a, out):
        r, f = out.result, a.f
        if len(r) < 512:
            return {'length': False}
        e = 446
        cl = {'length-512': len(r) == (512 if not self.efi else 512 + 4),
              'header': Eq(r[0:32], f['header']), 'boot-code': Eq(r[32:432], f['mbr']),
              'rba-at-432': le32(r, 432) == f['rba'], 'zero-at-436': le32(r, 436) == 0, 'id-at-440': le32(r, 440) == f['mbr_id'],
              'zero-at-444': And(r[444] == 0, r[445] == 0), 'signature-55aa': And(r[510] == 0x55, r[511] == 0xAA)}
        act = []
        for i in range(1, 5):
            o = 446 + 16 * (i - 1)
            is_act = f['part_entry'] == i
            act.append(If(r[o] == 0x80, 1, 0))
            entry_ok = And(r[o] == 0x80, r[o + 1] == f['bhead'], r[o + 2] == f['bsect'], r[o + 3] == f['bcyle'], r[o + 4] == f['ptype'],
                           r[o + 5] == f['ehead'], le32(r, o + 8) == f['part_offset'],
                           # the partition covers exactly the cylinder-padded image
                           (le32(r, o + 8) + le32(r, o + 12)) * 512 == a.size + a.pad)
            cl['entry%d' % i] = Implies(is_act, entry_ok)
            if i == 2 and self.efi:
                cl['efi-entry'] = And(Eq(r[o:o + 8], b'\x00\xfe\xff\xff\xef\xfe\xff\xff'), le32(r, o + 8) == 4 * f['efi_lba'], le32(r, o + 12) == f['efi_count'])
            elif i == 3 and self.mac:
                cl['mac-entry'] = And(Eq(r[o:o + 8], b'\x00\xfe\xff\xff\x00\xfe\xff\xff'), le32(r, o + 8) == 4 * f['mac_lba'], le32(r, o + 12) == f['mac_count'])
            else:
                cl['entry%d-else-zero' % i] = Implies(Not(is_act), Eq(r[o:o + 16], b'\x00' * 16))
        cl['exactly-one-active'] = sx.Sum(act) == 1
        return cl


def gpt_record_hook(it, fv, args, kwargs):
    """callee contract of GPT.record used by IsoHybrid.record: an opaque byte string (its own contract is GPTRecord*)"""
    return b'GPT!'


RecordMBR.hooks = {'pycdlib.isohybrid.GPT.record': gpt_record_hook}
RecordMBR.real_hooks = {'pycdlib.isohybrid.GPT.record': lambda self: b'GPT!'}


@contract
class RecordPadding(Base):
    """C12/pad: record_padding(size) is exactly pad zero bytes, so the final image is a whole number of cylinders"""
    target = IH + '.record_padding'
    heads = 64
    sectors = 32

    def setup(self, c):
        a = c.a
        a.size = c.int('iso_size', 0, 1 << 22)
        a.self = c.obj(IH, _initialized=True, geometry_heads=self.heads, geometry_sectors=self.sectors)
        a.cyl = self.heads * self.sectors * 512
        a.ncyl, a.pad = spec_padding(c, a.size, a.cyl)
        return Call([a.size], self_obj=a.self)

    def post(self, c, a, out):
        r = out.result
        return {'length-is-pad': sx.Len(r) == a.pad, 'zeros': sx.AllBytes(r, 0)}


@contract
class UpdateRba(Base):
    """C12/rba: the MBR boot-file address is four times the boot file's 2048-byte sector"""
    target = IH + '.update_rba'

    def setup(self, c):
        a = c.a
        a.self = c.obj(IH, _initialized=True, rba=c.int('old_rba'))
        a.e = c.int('extent', 0, 1 << 30)
        return Call([a.e], self_obj=a.self)

    def post(self, c, a, out):
        return {'rba-is-4x-sector': a.self.rba == 4 * a.e}


@contract
class IsoHybridNew(Base):
    """HYB-INV is established by new(): every field record() packs fits its on-disc field, the active entry is 1..4
    (and not one that EFI/Mac data replaces); otherwise the call is refused with InvalidInput."""
    target = IH + '.new'
    covers = ('return', 'raise:PyCdlibInvalidInput')
    efi = False
    mac = False
    hooks = {}

    def setup(self, c):
        a = c.a
        a.self = c.new(IH)
        a.part_entry = c.int('part_entry')
        a.mbr_id = c.int('mbr_id')
        a.part_offset = c.int('part_offset')
        a.sectors = c.int('sectors')
        a.heads = c.int('heads')
        a.part_type = c.int('part_type')
        # precondition (established by PyCdlib.add_isohybrid, see AddIsoHybrid): the values fit their on-disc fields
        c.assume(And(a.part_entry >= 1, a.part_entry <= 4, a.part_type >= 0, a.part_type <= 255, a.part_offset >= 0,
                     a.part_offset < (1 << 32), a.mbr_id >= 0, a.mbr_id < (1 << 32)))
        return Call([self.efi, self.mac, a.part_entry, a.mbr_id, a.part_offset, a.sectors, a.heads, a.part_type], self_obj=a.self)

    def legal(self, a):
        return And(a.sectors >= 1, a.sectors <= 63, a.heads >= 1, a.heads <= 256, Implies(self.mac, a.part_type == 0))

    def raises(self, c, a):
        return {'PyCdlibInvalidInput': Not(self.legal(a))}

    def post(self, c, a, out):
        s = a.self
        return {'inv-bytes': And(s.bhead >= 0, s.bhead <= 255, s.bsect >= 0, s.bsect <= 255, s.bcyle >= 0, s.bcyle <= 255,
                                 s.ehead == a.heads - 1, s.ptype == a.part_type, s.part_offset == a.part_offset,
                                 s.part_entry == a.part_entry, s.mbr_id == a.mbr_id, s.rba == 0,
                                 s.geometry_heads == a.heads, s.geometry_sectors == a.sectors),
                'chs-start': And(s.bhead == (a.part_offset // a.sectors) % a.heads if not c.symbolic else True),
                'initialized': Eq(s._initialized, True)}


def gpt_new_hook(it, fv, args, kwargs):
    args[0].fields['_initialized'] = True
    return None


IsoHybridNew.hooks = {'pycdlib.isohybrid.GPT.new': gpt_new_hook}


def real_gpt_new(self, mac):
    self._initialized = True


IsoHybridNew.real_hooks = {'pycdlib.isohybrid.GPT.new': real_gpt_new}


def boot_image_obj(c, signature_ok=True):
    """PyCdlib object with an El Torito catalog whose initial entry points at an external boot file"""
    data = bytearray(b'\x00' * 0x40 + (b'\xfb\xc0\x78\x70' if signature_ok else b'\x00\x00\x00\x00') + b'\x00' * 60)
    fp = c.file(bytes(data))
    ino = c.obj('pycdlib.inode.Inode', _initialized=True, manage_fp=False, data_fp=fp, original_data_location=2, fp_offset=0,
                data_length=len(data), linked_records=[], boot_info_table=None, new_extent_loc=-1, num_udf=0)
    entry = c.obj('pycdlib.eltorito.EltoritoEntry', _initialized=True, sector_count=4, inode=ino)
    cat = c.obj('pycdlib.eltorito.EltoritoBootCatalog', _initialized=True, initial_entry=entry)
    return c.obj('pycdlib.pycdlib.PyCdlib', _initialized=True, eltorito_boot_catalog=cat, logical_block_size=2048, isohybrid_mbr=None,
                 _needs_reshuffle=False, _always_consistent=False)


@contract
class AddIsoHybrid(Base):
    """C12/C13-style refusal at the time of the edit: add_isohybrid accepts exactly the parameter sets that can be recorded
    (HYB-INV) and afterwards holds an initialised IsoHybrid with those parameters; otherwise InvalidInput."""
    target = 'pycdlib.pycdlib.PyCdlib.add_isohybrid'
    covers = ('return', 'raise:PyCdlibInvalidInput')
    efi = False
    mac = False
    hooks = {'pycdlib.isohybrid.GPT.new': gpt_new_hook}
    real_hooks = {'pycdlib.isohybrid.GPT.new': lambda self, mac: setattr(self, '_initialized', True)}

    def setup(self, c):
        a = c.a
        a.self = boot_image_obj(c)
        a.part_entry = c.int('part_entry')
        a.mbr_id = c.int('mbr_id')
        a.part_offset = c.int('part_offset')
        a.sectors = c.int('sectors')
        a.heads = c.int('heads')
        a.part_type = c.int('part_type')
        return Call([], dict(part_entry=a.part_entry, mbr_id=a.mbr_id, part_offset=a.part_offset, geometry_sectors=a.sectors,
                             geometry_heads=a.heads, part_type=a.part_type, mac=self.mac, efi=self.efi), self_obj=a.self)

    def legal(self, a):
        efi = self.efi or self.mac
        return And(a.sectors >= 1, a.sectors <= 63, a.heads >= 1, a.heads <= 256, Implies(self.mac, a.part_type == 0),
                   a.part_entry >= 1, a.part_entry <= 4, a.part_type >= 0, a.part_type <= 255,
                   a.part_offset >= 0, a.part_offset < (1 << 32), a.mbr_id >= 0, a.mbr_id < (1 << 32),
                   Implies(efi, a.part_entry != 2), Implies(self.mac, a.part_entry != 3))

    def raises(self, c, a):
        if self.mac and self.efi is False:
            return {'PyCdlibInvalidInput': True}
        return {'PyCdlibInvalidInput': Not(self.legal(a))}

    def post(self, c, a, out):
        s = a.self.isohybrid_mbr
        if s is None:
            return {'hybrid-present': False}
        return {'hybrid-present': True,
                'inv-bytes': And(s.bhead >= 0, s.bhead <= 255, s.bsect >= 0, s.bsect <= 255, s.bcyle >= 0, s.bcyle <= 255,
                                 s.ehead == a.heads - 1, s.ptype == a.part_type, s.part_offset == a.part_offset,
                                 s.part_entry == a.part_entry, s.mbr_id == a.mbr_id, s.rba == 0,
                                 s.geometry_heads == a.heads, s.geometry_sectors == a.sectors),
                'initialized': Eq(s._initialized, True)}


@contract
class AddIsoHybridMacWithoutEfi(AddIsoHybrid):
    """mac=True with efi=False is always refused"""
    covers = ('raise:PyCdlibInvalidInput',)
    efi = False
    mac = True
