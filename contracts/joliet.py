"""C09 at function level: the Joliet supplementary descriptor factory.  (Name conversion / the 64-unit rule: contracts/names.py
JolietName; layouts of descriptor, directory and path-table records are shared with ISO9660: contracts/headervd.py, dr.py.)"""
from pyvc import values as V
from pyvc.sx import And, Or, Not, Eq
from pyvc.contract import contract, Call
from contracts.utils import Base


@contract
class JolietFactory(Base):
    """joliet_vd_factory(level): levels 1/2/3 give a supplementary descriptor (type 2, version 1) whose escape sequence is
    %/@, %/C, %/E (zero padded to 32 bytes), encoded UTF-16BE, with the given block size and an empty tree (root record, 10-byte
    path table); any other level is refused with InvalidInput"""
    target = 'pycdlib.headervd.joliet_vd_factory'
    crosscheck = False

    def setup(self, c):
        a = c.a
        a.level = c.int('joliet', -2, 6)
        a.seq = c.int('seqnum', 0, 65535)
        a.set = c.int('set_size', 0, 65535)
        c.assume(a.seq <= a.set)
        return Call([a.level, b'SYS', b'VOL', a.set, a.seq, 2048, b'', b'', b'', b'', b'', b'', b'', 0.0, b'', False])

    def raises(self, c, a):
        return {'PyCdlibInvalidInput': Or(a.level < 1, a.level > 3)}

    def post(self, c, a, out):
        svd = out.result
        esc = svd.escape_sequences
        want = [(1, b'%/@'), (2, b'%/C'), (3, b'%/E')]
        return {'escape-sequence-of-the-level': Or(*[And(a.level == lv, Eq(esc, e.ljust(32, b'\x00'))) for lv, e in want]),
                'supplementary-type-version-1': And(svd._vd_type == 2, svd.version == 1, svd.file_structure_version == 1),
                'ucs2-big-endian': svd.encoding == 'utf-16_be',
                'block-size-and-set': And(svd.log_block_size == 2048, Eq(svd.seqnum, a.seq), Eq(svd.set_size, a.set)),
                'empty-tree': And(svd.path_tbl_size == 10, svd.root_dir_record is not None and svd.root_dir_record.isdir)}

    def observe(self, c, a, out):
        r = out.result
        return {'kind': out.kind, 'exc': out.exc, 'esc': bytes(r.escape_sequences) if out.kind == 'return' else None}
