"""C06 lazy metadata is transparent: scenario contracts (see contracts/scenario.py) - the same edits under different
recomputation schedules give byte-identical images, and record queries after force_consistency report what the next write records."""
from pyvc import sx
from pyvc import values as V
from pyvc.sx import And, Or, Not, Implies, If, Eq
from pyvc.contract import contract, Call
from contracts.utils import Base
from contracts import scenario as S

LONG = 'n' * 150          # a Rock Ridge name that needs a continuation area
LONG2 = 'm' * 151

# edit sequences: (image flavour keyword args, [(method, args, kwargs)])
SEQS = {
    'files-and-dirs': (dict(joliet=3), [
        ('add_fp', ['FILE:aaaa', 4], dict(iso_path='/A.;1', joliet_path='/a')),
        ('add_directory', [], dict(iso_path='/D', joliet_path='/d')),
        ('add_fp', ['FILE:bbbbbbbb', 8], dict(iso_path='/D/B.;1', joliet_path='/d/b')),
        ('rm_file', [], dict(iso_path='/A.;1')),
        ('add_fp', ['FILE:cc', 2], dict(iso_path='/C.;1', joliet_path='/c'))]),
    'hard-links': (dict(joliet=3), [
        ('add_fp', ['FILE:aaaa', 4], dict(iso_path='/A.;1', joliet_path='/a')),
        ('add_fp', ['FILE:zz', 2], dict(iso_path='/Z.;1', joliet_path='/z')),
        ('add_hard_link', [], dict(iso_old_path='/A.;1', iso_new_path='/L.;1')),
        ('rm_hard_link', [], dict(iso_path='/A.;1')),
        ('add_directory', [], dict(iso_path='/D', joliet_path='/d'))]),
    'rock-ridge-long-names': (dict(rock_ridge='1.09'), [
        ('add_directory', [], dict(iso_path='/D1', rr_name=LONG)),
        ('add_fp', ['FILE:aaaa', 4], dict(iso_path='/A.;1', rr_name='a')),
        ('rm_directory', [], dict(iso_path='/D1')),
        ('add_directory', [], dict(iso_path='/D2', rr_name=LONG2)),
        ('add_symlink', [], dict(symlink_path='/S.;1', rr_symlink_name='s', rr_path='a'))]),
    'eltorito': ({}, [
        ('add_fp', ['FILE:BOOT', len(S.BOOT)], dict(iso_path='/BOOT.;1')),
        ('add_eltorito', ['/BOOT.;1'], {}),
        ('add_directory', [], dict(iso_path='/D')),
        ('add_fp', ['FILE:cc', 2], dict(iso_path='/C.;1'))]),
    'hybrid': ({}, [
        ('add_fp', ['FILE:BOOT', len(S.BOOT)], dict(iso_path='/BOOT.;1')),
        ('add_eltorito', ['/BOOT.;1'], dict(boot_load_size=4)),
        ('add_isohybrid', [], dict(mbr_id=7)),
        ('add_directory', [], dict(iso_path='/D')),
        ('rm_isohybrid', [], {}),
        ('add_isohybrid', [], dict(mbr_id=9))]),
    'udf': (dict(udf='2.60'), [
        ('add_fp', ['FILE:aaaa', 4], dict(iso_path='/A.;1', udf_path='/a')),
        ('add_directory', [], dict(iso_path='/D', udf_path='/d')),
        ('rm_file', [], dict(iso_path='/A.;1', udf_path='/a'))]),
}

SCHEDULES = ['always-consistent', 'force-after-every-edit', 'query-after-every-edit', 'force-before-last-edit', 'write-in-the-middle', 'write-twice']


def random_seq(name):
    """'random:<flavour>:<seed>': a random edit history of contracts/fidelity.py as (image keyword arguments, operations)"""
    from contracts import fidelity as F
    kw, script = F.get_script(name)
    ops = []
    for op in script:
        if op[0] == 'file':
            k = dict(iso_path=op[1])
            if op[2] is not None:
                k['rr_name'] = op[2]
            if op[3] is not None:
                k['joliet_path'] = op[3]
            k.update(op[5] if len(op) > 5 else {})
            ops.append(('add_fp', ['FILE:' + ('%d' % len(ops)).ljust(op[4], 'x')[:op[4]], op[4]], k))
        elif op[0] == 'dir':
            k = dict(iso_path=op[1])
            if op[2] is not None:
                k['rr_name'] = op[2]
            if op[3] is not None:
                k['joliet_path'] = op[3]
            k.update(op[4] if len(op) > 4 else {})
            ops.append(('add_directory', [], k))
        elif op[0] == 'rm_file':
            ops.append(('rm_file', [], dict(dict(iso_path=op[1], **({'joliet_path': op[2]} if op[2] else {})), **({'udf_path': op[3]} if len(op) > 3 else {}))))
        elif op[0] == 'rm_dir':
            ops.append(('rm_directory', [], dict(dict(iso_path=op[1], **({'joliet_path': op[2]} if op[2] else {})), **({'udf_path': op[3]} if len(op) > 3 else {}))))
        elif op[0] == 'reopen':
            ops.append(('REOPEN', [], {}))
        elif op[0] == 'jfile':
            ops.append(('add_fp', ['FILE:' + ('%d' % len(ops)).ljust(op[2], 'x')[:op[2]], op[2]], dict(joliet_path=op[1])))
        elif op[0] == 'link':
            ops.append(('add_hard_link', [], dict(iso_old_path=op[1], iso_new_path=op[2], **({'rr_name': op[3]} if len(op) > 3 else {}))))
        elif op[0] == 'jlink':
            ops.append(('add_hard_link', [], dict(iso_old_path=op[1], joliet_new_path=op[2])))
        elif op[0] == 'rm_link':
            ops.append(('rm_hard_link', [], dict(iso_path=op[1])))
        elif op[0] == 'rm_jlink':
            ops.append(('rm_hard_link', [], dict(joliet_path=op[1])))
        elif op[0] == 'symlink':
            ops.append(('add_symlink', [], dict(dict(symlink_path=op[1], rr_symlink_name=op[2], rr_path=op[3]), **({'udf_symlink_path': op[4], 'udf_target': op[3]} if len(op) > 4 else {}))))
        elif op[0] == 'hide':
            ops.append(('set_hidden', [], dict(iso_path=op[1])))
    return kw, ops


def get_seq(name):
    return random_seq(name) if name.startswith('random:') else SEQS[name]


def apply_ops(c, iso, ops, schedule):
    """-> the object the last edit was made on (another one than `iso` when the history writes and opens the image on the way)"""
    n = len(ops)
    rnd = None
    if schedule.startswith('random:'):
        import random
        rnd = random.Random(schedule)
    for i, (method, args, kwargs) in enumerate(ops):
        if rnd is not None:
            # a random action before the edit: nothing, force, query, walk, write
            act = rnd.choice(['none', 'none', 'force', 'query', 'walk', 'write'])
            if act == 'force':
                S.call(c, iso, 'force_consistency')
            elif act == 'query':
                S.call(c, iso, 'get_record', iso_path='/')
            elif act == 'walk':
                for _ in S.call(c, iso, 'list_children', iso_path='/'):
                    pass
            elif act == 'write':
                S.written(c, iso)
        if schedule == 'force-before-last-edit' and i == n - 1:
            S.call(c, iso, 'force_consistency')
        if method == 'REOPEN':
            # write the image and go on with an object that OPENED it (created in the same mode)
            img = S.written(c, iso)
            iso = c.new(S.PC, always_consistent=True) if schedule == 'always-consistent' else c.new(S.PC)
            S.call(c, iso, 'open_fp', c.file(img))
            continue
        args = [S.data_file(c, (S.BOOT if x == 'FILE:BOOT' else x[5:].encode())) if isinstance(x, str) and x.startswith('FILE:') else x for x in args]
        S.call(c, iso, method, *args, **kwargs)
        if schedule == 'force-after-every-edit':
            S.call(c, iso, 'force_consistency')
        elif schedule == 'query-after-every-edit':
            S.call(c, iso, 'get_record', iso_path='/')
            for _ in S.call(c, iso, 'list_children', iso_path='/'):
                pass
        elif schedule == 'write-in-the-middle' and i == n // 2:
            S.written(c, iso)
    return iso


@contract
class ScheduleIndependent(Base):
    """C06: the bytes written depend only on the edits: creating the object in always-consistent mode, forcing consistency or
    querying records between edits, writing in the middle or writing twice all give the image the plain lazy schedule gives"""
    target = S.PC + '.write_fp'
    seq = 'files-and-dirs'
    schedule = 'force-after-every-edit'
    crosscheck = False
    label = property(lambda self: 'pycdlib.PyCdlib.write_fp<%s>' % self.seq)

    def setup(self, c):
        S.pin_environment(c)
        a = c.a
        kw, ops = get_seq(self.seq)
        a.lazy = S.new_image(c, **kw)
        a.lazy = apply_ops(c, a.lazy, ops, 'lazy')
        a.want = S.written(c, a.lazy)
        a.iso = c.new(S.PC, always_consistent=True) if self.schedule == 'always-consistent' else c.new(S.PC)
        c.call(S.PC + '.new', a.iso, **kw)
        a.iso = apply_ops(c, a.iso, ops, self.schedule)
        if self.schedule == 'write-twice':
            S.written(c, a.iso)
        a.out = c.file(b'')
        return Call([a.out], self_obj=a.iso)

    def post(self, c, a, out):
        got = V.mk_bytes(a.out.items) if c.symbolic else a.out.getvalue()
        return {'same-bytes-as-the-lazy-schedule': Eq(got, a.want)}

    def observe(self, c, a, out):
        return {'kind': out.kind}


MUTATORS = {
    'add_fp': ('plain', ['FILE', 4], dict(iso_path='/BAR.;1')),
    'add_directory': ('plain', [], dict(iso_path='/DIR2')),
    'rm_file': ('plain', [], dict(iso_path='/FOO.;1')),
    'rm_directory': ('plain', [], dict(iso_path='/DIR1')),
    'add_hard_link': ('plain', [], dict(iso_old_path='/FOO.;1', iso_new_path='/LNK.;1')),
    'rm_hard_link': ('plain', [], dict(iso_path='/FOO.;1')),
    'add_eltorito': ('plain', ['/FOO.;1'], {}),
    'rm_eltorito': ('eltorito', [], {}),
    'add_isohybrid': ('eltorito', [], dict(mbr_id=1)),
    'rm_isohybrid': ('eltorito', [], {}),
    'add_symlink': ('rr', [], dict(symlink_path='/SYM.;1', rr_symlink_name='sym', rr_path='foo')),
    'set_hidden': ('plain', [], dict(iso_path='/FOO.;1')),
    'clear_hidden': ('plain', [], dict(iso_path='/FOO.;1')),
    'duplicate_pvd': ('plain', [], {}),
}


@contract
class MutatorMarksStale(Base):
    """C06/mutator (stale-flag discipline): starting from an image whose derived metadata is up to date (force_consistency), every
    public mutator that returns normally leaves the image either recomputed or marked stale - otherwise the next write would
    emit metadata that ignores the edit.  Checked by its consequence as well: the write after the edit equals the write of a
    reference image that received the same edit without the intermediate force_consistency."""
    target = S.PC + '.add_fp'
    method = 'add_fp'
    crosscheck = False
    label = property(lambda self: 'pycdlib.PyCdlib.' + self.method)

    def setup(self, c):
        S.pin_environment(c)
        a = c.a
        kind, args, kwargs = MUTATORS[self.method]
        a.iso = S.base_image(c, kind)
        a.ref = S.base_image(c, kind)
        S.call(c, a.iso, 'force_consistency')
        self.target = S.PC + '.' + self.method
        a.args = [S.data_file(c, b'data') if x == 'FILE' else x for x in args]
        ref_args = [S.data_file(c, b'data') if x == 'FILE' else x for x in args]
        S.call(c, a.ref, self.method, *ref_args, **kwargs)
        return Call(a.args, dict(kwargs), self_obj=a.iso)

    def post(self, c, a, out):
        iso = a.iso
        flag = iso._needs_reshuffle
        cl = {}
        if self.method not in ('set_hidden', 'clear_hidden', 'rm_isohybrid'):   # these change no input of the layout recomputation
            cl['marked-stale-or-recomputed'] = Or(Eq(flag, True), Eq(iso._always_consistent, True))
        ok1, got = S.try_call(c, lambda: S.written(c, a.iso))
        ok2, want = S.try_call(c, lambda: S.written(c, a.ref))
        cl['write-reflects-the-edit'] = (ok1 and ok2) and Eq(got, want)
        return cl

    def observe(self, c, a, out):
        return {'kind': out.kind}
