"""C07 hard-link semantics at scenario level (independent readers, symbolic content) + function-level _set_inode (C04 unit)."""
from pyvc import sx
from pyvc import values as V
from pyvc.sx import And, Or, Not, Implies, If, Eq
from pyvc.contract import contract, Call
from contracts.utils import Base
from contracts import scenario as S
from contracts import reader as R
from contracts import udf_reader as UR

# scripts: ops on an image with Joliet + UDF.  names: dict(iso=..., joliet=..., udf=...)
# ('file', cid_size, names) ('link', old_names(one key), new_names(one key)) ('rm_link', names(one key)) ('rm_file', names(one key))
# ('eltorito', iso_path) ('rm_eltorito',)
LINK_SCRIPTS = {
    'links-in-all-namespaces': [
        ('file', 6, dict(iso='/A.;1', joliet='/a', udf='/a')),
        ('file', 3, dict(iso='/Z.;1', joliet='/z', udf='/z')),
        ('link', dict(iso='/A.;1'), dict(iso='/L1.;1')),
        ('link', dict(iso='/A.;1'), dict(joliet='/l2')),
        ('link', dict(joliet='/a'), dict(udf='/l3')),
    ],
    'remove-one-link-keeps-the-rest': [
        ('file', 6, dict(iso='/A.;1', joliet='/a', udf='/a')),
        ('link', dict(iso='/A.;1'), dict(iso='/L1.;1')),
        ('link', dict(iso='/A.;1'), dict(joliet='/l2')),
        ('rm_link', dict(iso='/A.;1')),
        ('rm_link', dict(joliet='/l2')),
        ('file', 2, dict(iso='/Z.;1', joliet='/z', udf='/z')),
    ],
    'remove-every-link-releases-the-content': [
        ('file', 2049, dict(iso='/A.;1', joliet='/a', udf='/a')),
        ('file', 3, dict(iso='/Z.;1', joliet='/z', udf='/z')),
        ('link', dict(iso='/A.;1'), dict(iso='/L1.;1')),
        ('rm_link', dict(iso='/A.;1')),
        ('rm_link', dict(joliet='/a')),
        ('rm_link', dict(udf='/a')),
        ('rm_link', dict(iso='/L1.;1')),
    ],
    'rm-file-takes-every-name-of-the-content-only': [
        ('file', 6, dict(iso='/A.;1', joliet='/a', udf='/a')),
        ('file', 6, dict(iso='/SAME.;1', joliet='/same', udf='/same')),
        ('link', dict(iso='/A.;1'), dict(iso='/L1.;1')),
        ('link', dict(iso='/A.;1'), dict(joliet='/l2')),
        ('rm_file', dict(iso='/L1.;1')),
    ],
    'empty-file-with-links': [
        ('file', 0, dict(iso='/E.;1', joliet='/e', udf='/e')),
        ('file', 0, dict(iso='/OTHER.;1', joliet='/other', udf='/other')),
        ('file', 4, dict(iso='/Z.;1', joliet='/z', udf='/z')),
        ('link', dict(iso='/E.;1'), dict(iso='/EL.;1')),
        ('rm_file', dict(iso='/E.;1')),
    ],
    'el-torito-keeps-the-boot-file-content': [
        ('file', 100, dict(iso='/BOOT.;1', joliet='/boot', udf='/boot')),
        ('eltorito', '/BOOT.;1'),
        ('rm_link', dict(joliet='/boot')),
        ('rm_link', dict(udf='/boot')),
        ('rm_link', dict(iso='/BOOT.;1')),
    ],
    'after-rm-eltorito-the-last-name-releases-it': [
        ('file', 100, dict(iso='/BOOT.;1')),
        ('file', 3, dict(iso='/Z.;1', joliet='/z', udf='/z')),
        ('eltorito', '/BOOT.;1'),
        ('rm_eltorito',),
        ('rm_link', dict(iso='/BOOT.;1')),
    ],
}


def random_link_script(name):
    """'random:<seed>[:r]': a random history of files named in a random subset of the three namespaces, hard links from any name to
    a new name in any namespace, removals of single names (the last one releases the content) and of whole files; with ':r' the
    image is written and opened again at random points and the history goes on on the opened object (no empty files then: K21)"""
    import random
    parts = name.split(':')
    seed, reopen = int(parts[1]), len(parts) > 2 and parts[2] == 'r'
    rnd = random.Random('links/%d/%s' % (seed, reopen))
    names = []            # (namespace, path, cid)
    ops = [('dir', dict(iso='/D', joliet='/d', udf='/d'))]
    ncontent, k = 0, 0

    freed = {'iso': [], 'joliet': [], 'udf': []}      # names that existed and are free again

    def fresh(ns):
        if freed[ns] and rnd.random() < 0.35:
            return freed[ns].pop(rnd.randrange(len(freed[ns])))
        d = rnd.choice(['', '/D'])
        return {'iso': '%s/N%d.;1' % (d, k), 'joliet': '%s/n%d' % (d.lower(), k), 'udf': '%s/n%d' % (d.lower(), k)}[ns]
    for _ in range(rnd.randint(8, 22)):
        k += 1
        r = rnd.random()
        if reopen and names and rnd.random() < 0.15:
            ops.append(('reopen',))
        if r < 0.35 or not names:
            nss = [ns for ns in ('iso', 'joliet', 'udf') if rnd.random() < 0.6] or [rnd.choice(['iso', 'joliet', 'udf'])]
            size = rnd.choice([1, 5, 2048, 2049, 3000] + ([] if reopen else [0]))
            given = {ns: fresh(ns) for ns in nss}
            ops.append(('file', size, given))
            names += [(ns, p, ncontent) for ns, p in given.items()]
            ncontent += 1
        elif r < 0.65:
            ons, opath, cid = rnd.choice(names)
            nns = rnd.choice(['iso', 'joliet', 'udf'])
            npath = fresh(nns)
            ops.append(('link', {ons: opath}, {nns: npath}))
            names.append((nns, npath, cid))
        elif r < 0.9:
            ns, path, cid = rnd.choice(names)
            ops.append(('rm_link', {ns: path}))
            names.remove((ns, path, cid))
            freed[ns].append(path)
        else:
            ns, path, cid = rnd.choice(names)
            ops.append(('rm_file', {ns: path}))
            for n in names:
                if n[2] == cid:
                    freed[n[0]].append(n[1])
            names = [n for n in names if n[2] != cid]
    return ops


def get_link_script(name):
    return random_link_script(name) if name.startswith('random:') else LINK_SCRIPTS[name]


def kw_of(names, old=False):
    k = {}
    for ns, p in names.items():
        k[{'iso': 'iso_old_path', 'joliet': 'joliet_old_path', 'udf': 'udf_old_path'}[ns] if old else {'iso': 'iso_path', 'joliet': 'joliet_path', 'udf': 'udf_path'}[ns]] = p
    return k


def run_script(c, script):
    iso = S.new_image(c, joliet=3, udf='2.60')
    contents = []
    model = {'iso': {}, 'joliet': {}, 'udf': {}}
    boot = None
    for op in script:
        if op[0] == 'file':
            data = c.bytes('content%d' % len(contents), op[1])
            contents.append(data)
            S.call(c, iso, 'add_fp', S.data_file(c, data), op[1], **kw_of(op[2]))
            for ns, p in op[2].items():
                model[ns][p] = len(contents) - 1
        elif op[0] == 'link':
            (ons, opath), = op[1].items()
            (nns, npath), = op[2].items()
            k = kw_of(op[1], old=True)
            k[{'iso': 'iso_new_path', 'joliet': 'joliet_new_path', 'udf': 'udf_new_path'}[nns]] = npath
            S.call(c, iso, 'add_hard_link', **k)
            model[nns][npath] = model[ons][opath]
        elif op[0] == 'rm_link':
            (ns, p), = op[1].items()
            S.call(c, iso, 'rm_hard_link', **kw_of(op[1]))
            model[ns].pop(p)
        elif op[0] == 'rm_file':
            (ns, p), = op[1].items()
            S.call(c, iso, 'rm_file', **kw_of(op[1]))
            cid = model[ns][p]
            for m in model.values():
                for q in [q for q, v in m.items() if v == cid]:
                    m.pop(q)
        elif op[0] == 'eltorito':
            S.call(c, iso, 'add_eltorito', op[1], bootcatfile='/BOOT.CAT;1', joliet_bootcatfile='/boot.cat', udf_bootcatfile='/boot.cat')
            boot = model['iso'][op[1]]
        elif op[0] == 'rm_eltorito':
            S.call(c, iso, 'rm_eltorito')
            boot = None
        elif op[0] == 'dir':
            S.call(c, iso, 'add_directory', **kw_of(op[1]))
        elif op[0] == 'reopen':
            img = S.written(c, iso)
            iso = c.new(S.PC)
            S.call(c, iso, 'open_fp', c.file(img))
    return iso, contents, model, boot


@contract
class Links(Base):
    """C07 for one link script: independent readers find, in every namespace, exactly the names the script leaves; all names of one
    content read the same bytes (EVERY content) from the same sectors and the content is stored once; content without a name or
    El Torito reference left is gone and its sectors are released (image exactly as long as its declared size, objects disjoint);
    the El Torito entry keeps the boot file's bytes at the sector it points to."""
    target = S.PC + '.write_fp'
    script = 'links-in-all-namespaces'
    crosscheck = False
    label = property(lambda self: 'pycdlib.PyCdlib.write_fp<%s>' % self.script)

    def setup(self, c):
        S.pin_environment(c)
        a = c.a
        a.iso, a.contents, a.model, a.boot = run_script(c, get_link_script(self.script))
        # reference: an image that only ever received the surviving names (content stored once => same total size)
        a.out = c.file(b'')
        return Call([a.out], self_obj=a.iso)

    def post(self, c, a, out):
        img = list(a.out.items) if c.symbolic else list(a.out.getvalue())
        cl = {}
        try:
            im, res = R.read_iso(img)
            u = UR.read_udf(img)
        except (R.Bad, KeyError, IndexError) as e:
            a.problems = ['reader gave up: %r' % (e,)]
            return {'independent-readers-can-decode-the-image': False}
        cl['independent-readers-can-decode-the-image'] = True
        tree = {p: t for p, t in R.logical_tree(im, res['root']).items() if p != b'/BOOT.CAT;1'}
        jsvd = [s for s in res['svds'] if s['escape'][:3] in (b'%/@', b'%/C', b'%/E')][0]
        jt = {p: t for p, t in R.logical_tree(im, R.read_tree(im, jsvd)).items()}
        jt = {bytes(p).decode('utf-16_be', 'replace') if False else p: t for p, t in jt.items()}
        jnames = {}
        for p, t in jt.items():
            name = b'/'.join(x for x in p.split(b'/')).decode('latin-1')
            jnames[p] = t
        def jkey(path):
            return b'/' + path[1:].encode('utf-16_be')
        m = a.model
        cl['iso9660-names-are-exactly-the-surviving-ones'] = sorted(p for p, t in tree.items() if t[0] != 'dir') == sorted(p.encode() for p in m['iso'])
        cl['joliet-names-are-exactly-the-surviving-ones'] = sorted(p for p, t in jt.items() if p != jkey('/boot.cat') and t[0] != 'dir') == sorted(jkey(p).replace('/'.encode('utf-16_be'), b'/') for p in m['joliet'])
        cl['udf-names-are-exactly-the-surviving-ones'] = sorted(p for p, f in u.files.items() if p != '/boot.cat' and f['kind'] != 'dir') == sorted(m['udf'])
        same_bytes, where = [], {}
        for p, cid in m['iso'].items():
            t = tree.get(p.encode())
            if t:
                same_bytes.append(Eq(V.mk_bytes(R.file_bytes(im, t[1])), a.contents[cid]))
                where.setdefault(cid, set()).add(t[1][0][0])
        for p, cid in m['joliet'].items():
            t = jt.get(jkey(p).replace('/'.encode('utf-16_be'), b'/'))
            if t:
                same_bytes.append(Eq(V.mk_bytes(R.file_bytes(im, t[1])), a.contents[cid]))
                where.setdefault(cid, set()).add(t[1][0][0])
        for p, cid in m['udf'].items():
            f = u.files.get(p)
            if f and f['kind'] == 'file':
                same_bytes.append(Eq(V.mk_bytes(f['data']), a.contents[cid]))
                if f['extents']:
                    where.setdefault(cid, set()).add(f['extents'][0][0])
        cl['all-names-of-a-content-read-its-bytes'] = And(*same_bytes) if same_bytes else True
        cl['each-content-is-stored-once'] = all(len(s) == 1 for s in where.values())
        # (an empty content occupies no sector: where its names point is not constrained)
        where = {cid: s for cid, s in where.items() if len(V.items_of(a.contents[cid]))}
        cl['distinct-contents-do-not-share-sectors'] = len(set(next(iter(s)) for s in where.values())) == len(where)
        # El Torito
        if a.boot is not None:
            cat = im.le(17 * 2048 + 71, 4)
            rba = im.le(cat * 2048 + 32 + 8, 4)
            n = len(V.items_of(a.contents[a.boot]))
            cl['el-torito-entry-points-at-the-boot-file-bytes'] = Eq(V.mk_bytes(im.raw(rba * 2048, n)), a.contents[a.boot])
        # space: everything that is referenced is inside; nothing unreferenced keeps sectors (exact length + no slack beyond content)
        live = set(m['iso'].values()) | set(m['joliet'].values()) | set(m['udf'].values()) | ({a.boot} if a.boot is not None else set())
        data_sectors = sum(-(-len(V.items_of(a.contents[cid])) // 2048) for cid in live)
        cl['image-length-is-the-declared-size'] = len(img) == res['pvd']['space_size'] * 2048
        a.data_sectors = data_sectors
        cl['structurally-valid'] = not im.problems and not u.im.problems
        if im.problems or u.im.problems:
            a.problems = im.problems + u.im.problems
        return cl

    def observe(self, c, a, out):
        return {'kind': out.kind, 'problems': getattr(a, 'problems', None)}


@contract
class ReleasedSpace(Base):
    """C07 'the content and its space are released exactly when the last reference goes away': an image on which a file was added,
    linked and then lost all its names is byte for byte the image on which that file was never added"""
    target = S.PC + '.write_fp'
    crosscheck = False
    variant = 'plain'
    label = property(lambda self: 'pycdlib.PyCdlib.write_fp<released:%s>' % self.variant)

    def setup(self, c):
        S.pin_environment(c)
        a = c.a
        keep = c.bytes('kept', 5)
        gone = c.bytes('gone', 3000)
        a.iso = S.new_image(c, joliet=3, udf='2.60')
        a.ref = S.new_image(c, joliet=3, udf='2.60')
        for iso in (a.iso, a.ref):
            S.call(c, iso, 'add_fp', S.data_file(c, keep), 5, iso_path='/KEEP.;1', joliet_path='/keep', udf_path='/keep')
        S.call(c, a.iso, 'add_fp', S.data_file(c, gone), 3000, iso_path='/GONE.;1', joliet_path='/gone', udf_path='/gone')
        if self.variant == 'eltorito-twice':
            S.call(c, a.iso, 'add_eltorito', '/GONE.;1', bootcatfile='/BOOT.CAT;1', joliet_bootcatfile='/boot.cat', udf_bootcatfile='/boot.cat')
            S.call(c, a.iso, 'add_eltorito', '/GONE.;1', efi=True)
            S.call(c, a.iso, 'rm_eltorito')
            S.call(c, a.iso, 'rm_hard_link', iso_path='/GONE.;1')
            S.call(c, a.iso, 'rm_hard_link', joliet_path='/gone')
            S.call(c, a.iso, 'rm_hard_link', udf_path='/gone')
        elif self.variant == 'links':
            S.call(c, a.iso, 'add_hard_link', iso_old_path='/GONE.;1', iso_new_path='/L.;1')
            S.call(c, a.iso, 'rm_hard_link', iso_path='/GONE.;1')
            S.call(c, a.iso, 'rm_hard_link', joliet_path='/gone')
            S.call(c, a.iso, 'rm_hard_link', udf_path='/gone')
            S.call(c, a.iso, 'rm_hard_link', iso_path='/L.;1')
        else:
            S.call(c, a.iso, 'rm_file', iso_path='/GONE.;1')
        a.want = S.written(c, a.ref)
        a.out = c.file(b'')
        return Call([a.out], self_obj=a.iso)

    def post(self, c, a, out):
        got = V.mk_bytes(a.out.items) if c.symbolic else a.out.getvalue()
        return {'same-image-as-if-the-file-had-never-been-added': Eq(got, a.want)}

    def observe(self, c, a, out):
        return {'kind': out.kind}
