"""Contracts for the name-mangling helpers in pycdlib/utils.py (C18)."""
from pyvc import sx
from pyvc import values as V
from pyvc.sx import And, Or, Not, Implies, If, Eq
from pyvc.contract import contract, Call
from contracts.utils import Base

U = 'pycdlib.utils.'
# representatives of the non-ASCII character classes (the classes come from an exhaustive table of str.upper() over all code points
# of this interpreter, see pyvc.selfcheck: upper() of one character has 1, 2 or 3 characters, each of them a d-character or not)
REPS = ['é', 'ß', 'ΐ', 'ſ', '中']   # e-acute (1 -> 1 non-d), sharp s (-> SS), iota+dialytika+tonos (-> 3), long s (-> S), CJK


def cp(x):
    from pyvc.stdlib import cps
    return cps(x)


def teq(a, b):
    from pyvc.stdlib import str_eq
    return str_eq(a, b)


def is_d(c):
    return Or(And(c >= 65, c <= 90), And(c >= 48, c <= 57), c == 95)


def all_d(x):
    it = cp(x)
    return And(*[is_d(c) for c in it]) if it else True


def free_text(c, name, n):
    """n characters: arbitrary ASCII everywhere; the non-ASCII class representatives are offered at up to three positions
    (first, middle, last) - enough to put an expanding character before, at and after any truncation point"""
    from pyvc.stdlib import cps, mk_str
    if n <= 3:
        return c.text(name, n, REPS)
    special = {0, n // 2, n - 1}
    items = []
    for i in range(n):
        t = c.text('%s_%d' % (name, i), 1, REPS if i in special else ())
        items += cps(t)
    return mk_str(items)


def text_seeds(name, n, alphabet):
    """concrete inputs for the bounded stand-in (used only when a helper leaves the verifier's subset): all strings of length n
    over a small alphabet, expressed in the input encoding of c.text"""
    import itertools
    out = []
    for tup in itertools.product(alphabet, repeat=n):
        v = {}
        for i, ch in enumerate(tup):
            key = '%s[%d]' % (name, i) if n <= 3 else '%s_%d[0]' % (name, i)
            if ord(ch) < 128:
                v[key + 'kind#'] = 0
                v[key] = ord(ch)
            elif ch in REPS and (n <= 3 or i in {0, n // 2, n - 1}):
                v[key + 'kind#'] = 1 + REPS.index(ch)
            else:
                v = None
                break
        if v is not None:
            out.append(v)
    return out


SEED_ALPHABET = ['A', 'b', '.', '\n', '_', 'ß']


def maxlen(level, is_dir):
    return 8 if level == 1 else (31 if is_dir else 30)


@contract
class TruncateBasename(Base):
    def seeds(self):
        return text_seeds('basename', self.n, SEED_ALPHABET)

    """C18/trunc: for levels 1-3 the result consists of d-characters only and is at most 8 (level 1) / 30 (files) / 31 (directories)
    characters long; an input that already is such a name comes back unchanged; level 4 returns the input"""
    target = U + 'truncate_basename'
    n = 3
    level = 1
    is_dir = False

    def setup(self, c):
        a = c.a
        a.s = free_text(c, 'basename', self.n)
        return Call([a.s, self.level, self.is_dir])

    def post(self, c, a, out):
        r = out.result
        if self.level == 4:
            return {'level4-identity': teq(r, a.s)}
        m = maxlen(self.level, self.is_dir)
        already = And(all_d(a.s), len(cp(a.s)) <= m)
        same = And(len(cp(r)) == len(cp(a.s)), *[Eq(x, y) for x, y in zip(cp(r), cp(a.s))]) if len(cp(r)) == len(cp(a.s)) else False
        return {'only-d-characters': all_d(r), 'length-limit': len(cp(r)) <= m, 'legal-input-unchanged': Implies(already, same)}

    def observe(self, c, a, out):
        return {'kind': out.kind, 'r': out.result if isinstance(out.result, str) else None}


def legal_file(base, ext, level):
    """C13's legal_file for name.ext (version is appended separately)"""
    b, e = cp(base), cp(ext)
    cl = [len(b) + len(e) > 0]
    if level < 4:
        cl += [all_d(base), all_d(ext)]
    if level == 1:
        cl += [len(b) <= 8, len(e) <= 3]
    return And(*cl)


@contract
class MangleFile(Base):
    def seeds(self):
        return text_seeds('orig', self.n, SEED_ALPHABET)

    """C18/file + C18/identity: for every non-empty source name and level 1-3, mangle_file_for_iso9660 returns (base, ext + ';1')
    with base.ext legal for the level (d-characters; 8.3 at level 1; not both empty); if the source name already is a legal
    name.ext it is returned unchanged (apart from the appended version)."""
    target = U + 'mangle_file_for_iso9660'
    n = 3
    level = 1

    def setup(self, c):
        a = c.a
        a.s = free_text(c, 'orig', self.n)
        return Call([a.s, self.level])

    def post(self, c, a, out):
        base, extv = out.result
        ev = cp(extv)
        if self.level == 4:
            # level 4 allows anything but the version separator: semicolons are replaced, then the name is only cut at its last
            # dot (no version is appended at this level); the library accepts the result (no semicolon, name.ext not empty)
            src = [If(x == 59, 95, x) for x in cp(a.s)]
            joined = cp(base) + [46] + ev
            has_dot = Or(*[x == 46 for x in src])
            whole = And(len(cp(base)) == len(src), len(ev) == 0, *[Eq(x, y) for x, y in zip(cp(base), src)]) if len(cp(base)) == len(src) and not ev else False
            rejoin = And(*[Eq(x, y) for x, y in zip(joined, src)]) if len(joined) == len(src) else False
            return {'level4-cut-at-last-dot': If(has_dot, And(rejoin, *[x != 46 for x in ev]), whole),
                    'level4-no-version-separator-left': And(*[x != 59 for x in cp(base) + ev])}
        if len(ev) < 2:
            return {'version-appended': False}
        ext = ev[:-2]
        from pyvc.stdlib import mk_str
        ext_s = mk_str(ext)
        cl = {'version-appended': And(ev[-2] == 59, ev[-1] == 49)}
        cl['legal-for-the-level'] = legal_file(base, ext_s, self.level)
        # identity on already legal names: split the SOURCE at its last dot (spec side)
        src = cp(a.s)
        ids = []
        for dot in range(-1, len(src)):
            # dot = index of the last '.' (or -1: none)
            if dot == -1:
                cond = And(*[x != 46 for x in src]) if src else True
                sb, se = src, []
            else:
                cond = And(src[dot] == 46, *[x != 46 for x in src[dot + 1:]])
                sb, se = src[:dot], src[dot + 1:]
            legal_src = And(cond, legal_file(mk_str(sb), mk_str(se), self.level), *[x != 46 for x in sb])
            same = And(len(cp(base)) == len(sb), len(ext) == len(se)) if (len(cp(base)) == len(sb) and len(ext) == len(se)) else False
            if same is not False:
                same = And(*[Eq(x, y) for x, y in zip(cp(base) + ext, sb + se)]) if (sb or se) else True
            ids.append(Implies(legal_src, same))
        cl['legal-input-unchanged'] = And(*ids)
        return cl

    def observe(self, c, a, out):
        return {'kind': out.kind, 'r': list(out.result) if out.kind == 'return' and all(isinstance(x, str) for x in out.result) else None}

    # K29 (recorded, not repaired): a source name that is legal with an EMPTY extension ('FOO.') is not returned unchanged -
    # the trailing dot is treated as part of the base name and mangled ('FOO_', ';1').  The result is still legal.
    # K53 (recorded, not repaired): at levels 2 and 3 an extension may be as long as the 30 characters allow, but an extension of
    # more than three characters is folded into the base name ('INDEX.HTML' -> 'INDEX_HTML', ';1').  Same family as K29.
    @staticmethod
    def _long_ext(a):
        x = cp(a.s)
        n = len(x)
        # the last dot is followed by four or more characters
        return Or(*[And(x[i] == 46, *[x[j] != 46 for j in range(i + 1, n)]) for i in range(0, n - 4)]) if n >= 5 else False

    known = {'/post:legal-input-unchanged': [
        ('K29', lambda a: cp(a.s)[-1] == 46, "mangle_file_for_iso9660('NAME.') returns ('NAME_', ';1') instead of ('NAME', ';1'): a legal name with an empty extension is not left unchanged"),
        ('K53', lambda a: MangleFile._long_ext(a), "mangle_file_for_iso9660('INDEX.HTML', 2 or 3) returns ('INDEX_HTML', ';1'): an extension longer than three characters, legal at levels 2-3, is folded into the name"),
    ]}


@contract
class MangleDir(Base):
    def seeds(self):
        return text_seeds('orig', self.n, SEED_ALPHABET)

    """C18/dir: mangle_dir_for_iso9660 returns a legal directory identifier for levels 1-3 (d-characters, <= 8 / 31 characters,
    non-empty for a non-empty source) and leaves a legal one unchanged"""
    target = U + 'mangle_dir_for_iso9660'
    n = 3
    level = 1

    def setup(self, c):
        a = c.a
        a.s = free_text(c, 'orig', self.n)
        return Call([a.s, self.level])

    def post(self, c, a, out):
        r = out.result
        if self.level == 4:
            return {'level4-identity': teq(r, a.s)}
        m = maxlen(self.level, True)
        already = And(all_d(a.s), len(cp(a.s)) <= m)
        same = And(*[Eq(x, y) for x, y in zip(cp(r), cp(a.s))]) if len(cp(r)) == len(cp(a.s)) else False
        return {'only-d-characters': all_d(r), 'length-limit': len(cp(r)) <= m, 'non-empty': len(cp(r)) >= 1, 'legal-input-unchanged': Implies(already, same)}

    def observe(self, c, a, out):
        return {'kind': out.kind, 'r': out.result if isinstance(out.result, str) else None}


@contract
class MangleFileLong(Base):
    """C18/file, long names (concrete, the interesting part is the arithmetic of the two cuts): at levels 2 and 3 the name and the
    extension of the result together have at most 30 characters (ECMA-119 7.5.1, quoted in the function's own comment), the
    result consists of d-characters and carries the version"""
    target = U + 'mangle_file_for_iso9660'
    name = 'x' * 30 + '.tx2'
    level = 3
    crosscheck = False

    def setup(self, c):
        c.a.s = self.name
        return Call([self.name, self.level])

    def post(self, c, a, out):
        base, extv = out.result
        ext = extv[:-2] if extv.endswith(';1') else extv
        import re
        return {'version-appended': extv.endswith(';1'),
                'd-characters': re.fullmatch('[A-Z0-9_]*', base) is not None and re.fullmatch('[A-Z0-9_]*', ext) is not None,
                'name-plus-extension-at-most-30': len(base) + len(ext) <= 30}

    # K52 (recorded, not repaired): the name part is cut to 30 characters without regard to the extension that is kept, so a long
    # name with a short extension gives up to 33 characters.  The library accepts and writes such identifiers (it deliberately does
    # not enforce the limit at levels 2 and 3, because images in the wild exceed it), so nothing fails later; shortening the name
    # part would change the identifiers generated for existing trees.
    @property
    def known(self):
        stem, _, ext = self.name.rpartition('.')
        long_case = len(stem) + len(ext) > 30 and 1 <= len(ext) <= 3
        return {'/post:name-plus-extension-at-most-30': [('K52', lambda a: long_case, 'mangle_file_for_iso9660 at levels 2-3 keeps a 30-character name part AND the extension: up to 33 characters where ECMA-119 7.5.1 allows 30 (accepted and written by the library as is)')]}

    def observe(self, c, a, out):
        return {'kind': out.kind, 'result': list(out.result) if out.kind == 'return' else None}
