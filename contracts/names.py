"""Contracts for the ISO9660 naming rules in pycdlib.py (C13)."""
from pyvc import sx
from pyvc import values as V
from pyvc.sx import And, Or, Not, Implies, If, Eq
from pyvc.contract import contract, Call
from contracts.utils import Base

M = 'pycdlib.pycdlib.'


def is_dchar(x):
    return Or(And(x >= 65, x <= 90), And(x >= 48, x <= 57), x == 95)


def all_dchars(b):
    it = V.items_of(b)
    return And(*[is_dchar(x) for x in it]) if it else True


def has_byte(b, v):
    it = V.items_of(b)
    return Or(*[x == v for x in it]) if it else False


def decimal_value(b):
    tot = 0
    for x in V.items_of(b):
        tot = tot * 10 + (x - 48)
    return tot


def all_digits(b):
    it = V.items_of(b)
    return And(*[And(x >= 48, x <= 57) for x in it]) if it else False


@contract
class CheckD1(Base):
    """C13/d1: _check_d1_characters raises InvalidInput iff some byte is not one of A-Z 0-9 _ ; nothing else escapes"""
    target = M + '_check_d1_characters'
    n = 4

    def setup(self, c):
        a = c.a
        a.name = c.bytes('name', self.n)
        return Call([a.name])

    def expected_covers(self):
        return ('return', 'raise:PyCdlibInvalidInput') if self.n else ('return',)

    def raises(self, c, a):
        return {'PyCdlibInvalidInput': Not(all_dchars(a.name))}

    def seeds(self):
        # bounded stand-in (only used when the function leaves the verifier's subset): every byte value at every position, on a legal background
        out = []
        for pos in range(self.n):
            for v in range(256):
                b = [65] * self.n
                b[pos] = v
                out.append({'name': b})
        return out or [{'name': []}]


@contract
class SplitFilename(Base):
    """C13/split (bounded length n): (name, extension, version) = split at the LAST ';' (version) and then at the LAST '.'"""
    target = M + '_split_iso9660_filename'
    n = 4

    def setup(self, c):
        a = c.a
        a.full = c.bytes('fullname', self.n)
        return Call([a.full])

    def post(self, c, a, out):
        name, ext, ver = out.result
        full = V.items_of(a.full)
        n = len(full)
        # reconstruct: full == name ['.' ext] [';' ver]  with the documented choice of separators
        nm, ex, ve = V.items_of(name), V.items_of(ext), V.items_of(ver)
        has_semi = has_byte(a.full, 59)
        rest_len = n - (len(ve) + 1) if False else None
        cl = {'version-has-no-semicolon': Not(has_byte(ver, 59)), 'extension-has-no-dot': Not(has_byte(ext, 46))}
        # piecewise reconstruction by cases on the lengths (all concrete per path)
        total = len(nm) + len(ex) + len(ve)
        seps = n - total
        cl['pieces-cover-the-name'] = And(seps >= 0, seps <= 2)
        if 0 <= seps <= 2:
            cands = []
            for dot in (0, 1):
                for semi in (0, 1):
                    if dot + semi != seps:
                        continue
                    rebuilt = nm + ([46] if dot else []) + ex + ([59] if semi else []) + ve
                    if len(rebuilt) == n:
                        cands.append(And(*[Eq(x, y) for x, y in zip(rebuilt, full)]) if n else True)
            cl['concatenation-gives-back-the-name'] = Or(*cands) if cands else False
        cl['version-iff-semicolon'] = Implies(Not(has_semi), len(ve) == 0)
        return cl


def d1_hook(it, fv, args, kwargs):
    """callee contract of _check_d1_characters (proved by CheckD1): InvalidInput iff some byte is not a d-character"""
    from pyvc.interp import PyExc
    if it.branch(sx.Not(all_dchars(args[0]))):
        exc = it.instantiate(it.loader.find_class('pycdlib.pycdlibexception.PyCdlibInvalidInput'), ['ISO9660 filenames must consist of characters A-Z, 0-9, and _'], {})
        exc.site = 'callee contract _check_d1_characters'
        raise PyExc(exc)
    return None


def split_hook(it, fv, args, kwargs):
    """callee contract of _split_iso9660_filename inside the checkers: the three pieces (SplitFilename proves how they are cut)"""
    g = it.ctx.ghost
    return (g['split_name'], g['split_ext'], g['split_version'])


@contract
class CheckFilename(Base):
    """C13/file: _check_iso9660_filename accepts (returns) exactly the legal names of the interchange level and refuses every other
    with InvalidInput - nothing else escapes: optional version of decimal digits with value 1..32767, name and extension not both
    empty, no further ';', level 1: name <= 8 and extension <= 3 characters, levels 1-3: d-characters only."""
    target = M + '_check_iso9660_filename'
    ln, le, lv = 3, 2, 1
    level = 1
    hooks = {M + '_split_iso9660_filename': split_hook, M + '_check_d1_characters': d1_hook}
    crosscheck = False

    def setup(self, c):
        a = c.a
        a.name, a.ext, a.ver = c.bytes('name', self.ln), c.bytes('ext', self.le), c.bytes('version', self.lv)
        # what _split_iso9660_filename guarantees about its pieces
        c.assume(And(Not(has_byte(a.ver, 59)), Not(has_byte(a.ext, 46))))
        if self.lv > 4:
            c.assume(all_digits(a.ver))   # long versions: digits only (int() of longer non-digit strings is not modelled exactly)
        if c.symbolic:
            c.p.ghost.update(split_name=a.name, split_ext=a.ext, split_version=a.ver)
            a.full = b'(unused: the checker only looks at the pieces)'
        else:
            a.full = bytes(a.name) + (b'.' + bytes(a.ext) if self.le or False else b'') + (b';' + bytes(a.ver) if self.lv else b'')
            # replay precondition: the real splitter must cut this name into exactly these pieces
            import pycdlib.pycdlib as pm
            c.assume(pm._split_iso9660_filename(a.full) == (bytes(a.name), bytes(a.ext), bytes(a.ver)))
        return Call([a.full, self.level])

    def legal(self, a):
        ver_ok = Or(self.lv == 0, And(all_digits(a.ver), decimal_value(a.ver) >= 1, decimal_value(a.ver) <= 32767)) if self.lv else True
        nonempty = (self.ln + self.le) > 0
        semis = Not(Or(has_byte(a.name, 59), has_byte(a.ext, 59)))
        lvl1 = (self.ln <= 8 and self.le <= 3) if self.level == 1 else True
        dch = And(all_dchars(a.name), all_dchars(a.ext)) if self.level < 4 else True
        return And(ver_ok, nonempty, semis, lvl1, dch)

    def raises(self, c, a):
        return {'PyCdlibInvalidInput': Not(self.legal(a))}

    def expected_covers(self):
        return ('raise:PyCdlibInvalidInput',) if (self.ln + self.le == 0 or (self.level == 1 and (self.ln > 8 or self.le > 3))) else ('return', 'raise:PyCdlibInvalidInput')


@contract
class CheckDirectory(Base):
    """C13/dir: _check_iso9660_directory accepts exactly: non-empty, <= 8 characters at level 1, <= 207 at levels 2-3, d-characters
    below level 4; everything else InvalidInput, nothing else escapes"""
    target = M + '_check_iso9660_directory'
    n = 3
    level = 1
    hooks = {M + '_check_d1_characters': d1_hook}

    def setup(self, c):
        a = c.a
        a.name = c.bytes('name', self.n)
        return Call([a.name, self.level])

    def legal(self, a):
        ok_len = self.n >= 1 and (self.n <= 8 if self.level == 1 else (self.n <= 207 if self.level in (2, 3) else True))
        return And(ok_len, all_dchars(a.name) if self.level < 4 else True)

    def raises(self, c, a):
        return {'PyCdlibInvalidInput': Not(self.legal(a))}

    def expected_covers(self):
        ok_len = self.n >= 1 and (self.n <= 8 if self.level == 1 else (self.n <= 207 if self.level in (2, 3) else True))
        if not ok_len:
            return ('raise:PyCdlibInvalidInput',)
        return ('return', 'raise:PyCdlibInvalidInput') if self.level < 4 else ('return',)


@contract
class CheckPathDepth(Base):
    """C13/depth: at most 7 components below the root are allowed without Rock Ridge / level 4; deeper paths are refused"""
    target = M + '_check_path_depth'
    depth = 7

    def setup(self, c):
        a = c.a
        comps = [c.bytes('comp%d' % i, 1) for i in range(self.depth)]
        for x in comps:
            c.assume(V.items_of(x)[0] != 47)
        path = []
        for x in comps:
            path += [47] + V.items_of(x)
        a.path = V.mk_bytes(path if path else [47])
        return Call([a.path])

    def raises(self, c, a):
        return {'PyCdlibInvalidInput': self.depth > 7}

    def expected_covers(self):
        return ('raise:PyCdlibInvalidInput',) if self.depth > 7 else ('return',)


def find_record_hook(it, fv, args, kwargs):
    """callee contract of the _find_*_record lookups at their call sites here: returns the record named (assumed, see C13 notes)"""
    it.ctx.ghost['lookup_path'] = args[1]
    return it.ctx.ghost['lookup_result']


@contract
class JolietName(Base):
    """C13/joliet + C09/name: a Joliet name longer than 64 (UTF-8 bytes, the documented limit) or EMPTY (a path that names the
    root directory itself: '/', '/.', '/d/..' after normalisation) is refused with InvalidInput; an accepted name is recorded as exactly its UTF-16BE encoding - never truncated or mangled - and fits the 128-byte
    Joliet identifier; the parent looked up is the directory part of the path"""
    target = 'pycdlib.pycdlib.PyCdlib._joliet_name_and_parent_from_path'
    namelen = 5
    concrete = None
    hooks = {'pycdlib.pycdlib.PyCdlib._find_joliet_record': find_record_hook}

    def setup(self, c):
        a = c.a
        if self.concrete is not None:
            a.name = self.concrete.encode('utf-8')
        else:
            a.name = c.bytes('name', self.namelen)
            for x in V.items_of(a.name):
                c.assume(And(x >= 32, x < 127, x != 47))
        a.path = V.mk_bytes([47, 68, 47] + V.items_of(a.name))      # b'/D/' + name
        a.parent = c.obj('pycdlib.dr.DirectoryRecord', initialized=True, isdir=True)
        a.self = c.obj('pycdlib.pycdlib.PyCdlib', _initialized=True)
        if c.symbolic:
            c.p.ghost['lookup_result'] = a.parent
        else:
            parent = a.parent
            self.real_hooks = {'pycdlib.pycdlib.PyCdlib._find_joliet_record': lambda _s, p: parent}
        return Call([a.path], self_obj=a.self)

    def nbytes(self):
        return len(self.concrete.encode('utf-8')) if self.concrete is not None else self.namelen

    def raises(self, c, a):
        return {'PyCdlibInvalidInput': self.nbytes() > 64 or self.nbytes() == 0}

    def expected_covers(self):
        return ('raise:PyCdlibInvalidInput',) if (self.nbytes() > 64 or self.nbytes() == 0) else ('return',)

    def post(self, c, a, out):
        name16, parent = out.result
        if self.concrete is not None:
            want = self.concrete.encode('utf-16_be')
        else:
            w = []
            for x in V.items_of(a.name):
                w += [0, x]
            want = V.mk_bytes(w)
        cl = {'utf16be-of-the-given-name': Eq(name16, want), 'fits-128-bytes': len(name16) <= 128, 'parent-is-the-looked-up-directory': parent is a.parent}
        if c.symbolic:
            cl['looked-up-the-directory-part'] = Eq(c.p.ghost.get('lookup_path'), b'/D')
        return cl

    def observe(self, c, a, out):
        return {'kind': out.kind, 'exc': out.exc}


def find_udf_record_hook(it, fv, args, kwargs):
    it.ctx.ghost['lookup_path'] = args[1]
    return (None, it.ctx.ghost['lookup_result'])


@contract
class UDFName(Base):
    """C13/udf: the name of a new UDF entry is the last component of the path, byte for byte, looked up under its directory part; a
    path whose last component is empty (it names the root directory: '/', '/.', '/d/..' after normalisation) is refused with
    InvalidInput instead of creating an entry without a name"""
    target = 'pycdlib.pycdlib.PyCdlib._udf_name_and_parent_from_path'
    namelen = 5
    hooks = {'pycdlib.pycdlib.PyCdlib._find_udf_record': find_udf_record_hook}

    def setup(self, c):
        a = c.a
        a.name = c.bytes('name', self.namelen)
        for x in V.items_of(a.name):
            c.assume(And(x >= 32, x < 127, x != 47))
        a.path = V.mk_bytes([47, 100, 47] + V.items_of(a.name))      # b'/d/' + name
        a.parent = c.obj('pycdlib.udf.UDFFileEntry', _initialized=True)
        a.self = c.obj('pycdlib.pycdlib.PyCdlib', _initialized=True)
        if c.symbolic:
            c.p.ghost['lookup_result'] = a.parent
        else:
            parent = a.parent
            self.real_hooks = {'pycdlib.pycdlib.PyCdlib._find_udf_record': lambda _s, p: (None, parent)}
        return Call([a.path], self_obj=a.self)

    def raises(self, c, a):
        return {'PyCdlibInvalidInput': self.namelen == 0}

    def expected_covers(self):
        return ('raise:PyCdlibInvalidInput',) if self.namelen == 0 else ('return',)

    def post(self, c, a, out):
        name, parent = out.result
        cl = {'the-given-name': Eq(name, a.name), 'parent-is-the-looked-up-directory': parent is a.parent}
        if c.symbolic:
            cl['looked-up-the-directory-part'] = Eq(c.p.ghost.get('lookup_path'), b'/d')
        return cl

    def observe(self, c, a, out):
        return {'kind': out.kind, 'exc': out.exc}


@contract
class FindRRRecord(Base):
    """C18/facade safety: looking a Rock Ridge name up in a directory returns the child carrying exactly that name, and for a name
    that is not there raises PyCdlibInvalidInput - nothing else (the facades rely on it to tell 'missing' from 'broken'),
    wherever the name would sort among the children"""
    target = 'pycdlib.pycdlib.PyCdlib._find_rr_record'
    n = 2
    namelen = 2

    def setup(self, c):
        a = c.a
        a.names = [c.bytes('child%d' % i, self.namelen) for i in range(self.n)]
        for nm in a.names:
            for x in V.items_of(nm):
                c.assume(And(x >= 33, x < 127, x != 47))
        # children sorted strictly by name (the list invariant of rr_children)
        for i in range(self.n - 1):
            c.assume(lex_lt(V.items_of(a.names[i]), V.items_of(a.names[i + 1])))
        a.want = c.bytes('wanted', self.namelen)
        for x in V.items_of(a.want):
            c.assume(And(x >= 33, x < 127, x != 47))
        a.kids = []
        for nm in a.names:
            rr = c.obj('pycdlib.rockridge.RockRidge', _initialized=True, _full_name=nm, dr_entries=c.obj('pycdlib.rockridge.RockRidgeEntries', cl_record=None, nm_records=[]),
                       ce_entries=c.obj('pycdlib.rockridge.RockRidgeEntries', cl_record=None, nm_records=[]), cl_to_moved_dr=None)
            a.kids.append(c.obj('pycdlib.dr.DirectoryRecord', initialized=True, rock_ridge=rr, isdir=False, rr_children=[]))
        root = c.obj('pycdlib.dr.DirectoryRecord', initialized=True, rock_ridge=None, isdir=True, rr_children=list(a.kids))
        pvd = c.obj('pycdlib.headervd.PrimaryOrSupplementaryVD', _initialized=True, root_dir_record=root)
        a.self = c.obj('pycdlib.pycdlib.PyCdlib', _initialized=True, pvd=pvd)
        a.path = V.mk_bytes([47] + V.items_of(a.want))
        return Call([a.path], self_obj=a.self)

    def present(self, a):
        return Or(*[Eq(a.want, nm) for nm in a.names]) if a.names else False

    def raises(self, c, a):
        return {'PyCdlibInvalidInput': Not(self.present(a))}

    covers = ('return', 'raise:PyCdlibInvalidInput')

    def post(self, c, a, out):
        return {'returns-the-child-with-that-name': Or(*[And(out.result is k, Eq(a.want, nm)) for k, nm in zip(a.kids, a.names)]) if a.kids else False}

    def observe(self, c, a, out):
        return {'kind': out.kind, 'exc': out.exc}


def lex_lt(x, y):
    """byte strings of equal length: x < y lexicographically"""
    alts = []
    for i in range(len(x)):
        alts.append(And(*([Eq(x[j], y[j]) for j in range(i)] + [x[i] < y[i]])))
    return Or(*alts) if alts else False
