"""Contracts for pycdlib/pycdlibio.py (C16): PyCdlibIO behaves like io.BytesIO(content of the file), where the content is
F.content[_startpos : _startpos + _length] of the backing file object F.  Crucially NOTHING is assumed about F's current
position: F is shared with every other reader of the image (a second open file, extraction, parse helpers), so between two
calls its position is arbitrary - that is how 'regardless of other reads' enters a one-call contract."""
from pyvc import sx
from pyvc import values as V
from pyvc.sx import And, Or, Not, Implies, If, Eq
from pyvc.contract import contract, Call
from contracts.utils import Base

IO = 'pycdlib.pycdlibio.PyCdlibIO'


def stream(c, is_open=True):
    a = c.a
    a.F = c.abytes('F')
    a.flen = sx.Len(a.F)
    a.fpos = c.int('F_pos', 0)          # wherever the last user of the shared file object left it
    a.start = c.int('startpos', 0)
    a.L = c.int('length', 0)
    a.off = c.int('offset', 0)
    c.assume(a.start + a.L <= a.flen)  # the file lies inside the backing object
    a.fp = c.afile(a.F, a.fpos)
    a.self = c.obj(IO, _fp=a.fp, _length=a.L, _offset=a.off, _startpos=a.start, _open=is_open)
    return a.self


def avail(a):
    return If(a.L - a.off > 0, a.L - a.off, 0)


@contract
class Read(Base):
    """read(size): exactly min(size, remaining) bytes of the file from the stream position (all remaining for None/negative),
    b'' at or past the end, never bytes beyond the end; the position advances by what was returned"""
    target = IO + '.read'
    size_none = False

    def setup(self, c):
        a = c.a
        s = stream(c)
        if self.size_none:
            a.size = None
            return Call([], self_obj=s)
        a.size = c.int('size')
        return Call([a.size], self_obj=s)

    def post(self, c, a, out):
        k = avail(a) if self.size_none else If(a.size < 0, avail(a), sx.Min(a.size, avail(a)))
        return {'exact-bytes-of-the-file': sx.IsSlice(out.result, a.F, a.start + a.off, k), 'position-advances': a.self._offset == a.off + k}


@contract
class ReadAll(Base):
    target = IO + '.readall'

    def setup(self, c):
        return Call([], self_obj=stream(c))

    def post(self, c, a, out):
        k = avail(a)
        return {'exact-bytes-of-the-file': sx.IsSlice(out.result, a.F, a.start + a.off, k), 'position-advances': a.self._offset == a.off + k}


@contract
class ReadInto(Base):
    """readinto(b): fills b[:n] with the next n = min(len(b), remaining) bytes of the file, returns n, advances the position by n"""
    target = IO + '.readinto'
    blen = 4

    def setup(self, c):
        a = c.a
        s = stream(c)
        a.old = c.bytes('buf', self.blen, mutable=True)
        a.buf = a.old
        a.old_items = list(V.items_of(a.old))
        return Call([a.buf], self_obj=s)

    def post(self, c, a, out):
        n = out.result
        k = sx.Min(self.blen, avail(a))
        cl = {'count': n == k, 'position-advances': a.self._offset == a.off + k}
        items = V.items_of(a.buf)
        filled = []
        for j in range(self.blen):
            src = a.F.at(a.start + a.off + j) if hasattr(a.F, 'at') else (a.F[a.start + a.off + j] if a.start + a.off + j < len(a.F) else -1)
            filled.append(If(j < k, Eq(items[j], src), Eq(items[j], a.old_items[j])))
        cl['buffer-holds-file-bytes-rest-untouched'] = And(*filled) if filled else True
        return cl

    def observe(self, c, a, out):
        return {'kind': out.kind, 'n': out.result, 'offset': a.self._offset, 'buf': list(V.items_of(a.buf))}


@contract
class Seek(Base):
    """seek(offset, whence): new position = offset / current+offset / length+offset; a negative result (or whence not 0,1,2)
    is refused with InvalidInput and the position is unchanged; returns the new position"""
    target = IO + '.seek'
    whence = 0
    covers = ('return', 'raise:PyCdlibInvalidInput')

    def setup(self, c):
        a = c.a
        s = stream(c)
        a.o = c.int('seek_offset')
        return Call([a.o, self.whence], self_obj=s)

    def newpos(self, a):
        return {0: a.o, 1: a.off + a.o, 2: a.L + a.o}.get(self.whence)

    def raises(self, c, a):
        if self.whence not in (0, 1, 2):
            return {'PyCdlibInvalidInput': True}
        return {'PyCdlibInvalidInput': self.newpos(a) < 0}

    def expected_covers(self):
        return ('raise:PyCdlibInvalidInput',) if self.whence not in (0, 1, 2) else ('return', 'raise:PyCdlibInvalidInput')

    def post(self, c, a, out):
        return {'new-position': And(out.result == self.newpos(a), a.self._offset == self.newpos(a))}

    def post_raise(self, c, a, out):
        return {'position-unchanged': a.self._offset == a.off}


@contract
class Tell(Base):
    target = IO + '.tell'

    def setup(self, c):
        return Call([], self_obj=stream(c))

    def post(self, c, a, out):
        return {'is-position': out.result == a.off, 'unchanged': a.self._offset == a.off}


@contract
class Closed(Base):
    """every stream operation on a closed file raises InvalidInput (and only that)"""
    target = IO + '.read'
    method = 'read'
    covers = ('raise:PyCdlibInvalidInput',)

    def setup(self, c):
        a = c.a
        s = stream(c, is_open=False)
        self.target = IO + '.' + self.method
        args = {'read': [1], 'readall': [], 'readinto': [bytearray(2)], 'seek': [0, 0], 'tell': [], 'length': []}[self.method]
        return Call(args, self_obj=s)

    def raises(self, c, a):
        return {'PyCdlibInvalidInput': True}


@contract
class ReadAfterSeekSequence(Base):
    """two-call composition: seek(o, 0) then read(n) returns the file bytes [o, o+min(n, L-o)) - whatever the shared file
    position was before either call (the induction step of 'any sequence of calls')"""
    target = IO + '.read'
    label = 'pycdlibio.PyCdlibIO.seek+read'
    setup_may_raise = ('PyCdlibInvalidInput',)

    def setup(self, c):
        a = c.a
        s = stream(c)
        a.o = c.int('seek_offset', 0)
        a.n = c.int('size', 0)
        c.call(IO + '.seek', s, a.o, 0)
        # another reader of the image moves the shared file object between our two calls
        if c.symbolic:
            a.fp.pos = c.int('F_pos_between', 0)
        else:
            a.fp.seek(c.int('F_pos_between', 0))
        return Call([a.n], self_obj=s)

    def post(self, c, a, out):
        rem = If(a.L - a.o > 0, a.L - a.o, 0)
        k = sx.Min(a.n, rem)
        return {'exact-bytes-of-the-file': sx.IsSlice(out.result, a.F, a.start + a.o, k), 'position': a.self._offset == a.o + k}


# ---------------------------------------------------------------------------------------------
# extraction: utils.copy_data_yield (F4) and inode.InodeOpenData.__enter__ (F7)
# ---------------------------------------------------------------------------------------------
from pyvc.contract import LoopSpec  # noqa


class CopyLoop(LoopSpec):
    """inductive invariant of `while left > 0` in copy_data_yield (full reads):
       0 <= left <= data_length, source and destination have both advanced by data_length - left,
       and every write of the current iteration puts source bytes [i0+done, ...) at destination offset o0+done."""

    def havoc(self, it, frame):
        ctx = it.ctx
        frame.locals['left'] = ctx.fresh_int('left')
        infp, outfp = frame.locals['infp'], frame.locals['outfp']
        infp.pos = ctx.fresh_int('in_pos')
        outfp.pos = ctx.fresh_int('out_pos')
        outfp.log = []
        frame.locals['__yields'] = [ctx.fresh_int('copied_so_far')]

    def invariant(self, it, frame, phase):
        g = it.ctx.ghost
        left = frame.locals['left']
        infp, outfp = frame.locals['infp'], frame.locals['outfp']
        n, i0, o0 = g['copy_n'], g['copy_i0'], g['copy_o0']
        done = n - sx.Max(left, 0)   # what matters is how much is still to copy, not the exact value of the counter
        cl = {'left-range': left <= n, 'source-advanced': infp.pos == i0 + done, 'dest-advanced': outfp.pos == o0 + done,
              'yields-sum': sx.Sum(frame.locals['__yields']) == done}
        if phase == 'step':
            ok = []
            for (pos, data) in outfp.log:
                ok.append(sx.And(z3eq(data.arr, infp.arr), data.off - i0 == pos - o0))
            cl['each-write-copies-the-right-bytes'] = sx.And(*ok) if ok else True
        return cl

    def decreases(self, it, frame):
        return sx.Max(frame.locals['left'], 0)


def z3eq(a, b):
    from pyvc.sx import z3
    return z3.eq(a, b)


@contract
class CopyDataYield(Base):
    """F4/C16: for every data_length >= 0 and every block size >= 1, copy_data_yield copies exactly data_length bytes - source
    bytes [i0, i0+n) to destination offset o0.. - none beyond, the yielded counts add up to n, and it terminates."""
    target = 'pycdlib.utils.copy_data_yield'
    loops = {('pycdlib.utils.copy_data_yield', 0): CopyLoop()}
    crosscheck = False

    def setup(self, c):
        a = c.a
        a.src = c.abytes('src')
        a.i0 = c.int('src_pos', 0)
        a.o0 = c.int('dst_pos', 0)
        a.n = c.int('data_length', 0)
        a.bs = c.int('blocksize', 1)
        c.assume(a.i0 + a.n <= sx.Len(a.src))  # the source really holds the bytes (short reads: see CopyDataShortRead)
        a.infp = c.afile(a.src, a.i0)
        a.outfp = c.aout(a.o0)
        if c.symbolic:
            c.p.ghost.update(copy_n=a.n, copy_i0=a.i0, copy_o0=a.o0)
        return Call([a.n, a.bs, a.infp, a.outfp])

    def post(self, c, a, out):
        if c.symbolic:
            return {'source-consumed-exactly-n': a.infp.pos == a.i0 + a.n, 'dest-advanced-exactly-n': a.outfp.pos == a.o0 + a.n,
                    'yields-add-up': sx.Sum(out.result) == a.n}
        written = a.outfp.getvalue()[a.o0:]
        return {'source-consumed-exactly-n': a.infp.tell() == a.i0 + a.n, 'dest-advanced-exactly-n': a.outfp.tell() == a.o0 + a.n,
                'yields-add-up': sum(out.result) == a.n, 'bytes-equal': written == bytes(a.src)[a.i0:a.i0 + a.n]}

    def observe(self, c, a, out):
        return {'kind': out.kind}

    def seeds(self):
        # concrete inputs tried when a loop obligation is refuted (the verifier's model is a loop state, not an input)
        out = []
        for n in (0, 1, 2, 3, 5, 8, 9):
            for bs in (1, 2, 3, 4, 8, 16):
                out.append({'src': [(7 * i + 1) % 256 for i in range(n + 6)], 'src_pos': 3, 'dst_pos': 2, 'data_length': n, 'blocksize': bs})
        return out


@contract
class InodeOpen(Base):
    """F7/C16: entering InodeOpenData positions the data source at the ORIGINAL location of the data (original extent x block
    size for data still on the opened image - whatever new extent has been planned for it since - or the given offset of an
    external file object) and returns (source, data length)."""
    target = 'pycdlib.inode.InodeOpenData.__enter__'
    location = 1
    managed = False     # True: the inode was given a file NAME (add_file); every entry opens the file afresh and must still seek

    def setup(self, c):
        a = c.a
        a.F = c.abytes('F')
        a.fp = c.afile(a.F, c.int('F_pos', 0))
        if self.managed:
            return self.setup_managed(c)
        # type invariants of an Inode: extents are 32-bit on-disc fields; the offset into an external file object is a position that
        # file gave out (a C ssize_t) - beyond those, seek() itself refuses the position with OverflowError
        a.orig = c.int('orig_extent_loc', 0, 2 ** 32 - 1)
        a.new = c.int('new_extent_loc', -1)
        a.fpoff = c.int('fp_offset', 0, 2 ** 63 - 1)
        a.n = c.int('data_length', 0)
        a.lbs = 2048
        ino = c.obj('pycdlib.inode.Inode', _initialized=True, manage_fp=False, data_fp=a.fp, original_data_location=self.location,
                    orig_extent_loc=a.orig, new_extent_loc=a.new, fp_offset=a.fpoff, data_length=a.n)
        a.self = c.obj('pycdlib.inode.InodeOpenData', ino=ino, logical_block_size=a.lbs)
        return Call([], self_obj=a.self)

    def setup_managed(self, c):
        a = c.a
        a.orig = c.int('orig_extent_loc', 0, 2 ** 32 - 1)
        a.new = c.int('new_extent_loc', -1)
        a.fpoff = c.int('fp_offset', 0, 1 << 40)
        a.n = c.int('data_length', 0)
        a.lbs = 2048
        if c.symbolic:
            a.name = '/host/file.bin'
            a.opened = []

            def factory():
                f = c.afile(a.F, 0)
                a.opened.append(f)
                return f
            c.p.ghost['host_files'] = {a.name: factory}
        else:
            import os
            import tempfile
            fd, a.name = tempfile.mkstemp(prefix='pyvc-inode-')
            os.write(fd, bytes(a.F))
            os.close(fd)
        ino = c.obj('pycdlib.inode.Inode', _initialized=True, manage_fp=True, data_fp=a.name, original_data_location=self.location,
                    orig_extent_loc=a.orig, new_extent_loc=a.new, fp_offset=a.fpoff, data_length=a.n)
        a.self = c.obj('pycdlib.inode.InodeOpenData', ino=ino, logical_block_size=a.lbs)
        return Call([], self_obj=a.self)

    def post(self, c, a, out):
        fp, n = out.result
        pos = fp.pos if c.symbolic else fp.tell()
        want = a.orig * a.lbs if self.location == 1 else a.fpoff
        if self.managed:
            if not c.symbolic:
                import os
                fp.close()
                os.unlink(a.name)
            return {'positioned-at-original-data': pos == want, 'returns-source-and-length': n == a.n,
                    'opened-the-named-file-once': (len(a.opened) == 1 and fp is a.opened[0]) if c.symbolic else True}
        return {'positioned-at-original-data': pos == want, 'returns-source-and-length': And(fp is a.fp, n == a.n)}

    def observe(self, c, a, out):
        return {'kind': out.kind}


@contract
class BlocksizeRefused(Base):
    """C16/blocksize: every way of copying file data out of an image (get_file_from_iso_fp in each namespace, get_and_write_fp, the
    mastering loop of write_fp) refuses a transfer size below 1 with InvalidInput before anything is written - a size of 0 used to
    loop for ever, a negative one copied everything up to the end of the image.  This is what makes the precondition blocksize >= 1
    of the copy-loop contract (CopyDataYield) hold at every call site."""
    entry = '_get_file_from_iso_fp'
    target = 'pycdlib.pycdlib.PyCdlib._get_file_from_iso_fp'
    crosscheck = False
    label = property(lambda self: 'pycdlib.PyCdlib.%s<blocksize below 1>' % self.entry)

    def setup(self, c):
        a = c.a
        self.target = 'pycdlib.pycdlib.PyCdlib.' + self.entry
        a.bs = c.int('blocksize', None, 0)
        a.out = c.file(b'')
        a.self = c.obj('pycdlib.pycdlib.PyCdlib', _initialized=True)
        args = {'_get_file_from_iso_fp': [a.out, a.bs, b'/A.;1', None, None], '_udf_get_file_from_iso_fp': [a.out, a.bs, b'/a'],
                '_get_and_write_fp': [b'/A.;1', a.out, a.bs], '_write_fp': [a.out, a.bs, None, None]}[self.entry]
        return Call(args, self_obj=a.self)

    def raises(self, c, a):
        return {'PyCdlibInvalidInput': True}

    covers = ('raise:PyCdlibInvalidInput',)

    def post(self, c, a, out):
        return {'refused': False}

    def post_raise(self, c, a, out):
        written = a.out.items if c.symbolic else a.out.getvalue()
        return {'nothing-written': len(written) == 0}

    def observe(self, c, a, out):
        return {'kind': out.kind, 'exc': out.exc}
