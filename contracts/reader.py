"""An INDEPENDENT reader of ISO9660 / Joliet / Rock Ridge / El Torito / UDF images, written from the standards (ECMA-119,
Joliet spec, SUSP/RRIP 1.12, El Torito 1.0, ECMA-167/UDF 2.60).  It shares no code with pycdlib.

It works on a list of byte values (`img`): structure bytes must be concrete ints; file CONTENT bytes may be symbolic terms (the
reader never branches on them, it only returns slices).  Every structural rule that is violated is reported in `problems`."""
import struct as _struct


class Bad(Exception):
    pass


def _concrete(x, what):
    if not isinstance(x, int):
        raise Bad('structure byte is not concrete: %s' % what)
    return x


class Image:
    def __init__(self, img):
        self.b = img
        self.problems = []
        self.sym_checks = []

    def bad(self, msg):
        self.problems.append(msg)

    def byte(self, off):
        if off < 0 or off >= len(self.b):
            raise Bad('read past the end of the image at %d' % off)
        return _concrete(self.b[off], 'offset %d' % off)

    def raw(self, off, n):
        if off < 0 or off + n > len(self.b):
            raise Bad('read past the end of the image at %d+%d' % (off, n))
        return self.b[off:off + n]

    def cbytes(self, off, n):
        return bytes(_concrete(x, 'offset %d' % off) for x in self.raw(off, n))

    def le(self, off, n):
        return int.from_bytes(self.cbytes(off, n), 'little')

    def be(self, off, n):
        return int.from_bytes(self.cbytes(off, n), 'big')

    def both(self, off, n, what):
        lo, hi = self.raw(off, n), self.raw(off + n, n)
        if not all(isinstance(x, int) for x in list(lo) + list(hi)):
            # symbolic field (used by function-level contracts): value as a term, agreement of the copies as a side condition
            a = sum(x * 256 ** i for i, x in enumerate(lo))
            b = sum(x * 256 ** (n - 1 - i) for i, x in enumerate(hi))
            self.sym_checks.append(a == b)
            return a
        a, b = self.le(off, n), self.be(off + n, n)
        if a != b:
            self.bad('%s: little-endian %d and big-endian %d copies disagree' % (what, a, b))
        return a


class Entry:
    def __init__(self, name, isdir, extent, length, flags, rec_off, rec_len):
        self.name = name          # identifier bytes
        self.isdir = isdir
        self.extent = extent
        self.length = length
        self.flags = flags
        self.rec_off = rec_off
        self.rec_len = rec_len
        self.children = []
        self.rr = None
        self.susp = b''

    @property
    def hidden(self):
        return bool(self.flags & 1)


# ------------------------------------------------------------------------------------------------------------------
# volume descriptors
# ------------------------------------------------------------------------------------------------------------------
def volume_descriptors(im):
    vds = []
    sec = 16
    while True:
        off = sec * 2048
        if off + 2048 > len(im.b):
            im.bad('volume descriptor set is not terminated inside the image')
            break
        t = im.byte(off)
        ident = im.cbytes(off + 1, 5)
        if ident in (b'BEA01', b'NSR02', b'NSR03', b'TEA01', b'BOOT2'):
            vds.append(('udf-vrs', sec, ident))
            sec += 1
            continue
        if ident != b'CD001':
            break
        vds.append((t, sec, ident))
        sec += 1
        if sec > 64:
            break
    types = [v[0] for v in vds if v[2] == b'CD001']
    if 255 not in types:
        im.bad('no volume descriptor set terminator')
    if 1 not in types:
        im.bad('no primary volume descriptor')
    return vds


def vd_info(im, sec):
    off = sec * 2048
    info = {
        'sector': sec, 'type': im.byte(off), 'version': im.byte(off + 6), 'flags': im.byte(off + 7),
        'space_size': im.both(off + 80, 4, 'volume space size'),
        'escape': im.cbytes(off + 88, 32),
        'set_size': im.both(off + 120, 2, 'volume set size'), 'seqnum': im.both(off + 124, 2, 'volume sequence number'),
        'lbs': im.both(off + 128, 2, 'logical block size'),
        'pt_size': im.both(off + 132, 4, 'path table size'),
        'pt_l': im.le(off + 140, 4), 'pt_l_opt': im.le(off + 144, 4), 'pt_m': im.be(off + 148, 4), 'pt_m_opt': im.be(off + 152, 4),
        'root_off': off + 156,
    }
    if info['lbs'] != 2048:
        im.bad('logical block size %d' % info['lbs'])
    if im.byte(off + 156) != 34:
        im.bad('root directory record in the volume descriptor is not 34 bytes')
    return info


# ------------------------------------------------------------------------------------------------------------------
# directory records
# ------------------------------------------------------------------------------------------------------------------
def parse_record(im, off):
    n = im.byte(off)
    if n < 34:
        raise Bad('directory record shorter than 34 bytes at %d' % off)
    if n % 2:
        im.bad('odd directory record length at %d' % off)
    extent = im.both(off + 2, 4, 'record extent at %d' % off)
    length = im.both(off + 10, 4, 'record data length at %d' % off)
    flags = im.byte(off + 25)
    im.both(off + 28, 2, 'record volume sequence number at %d' % off)
    ln = im.byte(off + 32)
    if 33 + ln > n:
        raise Bad('identifier does not fit its record at %d' % off)
    name = im.cbytes(off + 33, ln)
    if ln == 0:
        im.bad('directory record without an identifier at %d (ECMA-119 9.1.10: at least one byte)' % off)
    e = Entry(name, bool(flags & 2), extent, length, flags, off, n)
    su = 33 + ln + (1 if ln % 2 == 0 else 0)
    if ln % 2 == 0 and su <= n and im.byte(off + 33 + ln) != 0:
        im.bad('pad byte after an even-length identifier is not zero at %d' % off)
    e.su_off = off + su
    e.su_len = max(0, n - su)
    return e


def read_directory(im, extent, length, what, seen=None):
    """the records of one directory extent: packed inside sectors, zero padded to the sector end"""
    out = []
    base = extent * 2048
    if length % 2048:
        im.bad('%s: directory length %d is not a whole number of sectors' % (what, length))
    off = 0
    while off < length:
        if base + off >= len(im.b):
            raise Bad('%s: directory extends past the end of the image' % what)
        n = im.byte(base + off)
        if n == 0:
            nxt = (off // 2048 + 1) * 2048
            pad = im.cbytes(base + off, min(nxt, length) - off)
            if pad.strip(b'\x00'):
                im.bad('%s: non-zero padding inside a directory sector' % what)
            off = nxt
            continue
        if off // 2048 != (off + n - 1) // 2048:
            im.bad('%s: directory record at %d crosses a sector boundary' % (what, off))
        out.append(parse_record(im, base + off))
        off += n
    return out


def read_tree(im, info, rr=False, xa=False):
    """the whole directory hierarchy below a volume descriptor, checking '.', '..', ordering and sizes"""
    root = parse_record(im, info['root_off'])
    if root.name != b'\x00' or not root.isdir:
        im.bad('root directory record is not a directory named 00')
    todo = [(root, root, b'')]
    seen = set()
    dirs_in_order = []
    while todo:
        d, parent, path = todo.pop(0)
        if d.extent in seen:
            im.bad('directory extent %d reached twice' % d.extent)
            continue
        seen.add(d.extent)
        dirs_in_order.append((d, parent, path))
        recs = read_directory(im, d.extent, d.length, path.decode('latin-1') or '/')
        if len(recs) < 2 or recs[0].name != b'\x00' or recs[1].name != b'\x01':
            im.bad('%s: directory does not start with . and ..' % (path or b'/'))
            continue
        dot, dotdot = recs[0], recs[1]
        if dot.extent != d.extent or dot.length != d.length:
            im.bad('%s: "." does not describe the directory itself (%d/%d vs %d/%d)' % (path or b'/', dot.extent, dot.length, d.extent, d.length))
        if dotdot.extent != parent.extent or dotdot.length != parent.length:
            im.bad('%s: ".." does not describe the parent (%d/%d vs %d/%d)' % (path or b'/', dotdot.extent, dotdot.length, parent.extent, parent.length))
        d.dot, d.dotdot = dot, dotdot
        names = [r.name for r in recs[2:]]
        for a, b, ra, rb in zip(names, names[1:], recs[2:], recs[3:]):
            if a > b:
                im.bad('%s: records not sorted (%r after %r)' % (path or b'/', b, a))
            if a == b and not (ra.flags & 0x80):
                im.bad('%s: duplicate identifier %r' % (path or b'/', a))
        # multi-extent files: consecutive records with the same name, all but the last flagged
        merged = []
        for r in recs[2:]:
            if merged and merged[-1].name == r.name and (merged[-1].flags_chain[-1] & 0x80):
                merged[-1].extents.append((r.extent, r.length))
                merged[-1].flags_chain.append(r.flags)
                continue
            r.extents = [(r.extent, r.length)]
            r.flags_chain = [r.flags]
            merged.append(r)
        d.children = merged
        d.all_records = recs
        for r in merged:
            r.parent = d
            r.path = path + b'/' + r.name
            if r.isdir:
                todo.append((r, d, r.path))
    root.dirs_in_order = dirs_in_order
    return root


# ------------------------------------------------------------------------------------------------------------------
# path tables
# ------------------------------------------------------------------------------------------------------------------
def read_path_table(im, sector, size, big):
    out = []
    off = sector * 2048
    end = off + size
    while off < end:
        ln = im.byte(off)
        if ln == 0:
            im.bad('path table record with a zero-length identifier')
            break
        ext = im.be(off + 2, 4) if big else im.le(off + 2, 4)
        par = im.be(off + 6, 2) if big else im.le(off + 6, 2)
        name = im.cbytes(off + 8, ln)
        out.append((name, ext, par))
        off += 8 + ln + (ln % 2)
    if off != end:
        im.bad('path table does not end at its declared size')
    return out


def check_path_tables(im, info, root):
    """both tables list exactly the directory hierarchy, in (level, parent number, identifier) order, with correct parent numbers"""
    lt = read_path_table(im, info['pt_l'], info['pt_size'], False)
    mt = read_path_table(im, info['pt_m'], info['pt_size'], True)
    if lt != mt:
        im.bad('L and M path tables differ')
    expected = []
    number = {}
    level = [(root, 1)]
    # standard order: breadth first, each level ordered by parent number then identifier
    queue = [(root, None)]
    idx = 1
    order = []
    while queue:
        nxt = []
        for d, parent in queue:
            number[id(d)] = idx
            idx += 1
            order.append((d, parent))
            for ch in d.children:
                if ch.isdir:
                    nxt.append((ch, d))
        nxt.sort(key=lambda t: (number[id(t[1])], t[0].name))
        queue = nxt
    for d, parent in order:
        expected.append((b'\x00' if parent is None else d.name, d.extent, 1 if parent is None else number[id(parent)]))
    if lt != expected:
        im.bad('path table does not list the directory hierarchy in standard order: %r vs %r' % (lt[:6], expected[:6]))
    return lt


# ------------------------------------------------------------------------------------------------------------------
# SUSP / Rock Ridge
# ------------------------------------------------------------------------------------------------------------------
class RR:
    def __init__(self):
        self.name_items = []      # the NM name, possibly symbolic byte values
        self.mode = None
        self.nlink = None
        self.symlink = None
        self.cl = None
        self.pl = None
        self.re = False
        self.entries = []
        self.ce_areas = []

    @property
    def name(self):
        return bytes(_concrete(x, 'NM name byte') for x in self.name_items)


def susp_entries(im, off, n, skip, rr, depth=0):
    """walk one system use area (record tail or continuation area)"""
    pos = off + skip
    end = off + n
    ce = None
    stopped = False
    while pos + 4 <= end:
        sig = im.cbytes(pos, 2)
        ln = im.byte(pos + 2)
        ver = im.byte(pos + 3)
        if sig == b'\x00\x00' or ln == 0:
            break
        if ln < 4 or pos + ln > end:
            im.bad('SUSP entry %r of length %d does not fit its area' % (sig, ln))
            break
        if ver != 1:
            im.bad('SUSP entry %r has version %d' % (sig, ver))
        body = pos + 4
        rr.entries.append(sig)
        if sig == b'CE':
            ce = (im.both(body, 4, 'CE block'), im.both(body + 8, 4, 'CE offset'), im.both(body + 16, 4, 'CE length'))
        elif sig == b'NM':
            flags = im.byte(body)
            if rr.__dict__.get('nm_done'):
                im.bad('NM entry after the final NM entry (CONTINUE flag was clear): a reader stops at the first complete name')
            else:
                rr.name_items += im.raw(body + 1, ln - 5)
                rr.nm_done = not (flags & 1)
        elif sig == b'PX':
            rr.mode = im.both(body, 4, 'PX mode')
            rr.nlink = im.both(body + 8, 4, 'PX links')
        elif sig == b'SL':
            flags = im.byte(body)
            p = body + 1
            comps = rr.__dict__.setdefault('sl_comps', [])
            if rr.__dict__.get('sl_done'):
                # RRIP 4.1.3: the link continues in the next SL entry only if this entry's CONTINUE flag is set
                im.bad('SL entry after the final SL entry (CONTINUE flag was clear): the target ends there for a reader')
            else:
                while p < pos + ln:
                    cf = im.byte(p)
                    cl = im.byte(p + 1)
                    comps.append((cf, im.cbytes(p + 2, cl)))
                    p += 2 + cl
                rr.sl_done = not (flags & 1)
        elif sig == b'CL':
            rr.cl = im.both(body, 4, 'CL')
        elif sig == b'PL':
            rr.pl = im.both(body, 4, 'PL')
        elif sig == b'RE':
            rr.re = True
        elif sig == b'ST':
            stopped = True
            break
        pos += ln
    # the entries fill the area; a directory record may carry one pad byte to make its length even
    if not stopped:
        if end - pos > (1 if depth == 0 else 0):
            im.bad('system use entries do not add up to the length of their area (%d bytes left over, %s)' % (end - pos, 'record' if depth == 0 else 'continuation area'))
    if ce is not None:
        blk, o, l = ce
        if o + l > 2048:
            im.bad('continuation area leaves its sector (%d+%d)' % (o, l))
        rr.ce_areas.append((blk, o, l))
        if depth < 8:
            susp_entries(im, blk * 2048 + o, l, 0, rr, depth + 1)


def susp_skip(im, root):
    """SUSP 5.3: the SP entry of the first record of the root directory says how many bytes to skip in every system use area
    (CD-ROM XA puts 14 bytes of its own first, so SP is then looked for behind them, as readers do)"""
    recs = read_directory(im, root.extent, root.length, 'root')
    dot = recs[0] if recs else None
    if dot is None:
        return 0
    for at in (0, 14):
        if dot.su_len >= at + 7 and im.cbytes(dot.su_off + at, 2) == b'SP':
            if im.cbytes(dot.su_off + at + 2, 4) != b'\x07\x01\xbe\xef':
                im.bad('SP entry is not 07 01 BE EF')
            skip = im.byte(dot.su_off + at + 6)
            if skip != at:
                im.bad('SP entry found %d bytes into the system use area but tells readers to skip %d' % (at, skip))
            return skip
    return 0


def rock_ridge(im, e, skip):
    rr = RR()
    skip = skip or getattr(im, 'susp_skip', 0)
    susp_entries(im, e.su_off, e.su_len, skip, rr)
    comps = rr.__dict__.get('sl_comps')
    if comps is not None:
        parts = []
        cur = b''
        absolute = False
        for cf, text in comps:
            if cf & 8:
                absolute = True
                continue
            if cf & 2:
                text = b'.'
            elif cf & 4:
                text = b'..'
            cur += text
            if not (cf & 1):
                parts.append(cur)
                cur = b''
        rr.symlink = (b'/' if absolute else b'') + b'/'.join(parts)
    e.rr = rr
    return rr


# ------------------------------------------------------------------------------------------------------------------
# convenience: a logical view
# ------------------------------------------------------------------------------------------------------------------
def logical_tree(im, root, rr_skip=None):
    """{path: ('dir',) | ('file', [extents], length, hidden)} of an ISO9660/Joliet tree"""
    out = {}
    for d, parent, path in root.dirs_in_order:
        for ch in d.children:
            if ch.isdir:
                out[ch.path] = ('dir', ch.hidden)
            else:
                out[ch.path] = ('file', list(ch.extents), sum(l for _, l in ch.extents), ch.hidden)
    return out


def file_bytes(im, extents):
    out = []
    for ext, ln in extents:
        out.extend(im.raw(ext * 2048, ln))
    return out


def read_iso(img):
    """-> (Image, {'pvd': info, 'root': Entry, 'svds': [...], 'vds': [...]})"""
    im = Image(img)
    vds = volume_descriptors(im)
    res = {'vds': vds, 'svds': []}
    for t, sec, ident in vds:
        if ident != b'CD001':
            continue
        if t == 1 and 'pvd' not in res:
            res['pvd'] = vd_info(im, sec)
        elif t == 2:
            res['svds'].append(vd_info(im, sec))
    if 'pvd' in res:
        res['root'] = read_tree(im, res['pvd'])
        im.susp_skip = susp_skip(im, res['root'])
        # ECMA-119 6.8.2.1: the hierarchy has at most eight levels, the root being level 1 (ISO 9660:1999 images, which announce
        # themselves with an enhanced volume descriptor of version 2, are exempt)
        levels = 1 + max(path.count(b'/') for d, parent, path in res['root'].dirs_in_order)
        if levels > 8 and not any(s['version'] == 2 for s in res['svds']):
            im.bad('directory hierarchy of %d levels (ECMA-119 allows eight)' % levels)
    return im, res


def rr_logical_tree(im, root):
    """The tree a POSIX user sees through Rock Ridge: names from NM, relocated directories (CL) shown where they logically belong,
    the RR_MOVED holding area and its RE entries hidden.  -> {rr_path: dict(kind, mode, nlink, target, extents, length)}"""
    out = {}
    ce_areas = []
    dir_hidden = {}

    def dir_records(extent):
        first = parse_record(im, extent * 2048)
        return read_directory(im, extent, first.length, 'rr dir at %d' % extent), first

    def walk(extent, path, logical_parent_extent, depth):
        if depth > 32:
            im.bad('Rock Ridge tree deeper than 32 levels (loop?)')
            return
        recs, first = dir_records(extent)
        for r in recs:
            rr = rock_ridge(im, r, 0)
            ce_areas.extend(rr.ce_areas)
            if r.name == b'\x01' and rr.pl is not None:
                if rr.pl != logical_parent_extent:
                    im.bad('PL of relocated directory at %d points at %d, not at its logical parent %d' % (extent, rr.pl, logical_parent_extent))
            if r.name in (b'\x00', b'\x01'):
                if r.name == b'\x00':
                    out[path or b'/'] = dict(kind='dir', mode=rr.mode, nlink=rr.nlink, extent=extent, hidden=dir_hidden.get(extent, False))
                continue
            if rr.re:
                continue
            if not rr.name:
                if r.name == b'RR_MOVED' or True:
                    # entries without NM are not part of the POSIX view (RR_MOVED itself carries a name in practice)
                    pass
            name = rr.name or r.name
            p = path + b'/' + name
            if r.isdir or rr.cl is not None:
                # the existence bit of a directory is on its record in the parent (for a relocated one: on the placeholder)
                dir_hidden[rr.cl if rr.cl is not None else r.extent] = r.hidden
            if rr.cl is not None:
                walk(rr.cl, p, extent, depth + 1)
            elif r.isdir:
                if name == b'rr_moved' and path == b'':
                    # the holding area: relocated directories (marked RE) are not entries of it.  A directory that holds nothing
                    # else is the pure holding area and not part of the user's tree; one that also has entries of its own (the
                    # user made a directory of that name) is shown with those.
                    sub, _ = dir_records(r.extent)
                    own = [s for s in sub if s.name not in (b'\x00', b'\x01')]
                    if own and all(rock_ridge(im, s, 0).re for s in own):
                        continue
                walk(r.extent, p, extent, depth + 1)
            else:
                kind = 'symlink' if rr.symlink is not None else 'file'
                out[p] = dict(kind=kind, mode=rr.mode, nlink=rr.nlink, target=rr.symlink, extents=[(r.extent, r.length)], length=r.length, hidden=r.hidden)
    walk(root.extent, b'', root.extent, 0)
    return out, ce_areas
