"""C08 at function level: RockRidge.new - the placement of SUSP/RRIP entries between the directory record and the continuation
area - against an independent SUSP walker (contracts/reader.py).  Name bytes and the file mode are symbolic; the lengths
(name length, record length so far) are instance parameters that the property file sweeps."""
from pyvc import sx
from pyvc import values as V
from pyvc.sx import And, Or, Not, Implies, If, Eq
from pyvc.contract import contract, Call
from contracts.utils import Base
from contracts import reader as R

RR = 'pycdlib.rockridge.RockRidge'

# symlink target shapes: absolute, '.', '..', empty components, 255+ byte components, many components
TARGETS = {
    'none': None,
    'short': b'dir/file',
    'abs': b'/usr/./lib/../x',
    'dots': b'../../.././a',
    'root': b'/',
    'empty-comps': b'a//b/',
    'c255': b'x' * 255,
    'c300': b'p/' + b'y' * 300 + b'/q',
    'c600': b'/' + b'z' * 600,
    'many': b'/'.join(b'c%d' % i for i in range(90)),
    'short-27': b'/'.join(b'p%d' % i for i in range(27)),          # fits the record by total size; many two-byte headers
    'short-45': b'/'.join(b'q%d' % i for i in range(45)),
    'many-long': b'/'.join(bytes([97 + i % 26]) * (20 + i) for i in range(30)),
    # beyond one continuation block (2048 bytes): cannot be recorded, must be refused (K73)
    'c3000': b'w' * 3000,
    'many-700': b'/'.join([b'ab'] * 700),
}


def expected_target(t):
    """what a POSIX reader shows for the components the user gave (RRIP cannot tell 'a//b' from 'a//b' - components are kept)"""
    return t


def walk(area_dr, area_ce, skip):
    """independent SUSP walk of a record's system use area and of its continuation area -> (RR, Image problems, ce tuple)"""
    im = R.Image(list(area_dr))
    rr = R.RR()
    R.susp_entries(im, 0, len(area_dr), skip, rr, depth=8)   # depth 8: the CE entry is not followed inside this image
    ce = rr.ce_areas[0] if rr.ce_areas else None
    n_dr_entries = len(rr.entries)
    im2 = R.Image(list(area_ce))
    if ce is not None:
        R.susp_entries(im2, 0, len(area_ce), 0, rr, depth=8)
    return rr, im.problems + im2.problems, ce, n_dr_entries, im.sym_checks + im2.sym_checks


def target_of(rr):
    comps = rr.__dict__.get('sl_comps')
    if comps is None:
        return None
    parts, cur, absolute = [], b'', False
    for i, (cf, text) in enumerate(comps):
        if cf & 8:
            absolute = True
            continue
        if cf & 2:
            text = b'.'
        elif cf & 4:
            text = b'..'
        cur += text
        if not (cf & 1):
            parts.append(cur)
            cur = b''
    return (b'/' if absolute else b'') + b'/'.join(parts)


@contract
class RRNew(Base):
    """C08/placement: for every name content and file mode, RockRidge.new returns an even record length <= 254 that is exactly
    the length so far plus the entries it put in the record (plus one pad byte at most); the CE entry is present exactly when
    something spilled and declares exactly the length of the continuation bytes; an independent SUSP walk of record area +
    continuation area finds well-formed entries that add up, and recovers the name, the mode, a link count of 1, the symlink
    target component for component (CONTINUE flags right), and SP/ER/CL/PL/RE exactly as asked for."""
    target = RR + '.new'
    version = '1.09'
    name_len = 8
    curr = 42
    tgt = 'none'
    first = False
    reloc = ''          # '' | 'child' | 'relocated' | 'parent'
    xa = False
    label = property(lambda self: 'RockRidge.new<%s name=%d dr=%d %s%s%s%s>' % (self.version, self.name_len, self.curr, self.tgt, ' first' if self.first else '',
                                                                                 ' ' + self.reloc if self.reloc else '', ' xa' if self.xa else ''))

    def setup(self, c):
        a = c.a
        a.self = c.new(RR)
        a.name = c.bytes('rr_name', self.name_len)
        a.mode = c.int('file_mode', 0, 0o177777)
        a.target = TARGETS[self.tgt]
        a.skip = 14 if self.xa else 0
        return Call([self.first, a.name, a.mode, a.target, self.version, self.reloc == 'child', self.reloc == 'relocated', self.reloc == 'parent',
                     a.skip, self.curr, {}, 1700000000.0], self_obj=a.self)

    def payload(self):
        return self.name_len + len(TARGETS[self.tgt] or b'')

    def expected_covers(self):
        if self.curr + 28 > 254:
            return ('raise:PyCdlibInternalError',)
        if self.payload() >= 2300:
            return ('raise:PyCdlibInvalidInput',)
        return ('return',) if self.payload() <= 1900 else ()

    def raises(self, c, a):
        # the CE entry (28 bytes) itself must fit the record; otherwise the request is refused (as an internal error)
        if self.curr + 28 > 254:
            return {'PyCdlibInternalError': None}
        # continuation areas are not chained: what needs more than one 2048-byte block cannot be recorded and is refused (K73);
        # name + target of 2300 bytes or more never fit, up to 1900 bytes they always do, in between the post-condition decides
        if self.payload() >= 2300:
            return {'PyCdlibInvalidInput': True}
        if self.payload() > 1900:
            return {'PyCdlibInvalidInput': None}
        return {}

    def post(self, c, a, out):
        r = out.result
        dr = c.call(RR + '.record_dr_entries', a.self)
        ce = c.call(RR + '.record_ce_entries', a.self)
        dr_items, ce_items = V.items_of(dr), V.items_of(ce)
        cl = {}
        cl['record-length-even-and-at-most-254'] = And(r % 2 == 0, r <= 254)
        cl['entry-lengths-add-up-to-the-record-length'] = r == self.curr + len(dr_items) + ((self.curr + len(dr_items)) % 2)
        try:
            rr, problems, cetuple, ndr, sym = walk(dr_items, ce_items, 0)
        except R.Bad as e:
            a.problems = [str(e)]
            return dict(cl, **{'independent-walker-can-decode-the-entries': False})
        a.problems = problems
        cl['system-use-areas-well-formed'] = And(not problems, *sym)
        cl['continuation-entry-iff-something-spilled'] = (cetuple is not None) == (len(ce_items) > 0)
        cl['continuation-area-fits-one-block'] = len(ce_items) <= 2048
        if cetuple is not None:
            cl['continuation-entry-declares-the-spilled-length'] = cetuple[2] == len(ce_items)
        cl['name-recovered'] = Eq(V.mk_bytes(rr.name_items), a.name)
        cl['mode-recovered'] = Eq(rr.mode, a.mode) if rr.mode is not None else False
        cl['link-count-one'] = rr.nlink == 1
        cl['symlink-target-recovered'] = target_of(rr) == (a.target if a.target else None)
        sigs = rr.entries
        cl['sp-and-er-exactly-on-the-first-root-record'] = ((b'SP' in sigs) == self.first) and ((b'ER' in sigs) == self.first) and \
            (not self.first or sigs[0] == b'SP')
        cl['relocation-entries-as-asked'] = ((b'CL' in sigs) == (self.reloc == 'child')) and ((b'RE' in sigs) == (self.reloc == 'relocated')) and \
            ((b'PL' in sigs) == (self.reloc == 'parent'))
        cl['one-px-one-tf'] = sigs.count(b'PX') == 1 and sigs.count(b'TF') == 1
        cl['rr-entry-only-in-1.09'] = (b'RR' in sigs) == (self.version == '1.09')
        cl['full-name-attribute'] = Eq(a.self._full_name, a.name)
        return cl

    def observe(self, c, a, out):
        return {'kind': out.kind, 'exc': out.exc, 'result': out.result, 'problems': getattr(a, 'problems', None)}


def sweep(tier):
    """(version, name_len, curr, tgt, first, reloc, xa) combinations: every even record length so far for the boundary-sensitive
    name lengths, all three versions"""
    out = []
    vers = ('1.09', '1.10', '1.12')
    currs_quick = list(range(34, 68, 2)) + [80, 120, 200, 226]
    currs = currs_quick if tier == 'quick' else list(range(34, 228, 2))
    name_lens_quick = [1, 8, 100, 150, 170, 180, 190, 200, 215, 249, 250, 251, 420, 500, 501, 1100]
    name_lens = name_lens_quick if tier == 'quick' else sorted(set(list(range(1, 260)) + [420, 450, 499, 500, 501, 750, 751, 1000, 1100]))
    if tier == 'quick':
        for v in vers:
            for n in name_lens:
                for cu in (34, 42, 48, 66):
                    out.append(dict(version=v, name_len=n, curr=cu))
            for cu in currs:
                out.append(dict(version=v, name_len=160, curr=cu))
                out.append(dict(version=v, name_len=3, curr=cu, tgt='many'))
            for t in TARGETS:
                for cu in (34, 48, 60):
                    out.append(dict(version=v, name_len=5, curr=cu, tgt=t))
            for t in ('short-27', 'short-45', 'dots'):
                for cu in currs:
                    for n in (3, 30):
                        out.append(dict(version=v, name_len=n, curr=cu, tgt=t))
            for n in (1900, 2048, 2100, 2110, 2125, 2300, 3000):
                out.append(dict(version=v, name_len=n, curr=34))
                out.append(dict(version=v, name_len=n, curr=48, xa=True))
            for t in ('c3000', 'many-700'):
                out.append(dict(version=v, name_len=4, curr=34, tgt=t))
            out.append(dict(version=v, name_len=1000, curr=34, tgt='c600'))
            out.append(dict(version=v, name_len=1500, curr=34, tgt='c600'))
            out.append(dict(version=v, name_len=0, curr=34, first=True))
            out.append(dict(version=v, name_len=0, curr=48, first=True, xa=True))
            for rl in ('child', 'relocated', 'parent'):
                out.append(dict(version=v, name_len=6, curr=40, reloc=rl))
                out.append(dict(version=v, name_len=190, curr=40, reloc=rl))
    else:
        for v in vers:
            for n in name_lens:
                for cu in currs[::4] if n not in name_lens_quick else currs:
                    out.append(dict(version=v, name_len=n, curr=cu))
            for t in TARGETS:
                for cu in currs:
                    out.append(dict(version=v, name_len=5, curr=cu, tgt=t))
                for n in (100, 180, 251):
                    out.append(dict(version=v, name_len=n, curr=46, tgt=t))
            for cu in (34, 48):
                out.append(dict(version=v, name_len=0, curr=cu, first=True, xa=cu == 48))
            for rl in ('child', 'relocated', 'parent'):
                for n in (0, 6, 150, 190, 210, 260):
                    for cu in (34, 40, 60):
                        out.append(dict(version=v, name_len=n, curr=cu, reloc=rl))
    # the refusal domain
    for v in vers:
        out.append(dict(version=v, name_len=4, curr=228))
        out.append(dict(version=v, name_len=4, curr=254))
        for n in (1900, 2048, 2100, 2110, 2125, 2300, 3000):
            out.append(dict(version=v, name_len=n, curr=34))
        for t in ('c3000', 'many-700'):
            out.append(dict(version=v, name_len=4, curr=34, tgt=t))
    seen, uniq = set(), []
    for d in out:
        k = tuple(sorted(d.items()))
        if k not in seen:
            seen.add(k)
            uniq.append(d)
    return uniq
