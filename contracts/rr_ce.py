"""Contracts for the Rock Ridge continuation-area allocator (C04/ce, C08/ce-alloc) and _set_inode (C04/inode, C07/same-bytes)."""
from pyvc import sx
from pyvc import values as V
from pyvc.sx import And, Or, Not, Implies, If, Eq
from pyvc.contract import contract, Call
from contracts.utils import Base

BLK = 'pycdlib.rockridge.RockRidgeContinuationBlock'
ENT = 'pycdlib.rockridge.RockRidgeContinuationEntry'
VD = 'pycdlib.headervd.PrimaryOrSupplementaryVD'


def block(c, n, prefix=''):
    """a continuation block satisfying CE-INV: n entries sorted by offset, pairwise disjoint, inside [0, max)"""
    a = c.a
    mx = 2048
    ents = []
    prev_end = 0
    offs, lens = [], []
    for i in range(n):
        o = c.int('%soff%d' % (prefix, i), 0, mx)
        l = c.int('%slen%d' % (prefix, i), 1, mx)
        c.assume(And(o >= prev_end, o + l <= mx))
        prev_end = o + l
        offs.append(o)
        lens.append(l)
        ents.append(c.obj(ENT, _offset=o, _length=l))
    a.offs, a.lens, a.max = offs, lens, mx
    return c.obj(BLK, _extent=c.int(prefix + 'extent', -1, 1 << 30), _max_block_size=mx, _entries=ents)


def disjoint(o, l, o2, l2):
    return Or(o + l <= o2, o2 + l2 <= o)


@contract
class CEAddEntry(Base):
    """C04/ce: add_entry(length) either reports 'no room' as None (that is what its caller tests) or returns an offset o with
    0 <= o, o + length <= block size, disjoint from every existing area; the entry list stays sorted, disjoint, in the block,
    and gains exactly that entry.  When some gap or the tail has room, it does not report 'no room'."""
    target = BLK + '.add_entry'
    n = 2

    def setup(self, c):
        a = c.a
        a.self = block(c, self.n)
        a.length = c.int('length', 1, 2048)
        return Call([a.length], self_obj=a.self)

    def post(self, c, a, out):
        r = out.result
        ents = a.self._entries
        if r is None:
            # no room: really none of the candidate places fits
            prev_end = 0
            for o, l in zip(a.offs, a.lens):
                prev_end = o + l
            tail = a.max - prev_end >= a.length
            first_gap_usable = (a.offs[0] >= a.length) if self.n else False
            inner = [a.offs[i] - (a.offs[i - 1] + a.lens[i - 1]) >= a.length for i in range(1, self.n)]
            return {'no-room-is-true': Not(Or(first_gap_usable, tail, *inner)), 'entries-unchanged': len(ents) == self.n}
        cl = {'offset-is-an-int-not-a-sentinel': And(r >= 0, r + a.length <= a.max),
              'disjoint-from-existing': And(*[disjoint(r, a.length, o, l) for o, l in zip(a.offs, a.lens)]) if self.n else True,
              'one-entry-added': len(ents) == self.n + 1}
        if len(ents) == self.n + 1:
            srt = [ents[i]._offset + ents[i]._length <= ents[i + 1]._offset for i in range(self.n)]
            cl['entries-sorted-disjoint'] = And(*srt) if srt else True
            cl['new-entry-recorded'] = Or(*[And(e._offset == r, e._length == a.length) for e in ents])
        return cl

    def observe(self, c, a, out):
        return {'kind': out.kind, 'result': out.result, 'entries': [[e._offset, e._length] for e in a.self._entries]}


@contract
class VDAddRRCEEntry(Base):
    """C04/ce: add_rr_ce_entry(length) returns (added_block, block, offset): the entry lies in the returned block at a real offset,
    a new block is appended exactly when added_block is True (the caller books one more sector exactly then)"""
    target = VD + '.add_rr_ce_entry'
    n = 1

    def setup(self, c):
        a = c.a
        a.blk = block(c, self.n)
        a.self = c.obj(VD, _initialized=True, log_block_size=2048, rr_ce_blocks=[a.blk])
        a.length = c.int('length', 1, 2048)
        return Call([a.length], self_obj=a.self)

    def post(self, c, a, out):
        added, blk, off = out.result
        blocks = a.self.rr_ce_blocks
        return {'offset-valid': And(off is not None, off >= 0, off + a.length <= 2048) if off is not None else False,
                'block-count-matches-flag': len(blocks) == (2 if added else 1),
                'entry-is-in-returned-block': any(True for e in blk._entries) and Or(*[And(e._offset == off, e._length == a.length) for e in blk._entries]),
                'returned-block-is-tracked': any(b is blk for b in blocks)}

    def observe(self, c, a, out):
        return {'kind': out.kind, 'added': out.result[0] if out.kind == 'return' else None, 'off': out.result[2] if out.kind == 'return' else None}


@contract
class SetInode(Base):
    """C04/inode + C07/same-bytes: _set_inode puts the content at the current sector (skipping the sector reserved for the
    third UDF anchor), gives EVERY record linked to it that same data location, and returns the first sector after the
    content: start + ceil(length / block size)."""
    target = 'pycdlib.pycdlib.PyCdlib._set_inode'
    nlinks = 2
    anchors = 2

    def setup(self, c):
        a = c.a
        a.cur = c.int('current_extent', 16, 1 << 30)
        a.space = c.int('space_size', 300, 1 << 31)
        a.n = c.int('data_length', 0, (1 << 32) - 1)
        a.recs = [c.obj('pycdlib.dr.DirectoryRecord', initialized=True, new_extent_loc=c.int('old_loc%d' % i, -1, 1 << 30), ptr=None) for i in range(self.nlinks)]
        a.ino = c.obj('pycdlib.inode.Inode', _initialized=True, data_length=a.n, new_extent_loc=-1, linked_records=[(r, True) for r in a.recs])
        pvd = c.obj('pycdlib.headervd.PrimaryOrSupplementaryVD', _initialized=True, space_size=a.space)
        a.self = c.obj('pycdlib.pycdlib.PyCdlib', _initialized=True, pvd=pvd, logical_block_size=2048, udf_anchors=[None] * self.anchors)
        a.q, a.r = c.divmod(a.n, 2048)
        return Call([a.ino, a.cur, 0], self_obj=a.self)

    def post(self, c, a, out):
        start = If(And(self.anchors > 2, a.cur == a.space - 256), a.cur + 1, a.cur) if self.anchors > 2 else a.cur
        sectors = If(a.r == 0, a.q, a.q + 1)
        return {'content-at-start': a.ino.new_extent_loc == start,
                'every-link-points-at-the-content': And(*[r.new_extent_loc == start for r in a.recs]) if a.recs else True,
                'returns-first-free-sector': out.result == start + sectors}

    def observe(self, c, a, out):
        return {'kind': out.kind, 'result': out.result, 'locs': [r.new_extent_loc for r in a.recs], 'ino': a.ino.new_extent_loc}


@contract
class CERemoveEntry(Base):
    """C08/ce-alloc: remove_entry(offset, length) removes exactly the entry with that offset and length and keeps every other
    entry (same objects, same order); it raises (internal error) exactly when no entry matches"""
    target = BLK + '.remove_entry'
    n = 3

    def setup(self, c):
        a = c.a
        a.self = block(c, self.n)
        a.before = list(a.self._entries)
        a.o = c.int('offset', 0, 2048)
        a.l = c.int('length', 0, 2048)
        return Call([a.o, a.l], self_obj=a.self)

    def matches(self, a):
        return [And(o == a.o, l == a.l) for o, l in zip(a.offs, a.lens)]

    def raises(self, c, a):
        return {'PyCdlibInternalError': Not(Or(*self.matches(a))) if self.n else True}

    def post(self, c, a, out):
        ents = a.self._entries
        cl = {'exactly-one-entry-removed': len(ents) == self.n - 1}
        if len(ents) == self.n - 1:
            gone = [e for e in a.before if not any(e is x for x in ents)]
            cl['the-removed-entry-is-the-matching-one'] = len(gone) == 1 and And(gone[0]._offset == a.o, gone[0]._length == a.l)
            cl['others-kept-in-order'] = all(x is y for x, y in zip([e for e in a.before if any(e is z for z in ents)], ents))
        return cl

    def observe(self, c, a, out):
        return {'kind': out.kind, 'exc': out.exc, 'entries': [[e._offset, e._length] for e in a.self._entries]}


@contract
class CETrackEntry(Base):
    """C08/ce-alloc (parse side): track_entry(offset, length) refuses (InvalidISO) exactly when the area shares a byte with a
    tracked area or leaves the block; otherwise the list gains exactly that area and stays sorted and disjoint"""
    target = BLK + '.track_entry'
    n = 2

    def setup(self, c):
        a = c.a
        a.self = block(c, self.n)
        a.o = c.int('offset', 0, 4096)
        a.l = c.int('length', 1, 4096)
        return Call([a.o, a.l], self_obj=a.self)

    def raises(self, c, a):
        overlap = [Not(disjoint(a.o, a.l, o, l)) for o, l in zip(a.offs, a.lens)]
        return {'PyCdlibInvalidISO': Or(a.o + a.l > a.max, *overlap)}

    def post(self, c, a, out):
        ents = a.self._entries
        cl = {'one-entry-added': len(ents) == self.n + 1}
        if len(ents) == self.n + 1:
            cl['entries-sorted-disjoint-in-block'] = And(*[ents[i]._offset + ents[i]._length <= ents[i + 1]._offset for i in range(self.n)],
                                                         ents[-1]._offset + ents[-1]._length <= a.max)
            cl['new-entry-recorded'] = Or(*[And(e._offset == a.o, e._length == a.l) for e in ents])
        return cl

    def observe(self, c, a, out):
        return {'kind': out.kind, 'exc': out.exc, 'entries': [[e._offset, e._length] for e in a.self._entries]}


def remove_child_hook(it, fv, args, kwargs):
    """callee contract of DirectoryRecord.remove_child at this call site: True iff the parent directory shrank by a sector
    (proved separately: contracts/dr.py)"""
    return it.ctx.ghost['dir_shrank']


@contract
class RemoveChildReleasesCE(Base):
    """C04/C08 accounting on removal: _remove_child_from_dr gives back the continuation area of the removed record and - exactly
    when that was the last area of its block - drops the block from the volume descriptor; the bytes it reports are one sector
    for a directory that shrank plus one sector for a dropped block, so that the volume size keeps counting exactly the blocks
    the layout will place"""
    target = 'pycdlib.pycdlib.PyCdlib._remove_child_from_dr'
    n = 2          # areas in the record's block, the record's own included
    hooks = {'pycdlib.dr.DirectoryRecord.remove_child': remove_child_hook}

    def setup(self, c):
        a = c.a
        a.blk = block(c, self.n)
        a.which = 0 if self.n == 1 else c.choice('which', list(range(self.n)))
        a.other = c.obj(BLK, _extent=7, _max_block_size=2048, _entries=[c.obj(ENT, _offset=0, _length=10)])
        pvd = c.obj(VD, _initialized=True, log_block_size=2048, rr_ce_blocks=[a.other, a.blk])
        ce = c.obj('pycdlib.rockridge.RRCERecord', _initialized=True, bl_cont_area=5, offset_cont_area=a.offs[a.which], len_cont_area=a.lens[a.which])
        ent = c.obj('pycdlib.rockridge.RockRidgeEntries', ce_record=ce)
        rr = c.obj('pycdlib.rockridge.RockRidge', _initialized=True, dr_entries=ent, ce_block=a.blk)
        a.shrank = c.bool('dir_shrank')
        if c.symbolic:
            c.p.ghost['dir_shrank'] = a.shrank
        else:
            shrank = a.shrank
            self.real_hooks = {'pycdlib.dr.DirectoryRecord.remove_child': lambda self_, child, index, lbs: shrank}
        parent = c.obj('pycdlib.dr.DirectoryRecord', initialized=True, children=[])
        a.child = c.obj('pycdlib.dr.DirectoryRecord', initialized=True, parent=parent, rock_ridge=rr)
        a.pvd = pvd
        a.before = list(a.blk._entries)
        a.self = c.new('pycdlib.pycdlib.PyCdlib')
        a.self.pvd = pvd
        a.self.logical_block_size = 2048
        return Call([a.child, 0], self_obj=a.self)

    def post(self, c, a, out):
        ents = a.blk._entries
        last = self.n == 1
        kept = [e for i, e in enumerate(a.before) if i != a.which]
        return {'the-record-s-area-is-released-and-only-that': len(ents) == self.n - 1 and all(x is y for x, y in zip(kept, ents)),
                'block-dropped-iff-it-became-empty': (not any(b is a.blk for b in a.pvd.rr_ce_blocks)) == last,
                'other-blocks-stay': any(b is a.other for b in a.pvd.rr_ce_blocks),
                'bytes-reported': out.result == If(a.shrank, 2048, 0) + (2048 if last else 0),
                'record-no-longer-holds-the-block': a.child.rock_ridge.ce_block is None}

    def observe(self, c, a, out):
        return {'kind': out.kind, 'exc': out.exc, 'result': out.result}
