"""Contracts for rockridge.RRTFRecord (C19/tf, C08/len, C05)."""
from pyvc import sx
from pyvc import values as V
from pyvc.sx import And, Or, Not, Implies, If, Eq
from pyvc.contract import contract, Call
from contracts.utils import Base
from contracts.dates import ZoneMixin, u8

TF = 'pycdlib.rockridge.RRTFRecord'
NAMES = ('creation_time', 'access_time', 'modification_time', 'attribute_change_time', 'backup_time', 'expiration_time', 'effective_time')


def popcount7(flags):
    return bin(flags & 0x7f).count('1')


@contract
class TFLength(Base):
    """C08/len: length(flags) = 5 + (7|17) * popcount(flags & 0x7f)"""
    target = TF + '.length'
    flags = 0

    def setup(self, c):
        return Call([self.flags])

    def post(self, c, a, out):
        each = 17 if self.flags & 0x80 else 7
        return {'length': out.result == 5 + each * popcount7(self.flags)}


@contract
class TFNewRecord(ZoneMixin, Base):
    """C19/tf: new(flags, t).record(): header 'TF', length byte = real length, version 1, flags, then one date per set bit
    (7-byte form: local time of t and the zone offset; 17-byte form: digits + offset byte)"""
    target = TF + '.record'
    label = 'rockridge.RRTFRecord.new+record'
    flags = 0x0e

    def setup(self, c):
        self.zone(c)
        a = c.a
        c.assume(a.t != 0)
        a.self = c.new(TF)
        c.call(TF + '.new', a.self, self.flags, a.t)
        return Call([], self_obj=a.self)

    def post(self, c, a, out):
        r, l = out.result, a.local
        long_form = bool(self.flags & 0x80)
        each = 17 if long_form else 7
        n = popcount7(self.flags)
        cl = {'length': len(r) == 5 + each * n,
              'header': And(r[0] == 0x54, r[1] == 0x46, r[2] == 5 + each * n, r[3] == 1, r[4] == self.flags)}
        if len(r) == 5 + each * n:
            dates = []
            for k in range(n):
                o = 5 + k * each
                if long_form:
                    dates.append(And(r[o + 16] == u8(a.z), (r[o] - 48) * 1000 + (r[o + 1] - 48) * 100 + (r[o + 2] - 48) * 10 + (r[o + 3] - 48) == l.tm_year,
                                     (r[o + 4] - 48) * 10 + r[o + 5] - 48 == l.tm_mon, (r[o + 6] - 48) * 10 + r[o + 7] - 48 == l.tm_mday,
                                     (r[o + 8] - 48) * 10 + r[o + 9] - 48 == l.tm_hour, (r[o + 10] - 48) * 10 + r[o + 11] - 48 == l.tm_min,
                                     (r[o + 12] - 48) * 10 + r[o + 13] - 48 == l.tm_sec))
                else:
                    dates.append(And(r[o] == l.tm_year - 1900, r[o + 1] == l.tm_mon, r[o + 2] == l.tm_mday, r[o + 3] == l.tm_hour,
                                     r[o + 4] == l.tm_min, r[o + 5] == l.tm_sec, r[o + 6] == u8(a.z)))
            cl['each-date-denotes-t'] = And(*dates) if dates else True
        return cl


@contract
class TFRoundTrip(Base):
    """C05: record(parse(b)) == b for a well-formed TF entry of the length its flags imply (7-byte dates)"""
    target = TF + '.record'
    label = 'rockridge.RRTFRecord.parse+record'
    flags = 0x0e

    def setup(self, c):
        a = c.a
        n = 5 + 7 * popcount7(self.flags)
        a.body = c.bytes('b', n - 5)
        a.b = V.mk_bytes([0x54, 0x46, n, 1, self.flags] + V.items_of(a.body))
        a.self = c.new(TF)
        c.call(TF + '.parse', a.self, a.b)
        return Call([], self_obj=a.self)

    def post(self, c, a, out):
        return {'identity': Eq(out.result, a.b)}
