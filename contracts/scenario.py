"""Whole-API scenario contracts: the real PyCdlib methods are executed by pyvc on an image built through the real API
(concrete structure, symbolic scalars where stated), and the same scenario is replayed on CPython.

Determinism: time.time() is one shared symbol `now` (replay: pinned), random.getrandbits / uuid are pinned to zero (replay: patched)."""
from pyvc import sx
from pyvc import values as V
from pyvc.sx import And, Or, Not, Implies, If, Eq
from pyvc.contract import contract, Call
from contracts.utils import Base

PC = 'pycdlib.pycdlib.PyCdlib'
NOW = 1700000000


def pin_environment(c):
    """same clock and same 'random' values for every image built in this scenario, in both modes"""
    if c.symbolic:
        c.p.ghost['now'] = NOW
        c.p.ghost['tz_quarters'] = 0
        c.p.ghost['rand_fixed'] = True
    else:
        import os
        import random
        import time
        import uuid
        os.environ['TZ'] = 'UTC'
        time.tzset()
        time.time = lambda: NOW
        random.getrandbits = lambda k: 0
        uuid.uuid4 = lambda: uuid.UUID(bytes=b'\x00' * 16)


def new_image(c, **kw):
    iso = c.new(PC)
    c.call(PC + '.new', iso, **kw)
    return iso


def call(c, iso, method, *args, **kw):
    return c.call(PC + '.' + method, iso, *args, **kw)


def data_file(c, content):
    return c.file(content)


def written(c, iso):
    out = c.file(b'')
    call(c, iso, 'write_fp', out)
    if c.symbolic:
        return V.mk_bytes(out.items)
    return out.getvalue()


BASES = {
    'plain': dict(kw={}, paths=dict(iso_path='/FOO.;1')),
    'joliet': dict(kw=dict(joliet=3), paths=dict(iso_path='/FOO.;1', joliet_path='/foo')),
    'rr': dict(kw=dict(rock_ridge='1.09'), paths=dict(iso_path='/FOO.;1', rr_name='foo')),
    'rr+joliet': dict(kw=dict(rock_ridge='1.09', joliet=3), paths=dict(iso_path='/FOO.;1', rr_name='foo', joliet_path='/foo')),
    'udf': dict(kw=dict(udf='2.60'), paths=dict(iso_path='/FOO.;1', udf_path='/foo')),
    'all': dict(kw=dict(rock_ridge='1.09', joliet=3, udf='2.60'), paths=dict(iso_path='/FOO.;1', rr_name='foo', joliet_path='/foo', udf_path='/foo')),
}


BOOT = b'\x00' * 0x40 + b'\xfb\xc0\x78\x70' + b'\x00' * 60


def base_image(c, kind):
    """an image of the given flavour holding one file and one directory in every namespace it carries"""
    if kind.startswith('eltorito'):
        iso = base_image(c, 'joliet' if 'joliet' in kind else 'plain')
        call(c, iso, 'add_fp', data_file(c, BOOT), len(BOOT), iso_path='/BOOT.;1', **({'joliet_path': '/boot'} if 'joliet' in kind else {}))
        call(c, iso, 'add_eltorito', '/BOOT.;1', **({'bootcatfile': '/BOOT.CAT;1'}))
        if '2' in kind:
            call(c, iso, 'add_fp', data_file(c, b'efi image'), 9, iso_path='/EFI.;1', **({'joliet_path': '/efi'} if 'joliet' in kind else {}))
            call(c, iso, 'add_eltorito', '/EFI.;1', efi=True)
        if 'link' in kind:
            call(c, iso, 'add_hard_link', iso_old_path='/BOOT.;1', iso_new_path='/BOOTLNK.;1')
        return iso
    if kind == 'rr-deep7-rr_moved-taken':
        # seven nested directories, and a FILE in the root whose Rock Ridge name is the one the holding directory would get
        iso = base_image(c, 'rr')
        call(c, iso, 'add_fp', data_file(c, b'user'), 4, iso_path='/X.;1', rr_name='rr_moved')
        p = ''
        for i in range(1, 8):
            p += '/D%d' % i
            call(c, iso, 'add_directory', iso_path=p, rr_name='d%d' % i)
        return iso
    if kind.endswith('+sub'):
        # the directory holds one file in every namespace
        iso = base_image(c, kind[:-4])
        b = BASES[kind[:-4]]
        sub = {k: {'iso_path': '/DIR1/SUB.;1', 'rr_name': 'sub', 'joliet_path': '/dir1/sub', 'udf_path': '/dir1/sub'}[k] for k in b['paths']}
        call(c, iso, 'add_fp', data_file(c, b'sub'), 3, **sub)
        return iso
    b = BASES[kind]
    iso = new_image(c, **b['kw'])
    call(c, iso, 'add_fp', data_file(c, b'hello world'), 11, **b['paths'])
    dpaths = {}
    for k, v in b['paths'].items():
        dpaths[k] = {'iso_path': '/DIR1', 'rr_name': 'dir1', 'joliet_path': '/dir1', 'udf_path': '/dir1'}[k]
    call(c, iso, 'add_directory', **dpaths)
    return iso


def try_call(c, fn):
    """run fn(); returns (True, value) or (False, exception class name) - in both modes"""
    if c.symbolic:
        from pyvc.interp import PyExc
        try:
            return True, fn()
        except PyExc as e:
            return False, e.obj.cls.name
    try:
        return True, fn()
    except Exception as e:  # noqa
        return False, type(e).__name__
