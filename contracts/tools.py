"""C20: the two command line tools.

(1) Deductive part (pyvc on the real AST of tools/pycdlib-genisoimage): the path builders - collision numbering of ISO9660
    identifiers, Joliet and UDF paths.
(2) Bounded stand-in (run-time contract on the real programs): building an image from a directory tree with pycdlib-genisoimage
    and extracting it with pycdlib-extract-files, over a table of trees and option sets.  The programs walk a real file system and
    parse a real command line, which is outside the verifier's subset; this part is labelled bounded and never counted as proved."""
import os

from pyvc import sx
from pyvc import values as V
from pyvc.sx import And, Or, Not, Implies, Eq
from pyvc.contract import contract, Call
from contracts.utils import Base
from contracts.mangle import cp, teq, is_d, all_d

GEN = 'tools.pycdlib_genisoimage.'


# ------------------------------------------------------------------------------------------------------------------
# (1) path builders
# ------------------------------------------------------------------------------------------------------------------
class UsedNames(dict):
    """the names already used at one directory level, as an oracle that is a SET (the same name always gets the same answer):
    the first k distinct names asked about are taken, any further distinct name is free - every way k collisions can happen;
    records what was asked and what was added"""

    def __init__(self, k):
        dict.__init__(self)
        self.k = k
        self.asked = []
        self.taken = []
        self.added = []

    # concrete mode (replay on the real function)
    def __contains__(self, item):
        self.asked.append(item)
        if item in self.taken:
            return True
        if len(self.taken) < self.k:
            self.taken.append(item)
            return True
        return False

    def __setitem__(self, key, value):
        self.added.append(key)
        if isinstance(key, str):
            dict.__setitem__(self, key, value)

    # symbolic mode
    def _pyvc_contains(self, it, item):
        from pyvc.stdlib import str_eq
        self.asked.append(item)
        for t in self.taken:
            if it.truth(str_eq(item, t)):
                return True
        if len(self.taken) < self.k:
            self.taken.append(item)
            return True
        return False

    def _pyvc_setitem(self, it, idx, v):
        self.added.append(idx)


def mangle_file_hook(it, fv, args, kwargs):
    """callee contract of mangle_file_for_iso9660 (proved by contracts/mangle.py MangleFile): (base, ext + ';1') with base.ext
    legal for the level"""
    g = it.ctx.ghost
    return (g['mangled_base'], g['mangled_ext'])


def mangle_dir_hook(it, fv, args, kwargs):
    return it.ctx.ghost['mangled_base']


def d_text(c, name, n):
    t = c.text(name, n)
    for x in cp(t):
        c.assume(is_d(x))
    return t


@contract
class BuildIsoPath(Base):
    """C20/iso-path: given that the mangled name is legal (callee contract), build_iso_path returns parent + '/' + an identifier
    that (a) is the last name it tested and found free - so it is distinct from every name used at that level -, (b) is recorded
    as used (exactly one name is added), (c) is itself a legal identifier for the level: directories d-characters only and at most
    8 / 31 characters, files NAME.EXT;1 with exactly one dot, d-characters, 8.3 at level 1 - also after k collisions, whatever the
    length of the original name"""
    target = GEN + 'build_iso_path'
    base_len = 3
    ext_len = 3
    level = 1
    is_dir = False
    collisions = 1
    parent = '/'
    hooks = {'pycdlib.utils.mangle_file_for_iso9660': mangle_file_hook, 'pycdlib.utils.mangle_dir_for_iso9660': mangle_dir_hook}
    label = property(lambda self: 'build_iso_path<%s base=%d ext=%d level=%d collisions=%d>' % ('dir' if self.is_dir else 'file', self.base_len, self.ext_len, self.level, self.collisions))

    def setup(self, c):
        a = c.a
        a.base = d_text(c, 'base', self.base_len)
        a.ext = d_text(c, 'ext', self.ext_len)
        extv = a.ext + ';1' if not c.symbolic else None
        if c.symbolic:
            from pyvc.stdlib import mk_str
            extv = mk_str(cp(a.ext) + [59, 49])
            c.p.ghost['mangled_base'] = a.base
            c.p.ghost['mangled_ext'] = extv
        else:
            base, ev = a.base, extv
            self.real_hooks = {'pycdlib.utils.mangle_file_for_iso9660': lambda name, level: (base, ev),
                               'pycdlib.utils.mangle_dir_for_iso9660': lambda name, level: base}
        a.used = UsedNames(self.collisions)
        a.level_obj = c.obj(GEN + 'DirLevel', iso_path=self.parent, joliet_path='/', udf_path='/', mangled_children=a.used)
        return Call([a.level_obj, 'original name', self.level, self.is_dir])

    def post(self, c, a, out):
        r = out.result
        cl = {'a-name-is-found': r is not None}
        if r is None:
            return cl
        used = a.used
        cl['exactly-one-name-recorded-as-used'] = len(used.added) == 1
        if len(used.added) != 1:
            return cl
        ident = used.added[0]
        cl['recorded-name-is-the-one-found-free'] = len(used.taken) == self.collisions and teq(ident, used.asked[-1])
        cl['recorded-name-differs-from-every-name-in-use'] = And(*[Not(teq(ident, t)) for t in used.taken]) if used.taken else True
        prefix = '' if self.parent == '/' else self.parent
        from pyvc.stdlib import mk_str
        cl['result-is-parent-slash-identifier'] = teq(r, mk_str([ord(ch) for ch in prefix] + [47] + cp(ident)))
        x = cp(ident)
        if self.level < 4:
            if self.is_dir:
                cl['identifier-is-legal'] = And(len(x) >= 1, len(x) <= (8 if self.level == 1 else 31), *[is_d(ch) for ch in x])
            else:
                # NAME '.' EXT ';' '1' with exactly one dot and one semicolon
                legal = False
                if len(x) >= 3 and not sx.is_sym(x[-1]) and x[-2:] == [59, 49]:
                    body = x[:-2]
                    alts = []
                    for d in range(len(body)):
                        name, ext = body[:d], body[d + 1:]
                        shape = And(Eq(body[d], 46), *[is_d(ch) for ch in name + ext])
                        lim = And(len(name) <= 8, len(ext) <= 3) if self.level == 1 else (len(name) + len(ext) <= 30)
                        alts.append(And(shape, lim, len(name) + len(ext) >= 1))
                    legal = Or(*alts) if alts else False
                cl['identifier-is-legal'] = legal
        return cl

    def observe(self, c, a, out):
        return {'kind': out.kind, 'result': out.result if isinstance(out.result, str) else None, 'asked': [x for x in a.used.asked if isinstance(x, str)]}


@contract
class BuildLongPath(Base):
    """C20/long-names: build_joliet_path / build_udf_path return root + '/' + name unchanged whenever every component fits the
    namespace (Joliet: 64 characters), with exactly one slash between components and none doubled"""
    target = GEN + 'build_joliet_path'
    which = 'joliet'
    root_lens = (3,)
    name_len = 5
    label = property(lambda self: 'build_%s_path<root=%s name=%d>' % (self.which, '/'.join(str(n) for n in self.root_lens), self.name_len))

    def setup(self, c):
        a = c.a
        self.target = GEN + 'build_%s_path' % self.which
        comps = []
        for i, n in enumerate(self.root_lens):
            t = c.text('dir%d' % i, n)
            for x in cp(t):
                c.assume(x != 47)
            comps.append(t)
        a.comps = comps
        a.name = c.text('name', self.name_len)
        for x in cp(a.name):
            c.assume(x != 47)
        from pyvc.stdlib import mk_str
        items = []
        for t in comps:
            items += [47] + cp(t)
        a.root = mk_str(items) if items else '/'
        return Call([a.root, a.name])

    def post(self, c, a, out):
        from pyvc.stdlib import mk_str
        want = []
        for t in a.comps:
            want += [47] + cp(t)
        want += [47] + cp(a.name)
        return {'path-is-root-slash-name-unchanged': teq(out.result, mk_str(want))}

    def observe(self, c, a, out):
        return {'kind': out.kind, 'result': out.result if isinstance(out.result, str) else None}


# ------------------------------------------------------------------------------------------------------------------
# (2) whole programs, bounded
# ------------------------------------------------------------------------------------------------------------------
def _collision_pair():
    """two different 8-byte contents with the same murmur3-32 hash (found by a birthday search over a fixed sequence; the tool's
    own hash function is used, so a change of the function is followed)"""
    import importlib.machinery
    import importlib.util
    import pycdlib
    path = os.path.join(os.path.dirname(os.path.dirname(pycdlib.__file__)), 'tools', 'pycdlib-genisoimage')
    loader = importlib.machinery.SourceFileLoader('pycdlib_genisoimage_for_hash', path)
    spec = importlib.util.spec_from_loader(loader.name, loader)
    mod = importlib.util.module_from_spec(spec)
    loader.exec_module(mod)
    seen = {}
    i = 0
    while i < 400000:
        data = b'%08d' % i
        h = mod.mm3hash(data)
        if h in seen:
            return seen[h], data
        seen[h] = data
        i += 1
    return None


TREES = {
    'basic': {'a.txt': b'hello\n', 'sub/b': b'other\n', 'sub/deeper/foo.bar': b'y', 'sub/deeper/foo.baz': b'z', 'empty': b'', 'emptydir/': None,
              'a long file name with spaces.text': b'x' * 3000},
    'colliding-names': {'foo.bar': b'1', 'FOO.BAR': b'2', 'Foo.Bar': b'3', 'abcdefghij.txt': b'4', 'abcdefghiJ.txt': b'5', 'abcdefghXX.txt': b'6',
                        'ab.c': b'7', 'AB.C': b'8', 'dir name one/': None, 'dir name two/': None, 'dir name one/f': b'9', 'dir name two/f': b'10',
                        'x': b'11', 'X': b'12', 'noext': b'13', 'NOEXT': b'14'},
    'unicode': {'été.txt': b'summer', '日本語/': None, '日本語/ファイル': b'file', 'straße': b'street'},
    'deep': {'d1/d2/d3/d4/d5/d6/d7/d8/d9/deep.txt': b'deep', 'd1/d2/top.txt': b'top'},
    'symlinks': {'target.txt': b'target', 'link': ('symlink', 'target.txt'), 'sub/': None, 'sub/up': ('symlink', '../target.txt'), 'sub/abs': ('symlink', '/etc/hostname'),
                 'dangling': ('symlink', 'nowhere')},
    'identical-contents': {'one': b'same content', 'two': b'same content', 'sub/three': b'same content', 'four': b'same contenT', 'e1': b'', 'e2': b''},
    'hash-collision': 'COLLISION',
    'big-files': {'images/disk_a.img': b'S' * 40000 + b'A' * 960, 'images/disk_b.img': b'S' * 40000 + b'B' * 960, 'images/disk_c.img': b'S' * 40000 + b'A' * 960},
    'logs': {'changelog': b'c', 'log': b'l', 'docs/backlog/todo.txt': b't', 'docs/catalog': b'k', 'docs/log/inner': b'i', 'x.log': b'x', 'sub/y.log': b'y', 'sub/keep': b'k'},
}
OPTIONS = {
    'plain': [], 'level2': ['-iso-level', '2'], 'level3': ['-iso-level', '3'], 'level4': ['-iso-level', '4'],
    'R': ['-R'], 'r': ['-r'], 'J': ['-J'], 'udf': ['-udf'], 'R-J': ['-R', '-J'], 'r-J-udf': ['-r', '-J', '-udf'], 'R-udf-level3': ['-R', '-udf', '-iso-level', '3'],
    'dups': ['-scan-for-duplicates'], 'dups-R-J-udf': ['-scan-for-duplicates', '-R', '-J', '-udf'],
    'exclude-name': ['-R', '-J', '-m', 'log'], 'exclude-glob': ['-r', '-udf', '-m', '*.log', '-m', 'cat*'],
}
# (tree, options) pairs explored; quick uses the first of each tree plus the option sweep on 'basic'
PAIRS = [('basic', o) for o in OPTIONS if not o.startswith('exclude')] + [('colliding-names', o) for o in ('plain', 'level2', 'level3', 'R', 'J', 'r-J-udf')] + \
    [('unicode', o) for o in ('R', 'J', 'udf', 'r-J-udf')] + [('deep', o) for o in ('R', 'r-J-udf', 'R-J')] + \
    [('symlinks', o) for o in ('R', 'r', 'udf', 'R-J', 'r-J-udf')] + [('identical-contents', o) for o in ('dups', 'dups-R-J-udf', 'plain')] + \
    [('hash-collision', o) for o in ('dups', 'dups-R-J-udf')] + [('big-files', o) for o in ('dups', 'dups-R-J-udf')] + [('logs', o) for o in ('exclude-name', 'exclude-glob', 'R')]


NAME_POOL = ['foo.bar', 'FOO.BAR', 'Foo.Bar', 'foo.bar.baz', 'foo', 'FOO', 'a b c', '.hidden', 'trailing.', 'UPPER_lower-123', 'x' * 40 + '.txt', 'x' * 40 + '.tx2',
             'caf\u00e9.txt', '\u65e5\u672c.dat', 'name;1', 'semi;colon.txt', 'with~tilde', 'a.b.c.d', '1', '12345678.123', '123456789.1234', 'README', 'readme', 'Makefile.am',
             'sp ace.t x', 'dash-name.tar.gz', '_under', 'z' * 64, 'q' * 60 + '.ext']


def random_tree(seed):
    """a random source tree (deterministic in the seed): colliding and awkward names, nesting, equal contents, empty files and
    directories, symbolic links"""
    import random
    rnd = random.Random('tree/%d' % seed)
    tree = {}
    dirs = ['']
    for _ in range(rnd.randint(5, 22)):
        d = rnd.choice(dirs)
        name = rnd.choice(NAME_POOL)
        rel = (d + '/' + name).lstrip('/')
        if rel in tree or rel + '/' in tree:
            continue
        r = rnd.random()
        if r < 0.25 and d.count('/') < 4:
            tree[rel + '/'] = None
            dirs.append('/' + rel)
        elif r < 0.35:
            tree[rel] = ('symlink', rnd.choice(['foo', '../foo.bar', '/abs/olute', 'a/b/c', 'x' * 70]))
        else:
            tree[rel] = rnd.choice([b'', b'same', b'same', b'A' * 2048, b'B' * 2049, bytes([rnd.randrange(256)]) * rnd.randint(1, 5000)])
    return tree


def random_pair(seed):
    import random
    rnd = random.Random('pair/%d' % seed)
    tree = random_tree(seed)
    has_links = any(isinstance(v, tuple) for v in tree.values())
    deep = any(p.count('/') >= 7 for p in tree)
    opts = [o for o in OPTIONS if not o.startswith('exclude')]
    o = rnd.choice(opts)
    return tree, o


def make_tree(root, tree):
    if isinstance(tree, str) and tree.startswith('random:'):
        tree = random_tree(int(tree.split(':')[1]))
    if tree == 'COLLISION':
        pair = _collision_pair()
        tree = {'first': pair[0], 'second': pair[1], 'third': pair[0]}
    for rel, content in sorted(tree.items()):
        p = os.path.join(root, rel)
        if rel.endswith('/'):
            os.makedirs(p, exist_ok=True)
        elif isinstance(content, tuple):
            os.makedirs(os.path.dirname(p), exist_ok=True)
            os.symlink(content[1], p)
        else:
            os.makedirs(os.path.dirname(p), exist_ok=True)
            with open(p, 'wb') as f:
                f.write(content)
    return tree


def snapshot(root):
    """{relative path: ('dir',) | ('file', bytes) | ('symlink', target)}"""
    out = {}
    for d, dirs, files in os.walk(root):
        for n in dirs + files:
            p = os.path.join(d, n)
            rel = os.path.relpath(p, root)
            if os.path.islink(p):
                out[rel] = ('symlink', os.readlink(p))
            elif os.path.isdir(p):
                out[rel] = ('dir',)
            else:
                with open(p, 'rb') as f:
                    out[rel] = ('file', f.read())
    return out


@contract
class ToolsRoundTrip(Base):
    """C20 (bounded): pycdlib-genisoimage on a directory tree followed by pycdlib-extract-files reproduces the tree for every long-name
    view requested (Rock Ridge, Joliet, UDF): same relative paths, same file contents, same symbolic links (Rock Ridge and UDF can
    hold them; Joliet cannot and shows none); in the plain ISO9660 view every source file appears exactly once, with its content,
    under a legal identifier distinct from its siblings; only the requested extensions are present; duplicate linking never changes
    what a path reads."""
    target = 'tools.pycdlib_genisoimage.main'
    bounded_only = True
    tier = 'quick'

    def seeds(self):
        import os
        base = int(os.environ.get('VERIF_SEED', '0') or 0) * 1000 if self.tier != 'quick' else 0
        n = 12 if self.tier == 'quick' else 120
        rnd_pairs = [('random:%d' % (base + k), random_pair(base + k)[1]) for k in range(1, n + 1)]
        return [{'tree': t, 'options': o} for t, o in PAIRS + rnd_pairs]

    def setup(self, c):
        a = c.a
        a.tree = c._get('tree', 'basic')
        a.options = c._get('options', 'plain')
        return Call([])

    def real_call(self, c, call):
        import shutil
        import subprocess
        import sys
        import tempfile
        import pycdlib
        a = c.a
        repo = os.path.dirname(os.path.dirname(pycdlib.__file__))
        tmp = tempfile.mkdtemp(prefix='pyvc-c20-')
        a.runs = {}
        try:
            src = os.path.join(tmp, 'src')
            os.makedirs(src)
            make_tree(src, a.tree if a.tree.startswith('random:') else TREES[a.tree])
            a.source = snapshot(src)
            env = dict(os.environ, PYTHONPATH=repo)
            iso = os.path.join(tmp, 'out.iso')
            p = subprocess.run([sys.executable, os.path.join(repo, 'tools', 'pycdlib-genisoimage'), '-quiet', '-o', iso] + OPTIONS[a.options] + [src],
                               capture_output=True, text=True, env=env, timeout=300)
            a.gen = {'rc': p.returncode, 'err': p.stderr[-600:]}
            if p.returncode != 0 or not os.path.exists(iso):
                return None
            for view in ('iso', 'rockridge', 'joliet', 'udf'):
                ex = os.path.join(tmp, 'ex-' + view)
                os.makedirs(ex)
                q = subprocess.run([sys.executable, os.path.join(repo, 'tools', 'pycdlib-extract-files'), '-path-type', view, '-extract-to', ex, iso],
                                   capture_output=True, text=True, env=env, timeout=300)
                a.runs[view] = {'rc': q.returncode, 'err': q.stderr[-400:], 'tree': snapshot(ex)}
        finally:
            shutil.rmtree(tmp, ignore_errors=True)
        return None

    def post(self, c, a, out):
        opts = OPTIONS[a.options]
        want_view = {'rockridge': ('-R' in opts or '-r' in opts), 'joliet': '-J' in opts, 'udf': '-udf' in opts}
        cl = {'genisoimage-succeeds': a.gen['rc'] == 0}
        if a.gen['rc'] != 0:
            return cl
        src = a.source
        patterns = [opts[i + 1] for i, o in enumerate(opts) if o == '-m']
        if patterns:
            # -m: an entry is left out when its own NAME matches a pattern (and with a directory everything below it)
            import fnmatch
            def excluded(rel):
                parts = rel.split('/')
                return any(fnmatch.fnmatch(part, pat) for part in parts for pat in patterns)
            src = {p: v for p, v in src.items() if not excluded(p)}
        level = int(opts[opts.index('-iso-level') + 1]) if '-iso-level' in opts else 1
        # Rock Ridge relocates directories below the eighth level into a holding directory, which both views then show (RRIP 4.1.5)
        relocating = want_view['rockridge'] and any(p.count('/') >= 7 and v[0] == 'dir' for p, v in src.items())
        for view, wanted in want_view.items():
            run = a.runs[view]
            if not wanted:
                cl['no-%s-view-unless-requested' % view] = run['rc'] != 0 and not run['tree']
                continue
            cl['%s-extraction-succeeds' % view] = run['rc'] == 0
            got = run['tree']
            if view == 'joliet':
                # Joliet has no symbolic links: a link shows, if at all, as an empty file
                exp = {p: v for p, v in src.items() if v[0] != 'symlink'}
                got = {p: v for p, v in got.items() if not (p in src and src[p][0] == 'symlink')}
            else:
                exp = src
            if view == 'rockridge' and relocating:
                exp = dict(exp, rr_moved=('dir',))
            cl['%s-view-same-relative-paths' % view] = sorted(got) == sorted(exp)
            cl['%s-view-same-contents-and-links' % view] = all(got.get(p) == v for p, v in exp.items())
        run = a.runs['iso']
        cl['iso9660-extraction-succeeds'] = run['rc'] == 0
        got = run['tree']
        # a symbolic link is a Rock Ridge notion: with Rock Ridge the extractor recreates it, with UDF alone the ISO9660 record is an
        # empty file, without either the link is not in the image
        files = sorted(v[1] for v in got.values() if v[0] == 'file')
        links = sorted(v[1] for v in got.values() if v[0] == 'symlink')
        exp_files = sorted(v[1] for v in src.values() if v[0] == 'file')
        exp_links = sorted(v[1] for v in src.values() if v[0] == 'symlink')
        if want_view['rockridge']:
            pass
        elif want_view['udf']:
            exp_files = sorted(exp_files + [b''] * len(exp_links))
            exp_links = []
        else:
            exp_links = []
        cl['iso9660-view-every-source-file-exactly-once-with-its-content'] = files == exp_files and links == exp_links
        cl['iso9660-view-every-directory-once'] = sum(1 for v in got.values() if v[0] == 'dir') == sum(1 for v in src.values() if v[0] == 'dir') + (1 if relocating else 0)
        if level < 4:
            import re
            ok = True
            for p, v in got.items():
                base = p.rsplit('/', 1)[-1]
                if v[0] == 'dir':
                    ok = ok and re.fullmatch(r'[A-Z0-9_]{1,%d}' % (8 if level == 1 else 31), base) is not None
                else:
                    m = re.fullmatch(r'([A-Z0-9_]*)\.([A-Z0-9_]*);1', base)
                    # the rule the library enforces and documents: 8.3 at level 1; no length limit at levels 2-3 (see K52 in C18 for
                    # the 30-character rule of ECMA-119, which the manglers exceed by up to three characters)
                    ok = ok and m is not None and (len(m.group(1)) + len(m.group(2)) >= 1) and \
                        ((len(m.group(1)) <= 8 and len(m.group(2)) <= 3) if level == 1 else True)
            cl['iso9660-identifiers-legal-for-the-level'] = ok
        return cl

    def observe(self, c, a, out):
        return {'gen': getattr(a, 'gen', None), 'views': {k: {'rc': v['rc'], 'err': v['err'][-300:], 'paths': sorted(v['tree'])[:40]} for k, v in getattr(a, 'runs', {}).items()}}
