"""Contracts for UDF file identifier descriptors and directory bookkeeping (C13/udf, C10/fid, C10/dir-len)."""
from pyvc import sx
from pyvc import values as V
from pyvc.sx import And, Or, Not, Implies, If, Eq
from pyvc.contract import contract, Call
from contracts.utils import Base

FID = 'pycdlib.udf.UDFFileIdentifierDescriptor'
FE = 'pycdlib.udf.UDFFileEntry'


def fid_length(namelen):
    """ECMA-167 4/14.4: 38 bytes + identifier (compression byte + name, when there is a name) padded to a multiple of 4"""
    n = 38 + (namelen + 1 if namelen > 0 else 0)
    return n + (-n) % 4


@contract
class FIDLength(Base):
    target = FID + '.length'
    namelen = 5

    def setup(self, c):
        if c.symbolic:
            return Call([c.cls(FID), self.namelen], fn=c.loader.find_function(self.target))
        return Call([self.namelen])

    def post(self, c, a, out):
        return {'length': out.result == fid_length(self.namelen), 'multiple-of-4': out.result % 4 == 0}


@contract
class FIDNew(Base):
    """C13/udf + C10/fid: new(isdir, isparent, name, parent) with an ASCII name: Latin-1 (compression id 8) identifier equal to the
    name, len_fi = len(name) + 1 which must fit its one-byte field - names longer than 254 bytes are refused with InvalidInput
    at the time of the edit; characteristics carry the directory / parent bits"""
    target = FID + '.new'
    namelen = 5
    isdir = False

    def setup(self, c):
        a = c.a
        a.name = c.bytes('name', self.namelen)
        for x in V.items_of(a.name):
            c.assume(And(x >= 1, x < 128))
        a.self = c.new(FID)
        a.parent = c.obj(FE, _initialized=True)
        return Call([self.isdir, False, a.name, a.parent], self_obj=a.self)

    def raises(self, c, a):
        return {'PyCdlibInvalidInput': self.namelen > 254}

    def expected_covers(self):
        return ('raise:PyCdlibInvalidInput',) if self.namelen > 254 else ('return',)

    def post(self, c, a, out):
        s = a.self
        return {'identifier-is-the-name': And(Eq(s.fi, a.name), Eq(s.encoding, 'latin-1') if not c.symbolic else s.encoding == 'latin-1'),
                'len_fi-fits-a-byte': And(s.len_fi == self.namelen + 1, s.len_fi <= 255),
                'characteristics': s.file_characteristics == (2 if self.isdir else 0), 'initialised': Eq(s._initialized, True)}

    def observe(self, c, a, out):
        return {'kind': out.kind, 'exc': out.exc}


def udf_dir(c, names, lbs=2048):
    """a UDF directory entry in FID-UNIQ/INFO-INV: parent descriptor + one descriptor per name, info_len = sum of their lengths"""
    a = c.a
    descs = [c.obj(FID, _initialized=True, isparent=True, isdir=True, fi=b'', encoding='', len_fi=0, file_entry=None)]
    total = fid_length(0)
    for nm in names:
        descs.append(c.obj(FID, _initialized=True, isparent=False, isdir=False, fi=nm, encoding='latin-1', len_fi=len(nm) + 1, file_entry=None))
        total += fid_length(len(nm))
    a.info0 = total
    a.links0 = c.int('file_link_count', 1, 1000)
    a.ad = c.obj('pycdlib.udf.UDFShortAD', _initialized=True, extent_length=total, log_block_num=0, extent_type=0, offset=0)
    icb = c.obj('pycdlib.udf.UDFICBTag', _initialized=True, file_type=4)
    a.descs0 = list(descs)
    return c.obj(FE, _initialized=True, icb_tag=icb, fi_descs=descs, info_len=total, log_block_recorded=-(-total // lbs), alloc_descs=[a.ad],
                 file_link_count=a.links0)


@contract
class AddFileIdentDesc(Base):
    """C10/dir-len + C13/udf: adding a descriptor to a UDF directory refuses a name the directory already holds (InvalidInput, nothing
    changed); otherwise it appends exactly that descriptor, raises the information length (and the allocation descriptor) by the
    descriptor's recorded length, returns the number of additional blocks, and counts a sub-directory as a link"""
    target = FE + '.add_file_ident_desc'
    nexisting = 1
    namelen = 3
    isdir = False
    covers = ('return', 'raise:PyCdlibInvalidInput')

    def setup(self, c):
        a = c.a
        a.names = [c.bytes('name%d' % i, self.namelen) for i in range(self.nexisting)]
        for i in range(1, self.nexisting):
            c.assume(Not(Eq(a.names[i], a.names[i - 1])))
        a.self = udf_dir(c, a.names)
        a.newname = c.bytes('newname', self.namelen)
        a.new = c.obj(FID, _initialized=True, isparent=False, isdir=self.isdir, fi=a.newname, encoding='latin-1', len_fi=self.namelen + 1, file_entry=None)
        a.dup = Or(*[Eq(a.newname, n) for n in a.names]) if a.names else False
        return Call([a.new, 2048], self_obj=a.self)

    def expected_covers(self):
        return ('return', 'raise:PyCdlibInvalidInput') if self.nexisting else ('return',)

    def raises(self, c, a):
        return {'PyCdlibInvalidInput': a.dup}

    def post_raise(self, c, a, out):
        s = a.self
        return {'unchanged': And(len(s.fi_descs) == len(a.descs0), s.info_len == a.info0, s.file_link_count == a.links0, a.ad.extent_length == a.info0)}

    def post(self, c, a, out):
        s = a.self
        add = fid_length(self.namelen)
        new_total = a.info0 + add
        return {'descriptor-appended': len(s.fi_descs) == len(a.descs0) + 1 and s.fi_descs[-1] is a.new and all(x is y for x, y in zip(s.fi_descs, a.descs0)),
                'information-length': And(s.info_len == new_total, a.ad.extent_length == new_total),
                'blocks-recorded': s.log_block_recorded == -(-new_total // 2048),
                'returns-extra-blocks': out.result == -(-new_total // 2048) - (-(-a.info0 // 2048)),
                'link-count': s.file_link_count == a.links0 + (1 if self.isdir else 0)}

    def observe(self, c, a, out):
        return {'kind': out.kind, 'exc': out.exc, 'n': len(a.self.fi_descs), 'info_len': a.self.info_len}


@contract
class FidPlacementStep(Base):
    """C10/fid-location (fragment: body of the loop over a directory's file identifier descriptors in PyCdlib._udf_assign_extents,
    every variable symbolic).  Descriptors are laid out back to back in the directory's data and may straddle blocks; a
    descriptor's tag location must be the block that holds its FIRST byte (ECMA-167 3/7.2.8).  With T the byte offset of the
    descriptor in the directory data, represented by the loop state as (current_extent - first) * block size + offset:
    the descriptor gets location first + T // block size, and the state afterwards represents T + length of the descriptor."""
    target = 'pycdlib.pycdlib.PyCdlib._udf_assign_extents'
    label = 'pycdlib.PyCdlib._udf_assign_extents<UDF descriptor placement loop body>'
    namelen = 5

    def setup(self, c):
        a = c.a
        a.lbs = 2048
        a.first = c.int('first_extent', 257, 1 << 30)
        a.part = c.int('part_start', 257, 1 << 30)
        c.assume(a.part <= a.first)
        a.k = c.int('blocks_so_far', 0, 1 << 20)
        a.off = c.int('offset', 0, 2048 + 296)       # the previous descriptor (at most 296 bytes) started inside the block
        a.cur = a.first + a.k
        tag = c.obj('pycdlib.udf.UDFTag', _initialized=True, tag_location=c.int('stale_tag_location', 0))
        a.d = c.obj(FID, _initialized=True, isparent=c.bool('isparent'), isdir=False, fi=c.bytes('fi', self.namelen), file_entry=None, desc_tag=tag,
                    new_extent_loc=c.int('stale_extent', -1))
        fe = c.obj(FE, _initialized=True, fi_descs=[a.d])
        me = c.obj('pycdlib.pycdlib.PyCdlib', _initialized=True, logical_block_size=a.lbs)
        import collections
        env = dict(self=me, d=a.d, offset=a.off, current_extent=a.cur, part_start=a.part, udf_file_entry=fe, udf_file_entries=collections.deque(), udf_file_assign_list=[])
        a.T = a.k * a.lbs + a.off
        a.q, a.r = c.divmod(a.T, a.lbs)
        from pyvc.contract import Fragment
        return Call([], fn=Fragment(self.target, {'for_iter': 'udf_file_entry.fi_descs'}, env))

    def post(self, c, a, out):
        L = fid_length(self.namelen)
        res = out.result
        block = a.first + a.q
        return {'descriptor-located-in-the-block-of-its-first-byte': And(a.d.new_extent_loc == block, a.d.desc_tag.tag_location == block - a.part),
                'state-represents-the-next-offset': (res['current_extent'] - a.first) * a.lbs + res['offset'] == a.T + L,
                'offset-stays-within-one-block-plus-a-descriptor': And(res['offset'] >= 0, res['offset'] < a.lbs + 296)}

    def observe(self, c, a, out):
        return {'kind': out.kind, 'loc': a.d.new_extent_loc, 'tag': a.d.desc_tag.tag_location,
                'state': [out.result.get('current_extent'), out.result.get('offset')] if out.kind == 'return' else None}


@contract
class FileEntryNew(Base):
    """C10/alloc: a new UDF file entry for a file of any length 0 .. 2^32-1 carries allocation descriptors that cover exactly the
    file: every descriptor length is in (0, 0x3ffff800] (a zero length would terminate the sequence for a reader, ECMA-167
    4/12.1), all but the last are full, their sum is the information length, and the recorded block count is ceil(length / block)"""
    target = FE + '.new'

    def setup(self, c):
        from contracts import scenario as S
        S.pin_environment(c)
        a = c.a
        a.n = c.int('length', 0, (1 << 32) - 1)
        a.self = c.new(FE)
        a.q, a.r = c.divmod(a.n, 2048)
        return Call([a.n, 'file', None, 2048], self_obj=a.self)

    def post(self, c, a, out):
        ads = a.self.alloc_descs
        lens = [d.extent_length for d in ads]
        MAXLEN = 0x3ffff800
        return {'every-descriptor-non-empty-and-at-most-the-maximum': And(*[And(x > 0, x <= MAXLEN) for x in lens]) if lens else True,
                'all-but-the-last-are-full': And(*[x == MAXLEN for x in lens[:-1]]) if len(lens) > 1 else True,
                'descriptors-cover-exactly-the-file': sx.Sum(lens) == a.n,
                'information-length-and-blocks': And(a.self.info_len == a.n, a.self.log_block_recorded == If(a.r == 0, a.q, a.q + 1)),
                'one-link': a.self.file_link_count == 1}

    def observe(self, c, a, out):
        return {'kind': out.kind, 'lens': [d.extent_length for d in a.self.alloc_descs] if out.kind == 'return' else None}


SYMLINK_SHAPES = {
    # every sequence of up to three component kinds (empty, '.', '..', a name), joined by '/': doubled, leading and trailing slashes
    # arise from the empty kind
}
_KINDS = {'e': '', 'd': '.', 'p': '..', 'n': 'nm', 'u': '中é'}
for _a in _KINDS:
    SYMLINK_SHAPES[_a] = [_a]
    for _b in _KINDS:
        SYMLINK_SHAPES[_a + _b] = [_a, _b]
        for _c in _KINDS:
            SYMLINK_SHAPES[_a + _b + _c] = [_a, _b, _c]
SYMLINK_SHAPES.pop('e')        # the empty target is refused by add_symlink itself


@contract
class SymlinkToBytes(Base):
    """C10/symlink: udf.symlink_to_bytes(target) yields path components (ECMA-167 4/14.16.1) that an independent decoder turns back
    into the target - a leading slash as the root component, '.' and '..' as such, names in OSTA compressed unicode - where
    doubled and trailing slashes, which name nothing and cannot be recorded (a component cannot be empty), are left out and never
    become root components in the middle of the path; a component longer than its one-byte length field is refused with
    InvalidInput"""
    target = 'pycdlib.udf.symlink_to_bytes'
    shape = 'n'
    longname = 0          # > 0: one name component of that many characters (Latin-1), < 0: of that many characters beyond Latin-1

    def text(self):
        if self.longname:
            return 'd/' + ('x' * self.longname if self.longname > 0 else '中' * -self.longname) + '/e'
        return '/'.join(_KINDS[k] for k in SYMLINK_SHAPES[self.shape])

    def too_long(self):
        return self.longname > 254 or -self.longname > 127

    def setup(self, c):
        c.a.t = self.text()
        return Call([c.a.t])

    def raises(self, c, a):
        return {'PyCdlibInvalidInput': self.too_long()}

    def expected_covers(self):
        return ('raise:PyCdlibInvalidInput',) if self.too_long() else ('return',)

    def post(self, c, a, out):
        from contracts import udf_reader as UR
        from contracts.fidelity import udf_target_form
        data = list(V.items_of(out.result))
        roots = [i for i, (t, ln) in enumerate(self.components(data)) if t in (1, 2)]
        return {'decodes-to-the-target': UR.symlink_target(data) == udf_target_form(a.t),
                'the-library-decoder-inverts-it': c.call('pycdlib.udf.bytes_to_symlink', out.result) == udf_target_form(a.t),
                'root-component-only-in-front': all(i == 0 for i in roots),
                'components-fit-their-length-byte': all(ln <= 255 for t, ln in self.components(data))}

    @staticmethod
    def components(data):
        out, i = [], 0
        while i < len(data):
            out.append((data[i], data[i + 1]))
            i += 4 + data[i + 1]
        return out

    def observe(self, c, a, out):
        return {'kind': out.kind, 'exc': out.exc}
