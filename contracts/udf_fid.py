"""Contracts for UDF file identifier descriptors and directory bookkeeping (C13/udf, C10/fid, C10/dir-len)."""
from pyvc import sx
from pyvc import values as V
from pyvc.sx import And, Or, Not, Implies, If, Eq
from pyvc.contract import contract, Call
from contracts.utils import Base

FID = 'pycdlib.udf.UDFFileIdentifierDescriptor'
FE = 'pycdlib.udf.UDFFileEntry'


def fid_length(namelen):
    """ECMA-167 4/14.4: 38 bytes + identifier (compression byte + name, when there is a name) padded to a multiple of 4"""
    n = 38 + (namelen + 1 if namelen > 0 else 0)
    return n + (-n) % 4


@contract
class FIDLength(Base):
    target = FID + '.length'
    namelen = 5

    def setup(self, c):
        if c.symbolic:
            return Call([c.cls(FID), self.namelen], fn=c.loader.find_function(self.target))
        return Call([self.namelen])

    def post(self, c, a, out):
        return {'length': out.result == fid_length(self.namelen), 'multiple-of-4': out.result % 4 == 0}


@contract
class FIDNew(Base):
    """C13/udf + C10/fid: new(isdir, isparent, name, parent) with an ASCII name: Latin-1 (compression id 8) identifier equal to the
    name, len_fi = len(name) + 1 which must fit its one-byte field - names longer than 254 bytes are refused with InvalidInput
    at the time of the edit; characteristics carry the directory / parent bits"""
    target = FID + '.new'
    namelen = 5
    isdir = False

    def setup(self, c):
        a = c.a
        a.name = c.bytes('name', self.namelen)
        for x in V.items_of(a.name):
            c.assume(And(x >= 1, x < 128))
        a.self = c.new(FID)
        a.parent = c.obj(FE, _initialized=True)
        return Call([self.isdir, False, a.name, a.parent], self_obj=a.self)

    def raises(self, c, a):
        return {'PyCdlibInvalidInput': self.namelen > 254}

    def expected_covers(self):
        return ('raise:PyCdlibInvalidInput',) if self.namelen > 254 else ('return',)

    def post(self, c, a, out):
        s = a.self
        return {'identifier-is-the-name': And(Eq(s.fi, a.name), Eq(s.encoding, 'latin-1') if not c.symbolic else s.encoding == 'latin-1'),
                'len_fi-fits-a-byte': And(s.len_fi == self.namelen + 1, s.len_fi <= 255),
                'characteristics': s.file_characteristics == (2 if self.isdir else 0), 'initialised': Eq(s._initialized, True)}

    def observe(self, c, a, out):
        return {'kind': out.kind, 'exc': out.exc}


def udf_dir(c, names, lbs=2048):
    """a UDF directory entry in FID-UNIQ/INFO-INV: parent descriptor + one descriptor per name, info_len = sum of their lengths"""
    a = c.a
    descs = [c.obj(FID, _initialized=True, isparent=True, isdir=True, fi=b'', encoding='', len_fi=0, file_entry=None)]
    total = fid_length(0)
    for nm in names:
        descs.append(c.obj(FID, _initialized=True, isparent=False, isdir=False, fi=nm, encoding='latin-1', len_fi=len(nm) + 1, file_entry=None))
        total += fid_length(len(nm))
    a.info0 = total
    a.links0 = c.int('file_link_count', 1, 1000)
    a.ad = c.obj('pycdlib.udf.UDFShortAD', _initialized=True, extent_length=total, log_block_num=0, extent_type=0, offset=0)
    icb = c.obj('pycdlib.udf.UDFICBTag', _initialized=True, file_type=4)
    a.descs0 = list(descs)
    return c.obj(FE, _initialized=True, icb_tag=icb, fi_descs=descs, info_len=total, log_block_recorded=-(-total // lbs), alloc_descs=[a.ad],
                 file_link_count=a.links0)


@contract
class AddFileIdentDesc(Base):
    """C10/dir-len + C13/udf: adding a descriptor to a UDF directory refuses a name the directory already holds (InvalidInput, nothing
    changed); otherwise it appends exactly that descriptor, raises the information length (and the allocation descriptor) by the
    descriptor's recorded length, returns the number of additional blocks, and counts a sub-directory as a link"""
    target = FE + '.add_file_ident_desc'
    nexisting = 1
    namelen = 3
    isdir = False
    covers = ('return', 'raise:PyCdlibInvalidInput')

    def setup(self, c):
        a = c.a
        a.names = [c.bytes('name%d' % i, self.namelen) for i in range(self.nexisting)]
        for i in range(1, self.nexisting):
            c.assume(Not(Eq(a.names[i], a.names[i - 1])))
        a.self = udf_dir(c, a.names)
        a.newname = c.bytes('newname', self.namelen)
        a.new = c.obj(FID, _initialized=True, isparent=False, isdir=self.isdir, fi=a.newname, encoding='latin-1', len_fi=self.namelen + 1, file_entry=None)
        a.dup = Or(*[Eq(a.newname, n) for n in a.names]) if a.names else False
        return Call([a.new, 2048], self_obj=a.self)

    def expected_covers(self):
        return ('return', 'raise:PyCdlibInvalidInput') if self.nexisting else ('return',)

    def raises(self, c, a):
        return {'PyCdlibInvalidInput': a.dup}

    def post_raise(self, c, a, out):
        s = a.self
        return {'unchanged': And(len(s.fi_descs) == len(a.descs0), s.info_len == a.info0, s.file_link_count == a.links0, a.ad.extent_length == a.info0)}

    def post(self, c, a, out):
        s = a.self
        add = fid_length(self.namelen)
        new_total = a.info0 + add
        return {'descriptor-appended': len(s.fi_descs) == len(a.descs0) + 1 and s.fi_descs[-1] is a.new and all(x is y for x, y in zip(s.fi_descs, a.descs0)),
                'information-length': And(s.info_len == new_total, a.ad.extent_length == new_total),
                'blocks-recorded': s.log_block_recorded == -(-new_total // 2048),
                'returns-extra-blocks': out.result == -(-new_total // 2048) - (-(-a.info0 // 2048)),
                'link-count': s.file_link_count == a.links0 + (1 if self.isdir else 0)}

    def observe(self, c, a, out):
        return {'kind': out.kind, 'exc': out.exc, 'n': len(a.self.fi_descs), 'info_len': a.self.info_len}
