"""An INDEPENDENT reader of the UDF side of a bridge image, written from ECMA-167 (3rd ed.) and UDF 2.60; no pycdlib code.
It starts from the volume recognition sequence and the anchors only (sector 256 and the last sector), checks every descriptor
tag it touches (identifier, checksum, CRC, location) and follows partition / logical volume / file set / file entries."""
from contracts.reader import Image, Bad


def crc16_ccitt(data):
    crc = 0
    for x in data:
        crc ^= x << 8
        for _ in range(8):
            crc = ((crc << 1) ^ 0x1021) & 0xffff if crc & 0x8000 else (crc << 1) & 0xffff
    return crc


class UDF:
    def __init__(self, im):
        self.im = im
        self.part_start = None
        self.part_len = None
        self.files = {}       # path -> dict(kind, length, data, target, characteristics)
        self.objects = []     # (what, first sector, sectors) for the allocation check


def tag(u, off, want_ident, want_location, what):
    """check a 16-byte descriptor tag at byte offset `off` (descriptor body follows)"""
    im = u.im
    ident = im.le(off, 2)
    if ident != want_ident:
        raise Bad('%s: tag identifier %d, expected %d' % (what, ident, want_ident))
    ver = im.le(off + 2, 2)
    if ver not in (2, 3):
        im.bad('%s: descriptor version %d' % (what, ver))
    raw = im.cbytes(off, 16)
    if (sum(raw[:4]) + sum(raw[5:])) % 256 != raw[4]:
        im.bad('%s: tag checksum wrong' % what)
    if raw[5] != 0:
        im.bad('%s: tag reserved byte not zero' % what)
    crc = im.le(off + 8, 2)
    crc_len = im.le(off + 10, 2)
    body = im.cbytes(off + 16, crc_len)
    if crc16_ccitt(body) != crc:
        im.bad('%s: descriptor CRC wrong' % what)
    loc = im.le(off + 12, 4)
    if loc != want_location:
        im.bad('%s: tag location %d, expected %d' % (what, loc, want_location))
    return crc_len


def recognition_sequence(u):
    im = u.im
    idents = []
    sec = 16
    while sec * 2048 + 2048 <= len(im.b) and sec < 64:
        ident = im.cbytes(sec * 2048 + 1, 5)
        if ident not in (b'CD001', b'BEA01', b'NSR02', b'NSR03', b'TEA01', b'BOOT2', b'CDW02'):
            break
        idents.append(ident)
        sec += 1
    ext = [i for i in idents if i != b'CD001']
    if not ext or ext[0] != b'BEA01' or ext[-1] != b'TEA01' or not any(i in (b'NSR02', b'NSR03') for i in ext):
        im.bad('volume recognition sequence is not BEA01 NSR0x TEA01: %r' % (ext,))
    return ext


def anchor(u, sector):
    im = u.im
    off = sector * 2048
    tag(u, off, 2, sector, 'anchor at %d' % sector)
    main = (im.le(off + 16, 4), im.le(off + 20, 4))
    reserve = (im.le(off + 24, 4), im.le(off + 28, 4))
    u.objects.append(('UDF anchor', sector, 1))
    return main, reserve


def volume_descriptor_sequence(u, length, location, what):
    im = u.im
    out = {}
    n = length // 2048
    for i in range(n):
        sec = location + i
        off = sec * 2048
        ident = im.le(off, 2)
        if ident == 0:
            continue
        tag(u, off, ident, sec, '%s descriptor %d at %d' % (what, ident, sec))
        out.setdefault(ident, []).append(off)
        if ident == 8:
            break
    u.objects.append(('UDF %s volume descriptor sequence' % what, location, n))
    for need, name in ((1, 'primary volume'), (5, 'partition'), (6, 'logical volume'), (8, 'terminating')):
        if need not in out:
            im.bad('%s sequence has no %s descriptor' % (what, name))
    return out


def long_ad(im, off):
    return dict(length=im.le(off, 4) & 0x3fffffff, lbn=im.le(off + 4, 4), part=im.le(off + 8, 2))


def file_entry(u, lbn, what):
    """-> dict(file_type, info_len, extents:[(lbn, length)], inline bytes or None)"""
    im = u.im
    off = (u.part_start + lbn) * 2048
    tag(u, off, 261, lbn, 'file entry of %s' % what)
    ftype = im.byte(off + 27)
    flags = im.le(off + 34, 2)
    info_len = im.le(off + 56, 8)
    blocks = im.le(off + 64, 8)
    l_ea = im.le(off + 168, 4)
    l_ad = im.le(off + 172, 4)
    adoff = off + 176 + l_ea
    adtype = flags & 7
    e = dict(file_type=ftype, info_len=info_len, extents=[], inline=None, lbn=lbn, link_count=im.le(off + 48, 2), blocks=blocks)
    if adtype == 0:
        total = 0
        for k in range(l_ad // 8):
            ln = im.le(adoff + 8 * k, 4)
            typ = ln >> 30
            ln &= 0x3fffffff
            pos = im.le(adoff + 8 * k + 4, 4)
            if typ == 0 and ln:
                e['extents'].append((pos, ln))
                total += ln
        if total != info_len:
            im.bad('%s: allocation descriptors cover %d bytes, information length is %d' % (what, total, info_len))
        if blocks != sum(-(-ln // 2048) for _, ln in e['extents']):
            im.bad('%s: logical blocks recorded %d does not match its extents' % (what, blocks))
    elif adtype == 3:
        e['inline'] = im.raw(adoff, l_ad)
        if l_ad != info_len:
            im.bad('%s: embedded data length %d != information length %d' % (what, l_ad, info_len))
    else:
        im.bad('%s: allocation descriptor type %d not supported by this reader' % (what, adtype))
    u.objects.append(('UDF file entry %s' % what, u.part_start + lbn, 1))
    return e


def entry_data(u, e):
    if e['inline'] is not None:
        return list(e['inline'])
    out = []
    for pos, ln in e['extents']:
        out.extend(u.im.raw((u.part_start + pos) * 2048, ln))
    return out


def decode_name(raw):
    if not raw:
        return ''
    if raw[0] == 8:
        return bytes(raw[1:]).decode('latin-1')
    if raw[0] == 16:
        return bytes(raw[1:]).decode('utf-16_be')
    raise Bad('file identifier with compression id %d' % raw[0])


def read_dir(u, e, path, depth=0):
    im = u.im
    if depth > 32:
        im.bad('UDF directory tree deeper than 32 (loop?)')
        return
    if e['file_type'] != 4:
        raise Bad('%s is not a directory file entry' % path)
    data = entry_data(u, e)
    for pos, ln in e['extents']:
        u.objects.append(('UDF directory %s' % (path or '/'), u.part_start + pos, -(-ln // 2048)))
    # FIDs are laid out in the directory's data; a FID may straddle blocks of the same extent
    base_sector = (u.part_start + e['extents'][0][0]) if e['extents'] else None
    off = 0
    names = set()
    nparent = 0
    while off < len(data):
        absoff = base_sector * 2048 + off
        chars = im.byte(absoff + 18)
        l_fi = im.byte(absoff + 19)
        l_iu = im.le(absoff + 36, 2)
        total = 38 + l_iu + l_fi
        total += (-total) % 4
        tag(u, absoff, 257, e['extents'][0][0] + off // 2048, 'file identifier descriptor in %s at %d' % (path or '/', off))
        if im.le(absoff + 16, 2) != 1:
            im.bad('file identifier descriptor version number is not 1')
        icb = long_ad(im, absoff + 20)
        ident = im.cbytes(absoff + 38 + l_iu, l_fi)
        off += total
        if chars & 4:
            continue          # deleted
        if chars & 8:
            nparent += 1
            continue
        name = decode_name(ident)
        if name in names:
            im.bad('UDF directory %s holds the name %r twice' % (path or '/', name))
        names.add(name)
        p = path + '/' + name
        ce = file_entry(u, icb['lbn'], p)
        if chars & 2:
            if ce['file_type'] != 4:
                im.bad('%s: descriptor says directory, entry has file type %d' % (p, ce['file_type']))
            u.files[p] = dict(kind='dir', hidden=bool(chars & 1))
            read_dir(u, ce, p, depth + 1)
        elif ce['file_type'] == 12:
            u.files[p] = dict(kind='symlink', target=symlink_target(entry_data(u, ce)), hidden=bool(chars & 1))
            for pos, ln in ce['extents']:
                u.objects.append(('UDF symlink data %s' % p, u.part_start + pos, -(-ln // 2048)))
        else:
            u.files[p] = dict(kind='file', length=ce['info_len'], extents=[(u.part_start + pos, ln) for pos, ln in ce['extents']],
                              data=entry_data(u, ce), hidden=bool(chars & 1))
    if off != len(data):
        im.bad('UDF directory %s: descriptors do not end at the information length' % (path or '/'))
    if nparent != 1:
        im.bad('UDF directory %s has %d parent entries' % (path or '/', nparent))


def symlink_target(data):
    comps = []
    absolute = False
    i = 0
    while i < len(data):
        t, ln = data[i], data[i + 1]
        ident = data[i + 4:i + 4 + ln]
        i += 4 + ln
        if t in (1, 2):
            # resolution starts again from the root, whatever came before (what Linux' UDF driver does)
            absolute = True
            comps = []
        elif t == 3:
            comps.append('..')
        elif t == 4:
            comps.append('.')
        elif t == 5:
            comps.append(decode_name(ident))
    return ('/' if absolute else '') + '/'.join(comps)


def read_udf(img):
    im = Image(img)
    u = UDF(im)
    recognition_sequence(u)
    nsec = len(img) // 2048
    main, reserve = anchor(u, 256)
    main2, reserve2 = anchor(u, nsec - 1)
    if (main, reserve) != (main2, reserve2):
        im.bad('the two anchors disagree')
    seq = volume_descriptor_sequence(u, main[0], main[1], 'main')
    rseq = volume_descriptor_sequence(u, reserve[0], reserve[1], 'reserve')
    pd = seq[5][0]
    u.part_num = im.le(pd + 22, 2)
    u.part_start = im.le(pd + 188, 4)
    u.part_len = im.le(pd + 192, 4)
    if (im.le(rseq[5][0] + 188, 4), im.le(rseq[5][0] + 192, 4)) != (u.part_start, u.part_len):
        im.bad('main and reserve partition descriptors disagree')
    if u.part_start + u.part_len > nsec:
        im.bad('partition [%d,+%d) extends past the image (%d sectors)' % (u.part_start, u.part_len, nsec))
    lvd = seq[6][0]
    if im.le(lvd + 212, 4) != 2048:
        im.bad('logical block size %d' % im.le(lvd + 212, 4))
    fsd_ad = long_ad(im, lvd + 248)
    integrity = (im.le(lvd + 432, 4), im.le(lvd + 436, 4))
    u.integrity = integrity
    fsd = (u.part_start + fsd_ad['lbn']) * 2048
    tag(u, fsd, 256, fsd_ad['lbn'], 'file set descriptor')
    u.objects.append(('UDF file set descriptor', u.part_start + fsd_ad['lbn'], -(-fsd_ad['length'] // 2048)))
    root_icb = long_ad(im, fsd + 400)
    root = file_entry(u, root_icb['lbn'], '/')
    u.root = root
    read_dir(u, root, '')
    return u
