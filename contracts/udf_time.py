"""Contracts for udf.UDFTimestamp (C19, C10/time, C05)."""
from pyvc import sx
from pyvc.sx import And, Or, Not, Implies, If, Eq
from pyvc.contract import contract, Call
from contracts.utils import Base, T_MAX
from contracts.dates import ZoneMixin

TS = 'pycdlib.udf.UDFTimestamp'


@contract
class UDFTimestampNew(ZoneMixin, Base):
    """C19/udf: new(t) stores local time of t, type 1 (local), and the zone offset IN MINUTES (ECMA-167 1/7.3)"""
    target = TS + '.new'

    def setup(self, c):
        self.zone(c)
        a = c.a
        a.self = c.new(TS)
        return Call([a.t], self_obj=a.self)

    def post(self, c, a, out):
        s, l = a.self, a.local
        return {'fields-are-local-time': And(s.year == l.tm_year, s.month == l.tm_mon, s.day == l.tm_mday, s.hour == l.tm_hour,
                                             s.minute == l.tm_min, s.second == l.tm_sec, s.centiseconds == 0,
                                             s.hundreds_microseconds == 0, s.microseconds == 0),
                'timetype-local': s.timetype == 1,
                'tz-in-minutes': s.tz == 15 * a.z,
                'inv': And(s.tz >= -1440, s.tz <= 1440, s.year >= 1, s.year <= 9999)}


def ts_fields(c):
    """class invariant of an initialised UDFTimestamp (what parse accepts / new builds)"""
    return dict(year=c.int('year', 0, 65535), month=c.int('month', 0, 255), day=c.int('day', 0, 255), hour=c.int('hour', 0, 255),
                minute=c.int('minute', 0, 255), second=c.int('second', 0, 255), centiseconds=c.int('cs', 0, 255),
                hundreds_microseconds=c.int('hus', 0, 255), microseconds=c.int('us', 0, 255), timetype=c.int('timetype', 0, 15),
                tz=c.int('tz', -2047, 2047))


@contract
class UDFTimestampRecord(Base):
    """ECMA-167 1/7.3 layout: 12-bit two's complement zone + 4-bit type, LE year, then one byte per field"""
    target = TS + '.record'

    def setup(self, c):
        a = c.a
        a.f = ts_fields(c)
        a.self = c.obj(TS, _initialized=True, **a.f)
        return Call([], self_obj=a.self)

    def post(self, c, a, out):
        r, f = out.result, a.f
        tz12 = If(f['tz'] < 0, f['tz'] + 4096, f['tz'])
        return {'length-12': len(r) == 12,
                'type-and-zone': r[0] + 256 * r[1] == tz12 + 4096 * f['timetype'],
                'year-le16': r[2] + 256 * r[3] == f['year'],
                'fields': And(r[4] == f['month'], r[5] == f['day'], r[6] == f['hour'], r[7] == f['minute'], r[8] == f['second'],
                              r[9] == f['centiseconds'], r[10] == f['hundreds_microseconds'], r[11] == f['microseconds'])}


@contract
class UDFTimestampRoundTrip(Base):
    """C05: for every 12-byte string that parse accepts, record(parse(b)) == b; parse raises only InvalidISO"""
    target = TS + '.record'
    label = 'udf.UDFTimestamp.parse+record'
    setup_may_raise = ('PyCdlibInvalidISO',)

    def setup(self, c):
        a = c.a
        a.b = c.bytes('b', 12)
        a.self = c.new(TS)
        c.call(TS + '.parse', a.self, a.b)
        return Call([], self_obj=a.self)

    def post(self, c, a, out):
        return {'identity': Eq(out.result, a.b)}


@contract
class UDFTimestampNewRecordParse(ZoneMixin, Base):
    """the library accepts its own timestamps: parse(record(new(t))) succeeds with the same fields"""
    target = TS + '.parse'
    label = 'udf.UDFTimestamp.new+record+parse'

    def setup(self, c):
        self.zone(c)
        a = c.a
        a.src = c.new(TS)
        c.call(TS + '.new', a.src, a.t)
        a.rec = c.call(TS + '.record', a.src)
        a.self = c.new(TS)
        return Call([a.rec], self_obj=a.self)

    def post(self, c, a, out):
        s, o = a.self, a.src
        return {'same-fields': And(s.year == o.year, s.month == o.month, s.day == o.day, s.hour == o.hour, s.minute == o.minute,
                                   s.second == o.second, s.tz == o.tz, s.timetype == o.timetype)}
