"""Contracts for pycdlib/utils.py (foundation F1, F2, gmtoffset)."""
from pyvc import sx
from pyvc.sx import And, Or, Not, Implies, If, Eq
from pyvc.contract import contract, Call, LoopSpec


class Base:
    prop = []
    replayable = True

    def post(self, c, a, out):
        return {}

    def raises(self, c, a):
        return {}

    def post_raise(self, c, a, out):
        return {}


def byte_reverse(x, nbytes):
    """spec: integer whose big-endian bytes are the little-endian bytes of x (linear, over explicit byte digits)"""
    raise NotImplementedError


@contract
class CeilingDiv(Base):
    """F1: d > 0  =>  d*(r-1) < n <= d*r   (r is the ceiling of n/d)"""
    target = 'pycdlib.utils.ceiling_div'

    def setup(self, c):
        a = c.a
        a.n = c.int('numer')
        a.d = c.int('denom')
        c.assume(a.d > 0)
        return Call([a.n, a.d])

    def post(self, c, a, out):
        r = out.result
        return {'ceil-upper': a.n <= a.d * r, 'ceil-lower': a.d * (r - 1) < a.n}


@contract
class CeilingDivZero(Base):
    """division by zero is the only way ceiling_div raises, and it raises ZeroDivisionError exactly then"""
    target = 'pycdlib.utils.ceiling_div'
    covers = ('return', 'raise:ZeroDivisionError')

    def setup(self, c):
        a = c.a
        a.n = c.int('numer')
        a.d = c.int('denom')
        return Call([a.n, a.d])

    def raises(self, c, a):
        return {'ZeroDivisionError': a.d == 0}


class SwabBase(Base):
    width = 32

    def setup(self, c):
        a = c.a
        a.x = c.int('x')
        # the value as explicit base-256 digits (spec side): x = sum b_i 256^i when in range
        a.digits = c.digits(a.x, self.width // 8)
        return Call([a.x])

    def post(self, c, a, out):
        return {'byte-reversal': out.result == sx.be_int(a.digits),
                'in-range': And(out.result >= 0, out.result < 2 ** self.width)}

    def raises(self, c, a):
        return {'PyCdlibInternalError': Or(a.x < 0, a.x >= 2 ** self.width)}


@contract
class Swab32(SwabBase):
    """F2: result is the byte reversal of the 32-bit value; InternalError iff out of range"""
    target = 'pycdlib.utils.swab_32bit'
    width = 32
    covers = ('return', 'raise:PyCdlibInternalError')


@contract
class Swab16(SwabBase):
    target = 'pycdlib.utils.swab_16bit'
    width = 16
    covers = ('return', 'raise:PyCdlibInternalError')


# 2156-01-01T00:00:00Z
T_MAX = 5869584000


@contract
class GmtOffset(Base):
    """C19/offset: under the zone assumption localtime(t) = gmtime(t + 900 z), gmtoffset_from_tm(t, localtime(t)) = z."""
    target = 'pycdlib.utils.gmtoffset_from_tm'

    def setup(self, c):
        a = c.a
        a.t = c.int('t', 0, T_MAX - 1)
        a.z = c.int('z', -48, 56)
        c.assume(a.t + 900 * a.z < T_MAX)
        if c.symbolic:
            c.p.ghost['tz_quarters'] = a.z
            local = c.it.call(c.loader.load('time').ns['localtime'], [a.t], {})
        else:
            import time
            time.tzset()
            local = time.localtime(a.t)
            # the replay environment sets TZ so that the zone offset is exactly z quarter hours
            c.assume(local.tm_gmtoff == 900 * a.z)
        return Call([a.t, local])

    def replay_env(self, values):
        return {'TZ': tz_string(values.get('z', 0))}

    replayable = False  # abstract calendar: see contracts.dates.ZoneMixin

    def seeds(self):
        from contracts.dates import ZoneMixin
        return ZoneMixin.seeds(self)

    def post(self, c, a, out):
        return {'offset-is-zone-offset': out.result == a.z}


def tz_string(z):
    """POSIX TZ string for a fixed zone z quarter-hours east of Greenwich"""
    mins = 15 * z
    sign = '-' if mins >= 0 else '+'  # POSIX: positive means west
    mins = abs(mins)
    return 'PVC%s%02d:%02d' % (sign, mins // 60, mins % 60)
