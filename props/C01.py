from pyvc.verify import Unit
from contracts import fidelity as F
from contracts import dr as D
from contracts import pycdlibio as P


def units(tier):
    # bridge histories: every entry named in ISO9660, Rock Ridge, Joliet and UDF at once; the UDF side decoded by the independent UDF reader
    scripts = sorted(F.SCRIPTS) + F.random_names(tier) + F.random_bridge_names(tier)
    return [Unit(F.Mastered, {'script': s}) for s in scripts] + [Unit(F.Reopened, {'script': s, 'edit': False}) for s in scripts] + \
        [Unit(D.RecalcStep), Unit(D.WriterStep), Unit(P.CopyDataYield), Unit(P.InodeOpen, {'location': 1}), Unit(P.InodeOpen, {'location': 2}),
         Unit(P.InodeOpen, {'location': 2, 'managed': True}), Unit(D.RecalcWhole, {'n': 3, 'index': 1}), Unit(D.RRChildRemove, {'n': 3, 'index': 1})] + \
        [Unit(D.DRRoundTrip, {'len_fi': n, 'xa': False}) for n in (1, 8, 13)]


META = {}
OPTS = {'quick': {'unit_timeout_s': 900}}


META = {
    'assumptions': [
        'B (bounded scenarios): eight edit scripts and random edit histories in nine image flavours (files of boundary sizes, directories, removals, hard links in both namespaces, symbolic links, hidden flags, long / non-ASCII names; every operation drawn from the current state of the tree) (plain files/dirs incl. an empty file, Joliet with a long name and an ISO-only file, Rock Ridge with a 224-character name, relative and absolute symlinks and nested dirs, Rock Ridge 1.12 + Joliet with removals and a hidden file, hard links, 60 files in one directory (multi-sector directory), eight nested Rock Ridge directories (relocation)); every file CONTENT is symbolic, so byte-for-byte fidelity is proved for every content of the given sizes',
        'the image is decoded by an independent reader written from ECMA-119 / Joliet / SUSP-RRIP (contracts/reader.py, no pycdlib code); the reader itself is trusted',
        'the unbounded, per-structure side of C01 is the set of function-level contracts of C03 (record / descriptor layouts, packing and writer step lemmas), C05 (parse/record round trips) and C16 (data copy loop), which this check also runs',
    ],
    'out_of_reach': [
        'arbitrary edit histories and tree shapes: the tree-induction step (the records reachable by a reader are exactly the ones the API built) is only exercised on the scripts',
        'UDF namespace: decoded by the independent UDF reader on the bridge histories only (C10 has the UDF scripts)',
    ],
    'bounded': ['8 edit scripts + 9 random edit histories (thorough: 108, moved by VERIF_SEED), file sizes 0..5000 bytes'],
}

MANIFEST = {
    'level_text': 'Bounded scenarios executed by the verifier on the real code with SYMBOLIC file contents + the unbounded function-level contracts they rest on: each of eight edit scripts and of nine random edit histories (108 in the thorough tier) is mastered by the real new/add_*/rm_*/write_fp code inside pyvc; an independent ECMA-119/Joliet/RRIP reader must find exactly the implied ISO9660, Joliet and Rock Ridge trees, names, types, link counts, symlink targets, hidden flags, every file byte for byte, valid structure, disjoint allocation and exact length; the library must reopen its image, show the same and re-master it identically (edits of reopened images: C02). One defect found and repaired (K38: ".." length).',
    'level_note': 'Scenario part is bounded (7 scripts) but symbolic in all file contents; trusted: pyvc executing ~15k lines of real code per scenario (mastering output cross-checked byte-identical with CPython), the independent reader, pinned clock. Not decided: arbitrary histories.',
    'design_ref': 'DESIGN.md section 4 C01',
}
