from pyvc.verify import Unit
from contracts import fidelity as F
from contracts import headervd as H
from contracts import acct as A
from contracts import dr as D


def units(tier):
    us = [Unit(F.Reopened, {'script': s}) for s in sorted(F.SCRIPTS) + F.random_names(tier)]
    # two generations (open - edit - write - open - edit - write)
    two = ['rr-joliet-remove', 'joliet', 'deep-rr'] if tier == 'quick' else [s for s in sorted(F.SCRIPTS_ALL) if s != 'empty-files'] + F.random_names(tier)
    us += [Unit(F.Reopened, {'script': s, 'generations': 2}) for s in two]
    us += [Unit(F.ReopenedUDF, {'script': s}) for s in sorted(F.UDF_SCRIPTS) + F.random_udf_names(tier)]
    us += [Unit(H.VDCopy), Unit(H.AddToPtrSize, {'remove': False}), Unit(H.AddToPtrSize, {'remove': True})]
    # edits rely on the cached per-child positions / indices being rebuilt from the edit point on, whatever they held before
    us += [Unit(D.RecalcStep)] + [Unit(D.RecalcWhole, {'n': 3, 'index': i}) for i in (0, 1, 2)]
    # and on a removed link being exactly the record named (links with equal names in different directories, data moving afterwards)
    us += [Unit(F.Mastered, {'script': 'joliet-same-name-links'}), Unit(F.Reopened, {'script': 'joliet-same-name-links'})]
    # histories that go on after the image was written and opened again (every few operations)
    us += [Unit(F.Mastered, {'script': s}) for s in ['rr-edit-after-reopen'] + F.random_reopen_names(tier)]
    us += [Unit(F.MasteredUDF, {'script': s}) for s in F.random_udf_reopen_names(tier)]
    return us


META = {}
OPTS = {'quick': {'unit_timeout_s': 900}}


META = {
    'assumptions': [
        'B (bounded scenarios): the eight ISO9660/Joliet/Rock Ridge scripts and five UDF scripts of C01/C10 are written, OPENED again by the library (all executed by pyvc), re-mastered (must be byte-identical) and then edited on the opened object (remove one file, add a file, add a directory); independent readers decode the result; file contents symbolic',
        'class invariants that parsing must re-establish are checked through their observable consequences on these scripts (sizes, anchors, path-table extents) and, function-level, by VD.copy / add_to_ptr_size / remove_from_ptr_size',
    ],
    'out_of_reach': [
        'foreign images (not written by the library), arbitrary numbers of generations and arbitrary edit sequences: only one open-edit-write generation per script',
    ],
    'bounded': ['13 scripts + random ISO9660/Joliet/Rock Ridge and UDF histories, one edit generation (two for a subset; thorough: all)'],
}

MANIFEST = {
    'level_text': 'Bounded scenarios executed by the verifier on the real code with SYMBOLIC file contents: for 13 edit scripts and 12 random edit histories (thorough: 138) the written image is opened again, re-mastered without edits (byte-identical), then edited on the opened object (for some, over two generations: open - edit - write - open - edit - write); independent ISO9660/Joliet/RRIP/UDF readers must find the old content plus exactly the edits, untouched files keep their bytes, structures stay valid, the last-sector anchor stays in place and the image has exactly its declared length. Four defects repaired (K9 UDF link counts not rebuilt on open; K45 / K46 empty UDF files sharing an Inode after open; K48 continuation blocks never released), one recorded (K21: empty files share one inode after parsing).',
    'level_note': 'Scenario-level (bounded scripts, one generation), symbolic in file contents. Trusted: pyvc executing open/edit/write of the real code, the independent readers, pinned clock.',
    'design_ref': 'DESIGN.md section 4 C02',
}
