from pyvc.verify import Unit
from contracts import dr as D
from contracts import headervd as H
from contracts import acct as A


def lens(tier):
    return [1, 2, 7, 8, 12, 13, 30, 31, 207, 221, 222] if tier == 'quick' else list(range(1, 223))


def units(tier):
    us = []
    for n in lens(tier):
        for xa in (False, True):
            if D.spec_dr_len(n, xa) <= 254:
                us.append(Unit(D.DRRecord, {'len_fi': n, 'xa': xa}))
    us.append(Unit(D.RecalcStep))
    for n, idx in ((1, 0), (2, 0), (2, 1), (3, 0), (3, 1), (3, 2), (4, 2)) if tier == 'quick' else [(n, i) for n in range(1, 7) for i in range(0, n)]:
        us.append(Unit(D.RecalcWhole, {'n': n, 'index': idx}))
    for n in ([1, 2, 5, 8, 31, 32, 207] if tier == 'quick' else list(range(1, 208))):
        us.append(Unit(D.PTRRecord, {'len_di': n, 'big': False}))
        us.append(Unit(D.PTRRecord, {'len_di': n, 'big': True}))
        us.append(Unit(D.PTRLength, {'len_di': n}))
    us.append(Unit(D.WriterStep))
    for lx, ly, lz in ((1, 1, 1), (1, 1, 2), (1, 2, 2), (2, 2, 2), (2, 1, 3)):
        us.append(Unit(D.LtOrder, {'lx': lx, 'ly': ly, 'lz': lz}))
    for nf in ((0, 1, 2) if tier == 'quick' else (0, 1, 2, 3)):
        for root in (False, True):
            us.append(Unit(D.AddChild, {'nfiles': nf, 'is_root': root}))
    for rem in (False, True):
        us.append(Unit(A.AddToPtrSizeAllPVDs, {'remove': rem, 'npvd': 2}))
    us += [Unit(H.VDRecord, {'vd_type': 1}), Unit(H.VDRecord, {'vd_type': 2}), Unit(H.VDSTRecord), Unit(H.BRRecord)]
    # whole images judged by the independent ECMA-119 / Joliet / RRIP / UDF readers: volume descriptor set, both-endian copies,
    # records packed inside sectors and sorted, '.' and '..', path tables in standard order, system use areas, UDF tags
    from contracts import fidelity as F
    for s in sorted(F.SCRIPTS_ALL) + F.random_names(tier):
        us.append(Unit(F.Mastered, {'script': s}))
    for s in sorted(F.UDF_SCRIPTS) + F.random_udf_names(tier):
        us.append(Unit(F.MasteredUDF, {'script': s}))
    return us


def canaries(tier):
    return [Unit(D.DRRecord, {'len_fi': 8, 'xa': False, '_canary': True})]


META = {}
OPTS = {'quick': {'unit_timeout_s': 900}, 'thorough': {'unit_timeout_s': 1800}}

META = {
    'assumptions': [
        'E families: directory records per identifier length 1..222 x XA (quick: boundary lengths), path table records per identifier length 1..207, symbolic in every other field; DR-INV/VD-INV (numbers fit their fields, text fields have their exact widths) are the class invariants assumed for record()',
        'DirectoryRecord.record of the root record inside a volume descriptor and of a child inside the writer loop are used through callee contracts (34 bytes / dr_len bytes) that DRRecord proves',
        'B (bounded): _add_child and whole-directory packing are checked on directories of at most 2 (quick) / 3 plain files besides . and .. with 3-byte identifiers; the per-record step lemmas (RecalcStep, WriterStep) are unbounded',
    ],
    'out_of_reach': [
        'that both BFS loops (_reshuffle_extents path-table numbering and _write_directory_records) dequeue directories in the same order, and that the set of records reachable by a reader equals the tree the API built: tree induction, not machine-checked',
        'Rock Ridge system-use content inside records (C08), Joliet/enhanced descriptors beyond the shared VD layout (C09)',
        'ECMA-119 9.3 collation for names without a dot is not claimed: the code documents byte order of the whole identifier, which is what the order lemma pins',
    ],
    'bounded': ['AddChild: nfiles <= 2 (quick) / 3 (thorough)', 'RecalcWhole: n <= 4 (quick) / 6 (thorough)', 'whole images: 19 + 6 edit scripts and 12 random histories (thorough: 138) decoded by the independent readers'],
}

MANIFEST = {
    'level_text': 'Proof (deductive) of the encoders against ECMA-119 layouts written independently of the code: DirectoryRecord.record (every identifier length, with/without XA), PathTableRecord.record_little/big_endian and record_length, PrimaryOrSupplementaryVD.record (PVD and SVD), VolumeDescriptorSetTerminator.record, BootRecord.record; next-fit packing step lemma for _recalculate_extents_and_offsets and the matching step lemma for the writer loop of _write_directory_records (records are written where they were booked, never across a sector boundary); strict total order lemma for DirectoryRecord.__lt__; _add_child keeps directories sorted/packed/duplicate-free with correct . and .. lengths (bounded directory sizes). Plus whole images (all edit scripts and random edit histories, symbolic contents) judged structurally valid by independent ECMA-119 / Joliet / SUSP-RRIP / ECMA-167 readers.',
    'level_note': 'Trusted: pyvc (+ per-path CPython cross-check, canary), z3, struct model. Class invariants of the record objects are assumed at record() (they are established by _new/parse: partly proved in C05). Not decided: BFS order equivalence / whole-tree reachability (tree induction), path-table numbering across the tree.',
    'design_ref': 'DESIGN.md section 4 C03',
}
