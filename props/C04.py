from pyvc.verify import Unit
from contracts import headervd as H
from contracts import dr as D
from contracts import utils as U
from contracts import rr_ce as CE
from contracts import acct as A


def units(tier):
    us = [Unit(U.CeilingDiv), Unit(U.CeilingDivZero), Unit(H.AddToSpaceSize, {'remove': False}), Unit(H.AddToSpaceSize, {'remove': True}),
          Unit(H.AddToPtrSize, {'remove': False}), Unit(H.AddToPtrSize, {'remove': True}), Unit(H.VDCopy), Unit(D.RecalcStep)]
    for n, idx in ((1, 0), (2, 1), (3, 0), (3, 2), (4, 2)) if tier == 'quick' else [(n, i) for n in range(1, 7) for i in range(0, n)]:
        us.append(Unit(D.RecalcWhole, {'n': n, 'index': idx}))
    for rem in (False, True):
        for npvd in (1, 2, 3):
            us.append(Unit(A.AddToPtrSizeAllPVDs, {'remove': rem, 'npvd': npvd}))
        for jol, enh, alw in ((True, False, False), (False, True, True), (True, True, False), (False, False, True)):
            us.append(Unit(A.FinishAdd, {'remove': rem, 'joliet': jol, 'enhanced': enh, 'always': alw}))
    for n in ((0, 1, 2, 3) if tier == 'quick' else range(0, 6)):
        us.append(Unit(CE.CEAddEntry, {'n': n}))
    for n in (0, 1, 2):
        us.append(Unit(CE.VDAddRRCEEntry, {'n': n}))
    for n in (1, 2, 3):
        us.append(Unit(CE.RemoveChildReleasesCE, {'n': n}))
    for nl in (0, 1, 2, 3):
        for anchors in (0, 2, 3):
            us.append(Unit(CE.SetInode, {'nlinks': nl, 'anchors': anchors}))
    # whole images: objects disjoint, inside the declared size, exact length, shared sectors iff links (independent readers)
    from contracts import fidelity as F
    for s in ['plain-small', 'hard-links', 'many-files', 'rr-ce-history', 'joliet-many-dirs', 'deep-rr-112', 'joliet-same-name-links'] + F.random_names(tier):
        us.append(Unit(F.Mastered, {'script': s}))
    for s in ('udf-many', 'udf-remove'):
        us.append(Unit(F.MasteredUDF, {'script': s}))
    # ... also for images as other tools write them (an empty file's record carries the next file's sector number)
    for s in ('empty-files', 'plain-small'):
        us.append(Unit(F.ReopenedForeignEmpty, {'script': s}))
    return us


def canaries(tier):
    return [Unit(H.AddToSpaceSize, {'remove': False, '_canary': True})]


META = {}
OPTS = {'quick': {'unit_timeout_s': 900}, 'thorough': {'unit_timeout_s': 1800}}

META = {
    'assumptions': [
        'component-wise reading of C04: every allocator/accountant is exact (space size deltas = ceil(bytes/block), path-table extents = 2*ceil(size/4096), continuation areas disjoint inside their block, content placed at one location shared by all its links, next-fit packing of records)',
        'B (bounded): continuation blocks with at most 3 (quick) / 5 existing areas; inodes with at most 3 links; directories of at most 4/6 records for whole-directory packing',
        'B (bounded scenarios, executed by pyvc on the real code, symbolic file contents, decoded by the independent readers): nine images (multi-sector directory, continuation blocks with removals and re-use, Joliet path tables beyond one sector, relocation, links in several namespaces, multi-block UDF directory, UDF removals) must have all objects disjoint, inside the declared size, exact length, shared sectors iff links; two images in the form other mastering tools write (empty files carrying the next file\'s sector number) must keep every file on its own sectors after open + edit + write',
    ],
    'out_of_reach': [
        'space_size = last assigned extent after EVERY history, and global non-overlap of all on-disc objects for arbitrary object graphs (tree induction over _reshuffle_extents): decided on the scenario images only',
        'the straight-line head of _reshuffle_extents (volume descriptor / path table extents) and _udf_assign_extents are not under contract yet',
    ],
    'bounded': ['CEAddEntry n<=3/5', 'SetInode nlinks<=3', 'RecalcWhole n<=4/6', '11 scenario images'],
}

MANIFEST = {
    'level_text': 'Proof (deductive) of the allocation components: add/remove_to_space_size (ceil of bytes per block, frame), add/remove_from_ptr_size (PT-INV preserved, True iff two extents change), PrimaryOrSupplementaryVD.copy (sizes and path-table extents copied), continuation-area allocator add_entry / add_rr_ce_entry (disjoint, in block, None when full, new block iff flagged), _set_inode (one location for all links, next free sector = start + ceil(len/2048), third-anchor sector skipped), next-fit record packing step lemma; plus eleven whole-image scenarios (symbolic contents, independent readers) for disjointness, declared size, exact length and shared-iff-linked, including images as other tools write them. Two defects found and repaired (K3 full block reported as offset -1, K18 duplicate PVD lost its path-table extent count).',
    'level_note': 'Trusted: pyvc, z3. Component exactness for all inputs; the composition to global non-overlap and exact image size is checked on the scenario images, not over arbitrary edit histories (tree induction not machine-checked); bounded sizes for list-shaped pre-states as listed.',
    'design_ref': 'DESIGN.md section 4 C04',
}
