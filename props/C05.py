from pyvc.verify import Unit
from contracts import dr as D
from contracts import dates as DT
from contracts import eltorito as E
from contracts import udf_time as UT
from contracts import rr_tf as TF
from contracts import headervd as H


def units(tier):
    us = []
    for n in ([1, 2, 8, 13, 221, 222] if tier == 'quick' else list(range(1, 223))):
        for xa in (False, True):
            if D.spec_dr_len(n, xa) <= 254:
                us.append(Unit(D.DRRoundTrip, {'len_fi': n, 'xa': xa}))
    for n in (34, 35):
        us.append(Unit(D.DRParseRejects, {'n': n}))
    for n in ([1, 2, 5, 8, 31, 207] if tier == 'quick' else list(range(1, 208))):
        us.append(Unit(D.PTRRoundTrip, {'len_di': n}))
    us += [Unit(DT.DRDateRoundTrip), Unit(DT.VDDateRoundTrip), Unit(E.EntryRoundTrip), Unit(UT.UDFTimestampRoundTrip), Unit(E.BootInfoTableParse)]
    us.append(Unit(H.BRRoundTrip))
    for p in (0, 1, 2, 0xef):
        us.append(Unit(E.ValidationRoundTrip, {'platform': p}))
    for f in ([0, 1, 0x0e, 0x7f] if tier == 'quick' else list(range(128))):
        us.append(Unit(TF.TFRoundTrip, {'flags': f}))
    return us


def canaries(tier):
    return [Unit(D.PTRRoundTrip, {'len_di': 5, '_canary': True})]


META = {}

META = {
    'assumptions': [
        'RT2 is proved on library-shaped input: bytes produced by record() of an arbitrary state in the class invariant (directory records: every identifier length, with/without XA, no Rock Ridge) or, for fixed-size structures, on ALL byte strings of that size that parse accepts',
        'strptime / UTF-8 decoding outcome of volume-descriptor dates is uninterpreted (identity-or-canonical-empty is proved for every outcome)',
    ],
    'out_of_reach': [
        'whole-image fixpoint: needs every structure class (Rock Ridge entries, UDF descriptors, isohybrid/GPT, volume descriptors are not all under round-trip contract yet) plus parse restoring every input of _reshuffle_extents (C02) - not decided',
    ],
    'bounded': [],
}

MANIFEST = {
    'level_text': 'Proof (deductive) of parse/record round trips, structure by structure: DirectoryRecord (record -> parse -> record identity and recovery of the logical entry, all identifier lengths, XA), PathTableRecord, DirectoryRecordDate, VolumeDescriptorDate, El Torito validation entry / entry / boot info table, UDF timestamp, Rock Ridge TF, boot record; parse refusing inconsistent both-endian fields with InvalidISO only.',
    'level_note': 'Trusted: pyvc, z3, struct model. Only the listed structure classes are covered; the whole-image fixpoint (all classes + layout recomputation) is NOT claimed by this check.',
    'design_ref': 'DESIGN.md section 4 C05',
}
