from pyvc.verify import Unit
from contracts import dr as D
from contracts import dates as DT
from contracts import eltorito as E
from contracts import udf_time as UT
from contracts import rr_tf as TF
from contracts import headervd as H


def units(tier):
    us = []
    for n in ([1, 2, 8, 13, 221, 222] if tier == 'quick' else list(range(1, 223))):
        for xa in (False, True):
            if D.spec_dr_len(n, xa) <= 254:
                us.append(Unit(D.DRRoundTrip, {'len_fi': n, 'xa': xa}))
    for n in (34, 35):
        us.append(Unit(D.DRParseRejects, {'n': n}))
    for n in ([1, 2, 5, 8, 31, 207] if tier == 'quick' else list(range(1, 208))):
        us.append(Unit(D.PTRRoundTrip, {'len_di': n}))
    us += [Unit(DT.DRDateRoundTrip), Unit(DT.VDDateRoundTrip), Unit(E.EntryRoundTrip), Unit(UT.UDFTimestampRoundTrip), Unit(E.BootInfoTableParse)]
    us.append(Unit(H.BRRoundTrip))
    from contracts import isohybrid as IHC
    for heads, sectors in ((64, 32), (255, 63), (1, 1), (256, 17)):
        us.append(Unit(IHC.IsoHybridRoundTrip, {'heads': heads, 'sectors': sectors}))
    for p in (0, 1, 2, 0xef):
        us.append(Unit(E.ValidationRoundTrip, {'platform': p}))
    for f in ([0, 1, 0x0e, 0x7f] if tier == 'quick' else list(range(128))):
        us.append(Unit(TF.TFRoundTrip, {'flags': f}))
    # whole images: open what the library wrote and write it again - byte for byte the same (ISO9660, XA, Rock Ridge incl. names and
    # symbolic links spread over several entries and continuation areas, relocation, Joliet, UDF), file contents symbolic
    from contracts import fidelity as F
    for s in sorted(F.SCRIPTS_ALL) + F.random_names(tier):
        us.append(Unit(F.Reopened, {'script': s, 'edit': False}))
    # El Torito and hybrid images: write -> open -> write is the identity
    from contracts import boot as B
    for h in ('basic', 'info-table', 'sections', 'subdir-rr'):
        us.append(Unit(B.BootImage, {'history': h, 'reopen': True}))
    for v in sorted(B.HYBRIDS):
        if not v.startswith('efi'):
            us.append(Unit(B.HybridImage, {'variant': v, 'reopen': True}))
    for s in sorted(F.UDF_SCRIPTS) + F.random_udf_names(tier):
        us.append(Unit(F.ReopenedUDF, {'script': s}))
    return us


def canaries(tier):
    return [Unit(D.PTRRoundTrip, {'len_di': 5, '_canary': True})]


META = {}
OPTS = {'quick': {'unit_timeout_s': 900}, 'thorough': {'unit_timeout_s': 1800}}

META = {
    'assumptions': [
        'RT2 is proved on library-shaped input: bytes produced by record() of an arbitrary state in the class invariant (directory records: every identifier length, with/without XA, no Rock Ridge) or, for fixed-size structures, on ALL byte strings of that size that parse accepts',
        'strptime / UTF-8 decoding outcome of volume-descriptor dates is uninterpreted (identity-or-canonical-empty is proved for every outcome)',
    ],
    'out_of_reach': [
        'whole-image fixpoint for EVERY image: decided structure by structure for the classes listed and, end to end, on the scenario images only (El Torito / isohybrid images are covered by their structure round trips, not by a whole-image scenario)',
    ],
    'bounded': ['24 whole-image scenarios (19 ISO9660/Joliet/Rock Ridge scripts, 5 UDF scripts): open the written image, write again, byte-identical; file contents symbolic'],
}

MANIFEST = {
    'level_text': 'Proof (deductive) of parse/record round trips, structure by structure: DirectoryRecord (record -> parse -> record identity and recovery of the logical entry, all identifier lengths, XA), PathTableRecord, DirectoryRecordDate, VolumeDescriptorDate, El Torito validation entry / entry / boot info table, UDF timestamp, Rock Ridge TF, boot record; parse refusing inconsistent both-endian fields with InvalidISO only. Plus whole-image fixpoints executed by the verifier on the real code for 24 edit scripts (symbolic contents): ISO9660, XA, Rock Ridge 1.09/1.10/1.12 with multi-entry names and symbolic links ending at and inside component boundaries, continuation areas, relocation, Joliet, UDF.',
    'level_note': 'Trusted: pyvc, z3, struct model. Structure round trips hold for all inputs; the whole-image fixpoint is bounded to the scenario images.',
    'design_ref': 'DESIGN.md section 4 C05',
}
