from pyvc.verify import Unit
from contracts import lazy as Z
from contracts import acct as A


def units(tier):
    us = []
    for seq in sorted(Z.SEQS):
        for sch in Z.SCHEDULES:
            us.append(Unit(Z.ScheduleIndependent, {'seq': seq, 'schedule': sch}))
    # random edit histories (contracts/fidelity.py) under a random recomputation schedule (before each edit: nothing / force /
    # query / list / write) and in always-consistent mode
    import os
    base = int(os.environ.get('VERIF_SEED', '0') or 0) * 1000 if tier != 'quick' else 0
    flavours = ('plain', 'joliet', 'rr109', 'rr112-joliet-xa') if tier == 'quick' else ('plain', 'level3', 'joliet', 'rr109', 'rr112', 'rr110-joliet', 'rr112-joliet-xa')
    for fl in flavours:
        for k in range(1, 2 if tier == 'quick' else 9):
            us.append(Unit(Z.ScheduleIndependent, {'seq': 'random:%s:%d' % (fl, base + k), 'schedule': 'random:%d' % (base + k)}))
            us.append(Unit(Z.ScheduleIndependent, {'seq': 'random:%s:%d' % (fl, base + k), 'schedule': 'always-consistent'}))
    # histories on bridge images (all four namespaces) and histories that go on after the image was written and opened again
    from contracts import fidelity as F
    for s_ in F.random_bridge_names(tier) + F.random_reopen_names(tier):
        k = sum(map(ord, s_)) % 7
        us.append(Unit(Z.ScheduleIndependent, {'seq': s_, 'schedule': 'random:%d' % (base + k)}))
        us.append(Unit(Z.ScheduleIndependent, {'seq': s_, 'schedule': 'always-consistent'}))
    for m in sorted(Z.MUTATORS):
        us.append(Unit(Z.MutatorMarksStale, {'method': m}))
    for rem in (False, True):
        for jol, enh, alw in ((True, False, False), (False, True, True)):
            us.append(Unit(A.FinishAdd, {'remove': rem, 'joliet': jol, 'enhanced': enh, 'always': alw}))
    return us


META = {}
OPTS = {'quick': {'unit_timeout_s': 900}, 'thorough': {'unit_timeout_s': 1800}}


META = {
    'assumptions': [
        'B (bounded scenarios): six edit sequences (files/dirs with Joliet, hard links, Rock Ridge with continuation areas and a symlink, El Torito, isohybrid add/remove/add, UDF) x six schedules (always-consistent object, force_consistency after every edit, record queries after every edit, force before the last edit, write in the middle, write twice), all executed by pyvc on the real code and compared with the plain lazy schedule; plus random edit histories (4 quick / 56 thorough) each under a random per-edit schedule (nothing / force_consistency / record query / listing / write) and in always-consistent mode; clock/random pinned',
        'stale-flag discipline: every public mutator, called on an image whose metadata is up to date, leaves it recomputed or marked stale (and the write after it equals that of a reference image); _finish_add/_finish_remove (proved for symbolic sizes) end with the flag set or a recomputation',
    ],
    'out_of_reach': [
        'idempotence / determinism of _reshuffle_extents over arbitrary object graphs and arbitrary edit histories: only the listed sequences are decided',
        'record queries after force_consistency reporting exactly the locations of the next write is decided only through write equality (the same object state is written), not by decoding the image',
    ],
    'bounded': ['6 sequences x 6 schedules; 14 mutators'],
}

MANIFEST = {
    'level_text': 'Bounded scenarios executed by the verifier on the real code + proved flag discipline: for six edit sequences and six recomputation schedules, and for random edit histories under random per-edit schedules and in always-consistent mode, the written bytes equal those of the lazy schedule; each of 14 public mutators marks the metadata stale (or recomputes) and the following write reflects the edit; _finish_add/_finish_remove proved for symbolic sizes. One defect repaired (K11: add_isohybrid left metadata unmarked).',
    'level_note': 'NOT a proof over all histories: bounded table of sequences and schedules. Trusted: pyvc executing the real mastering code (byte-identical with CPython on the cross-check), pinned clock/random.',
    'design_ref': 'DESIGN.md section 4 C06',
}
