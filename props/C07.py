from pyvc.verify import Unit
from contracts import links as L
from contracts import rr_ce as CE


def units(tier):
    us = [Unit(L.Links, {'script': s}) for s in sorted(L.LINK_SCRIPTS)]
    us += [Unit(L.ReleasedSpace, {'variant': 'plain'}), Unit(L.ReleasedSpace, {'variant': 'links'}), Unit(L.ReleasedSpace, {'variant': 'eltorito-twice'})]
    # random link histories over the three namespaces (names added, linked across namespaces, removed one at a time until the content
    # is released, rm_file), fresh and going on after the image was written and opened again
    import os
    base = int(os.environ.get('VERIF_SEED', '0') or 0) * 1000 if tier != 'quick' else 0
    for k in range(1, 4 if tier == 'quick' else 41):
        us.append(Unit(L.Links, {'script': 'random:%d' % (base + k)}))
        us.append(Unit(L.Links, {'script': 'random:%d:r' % (base + k)}))
    for nl in (1, 2, 3):
        us.append(Unit(CE.SetInode, {'nlinks': nl, 'anchors': 2}))
    # random edit histories with hard links in both namespaces (added, removed one name at a time, rm_file taking all names)
    from contracts import fidelity as F
    for s in F.random_names(tier, ['joliet', 'rr110-joliet', 'plain'], 1, 12):
        us.append(Unit(F.Mastered, {'script': s}))
        us.append(Unit(F.Reopened, {'script': s, 'edit': False}))
    return us


META = {}
OPTS = {'quick': {'unit_timeout_s': 900}}


META = {
    'assumptions': [
        'B (bounded scenarios): seven link scripts on an image carrying ISO9660 + Joliet + UDF (links added in and across all namespaces, removed one by one, rm_file taking every name of a content and no other - even another file with identical size, empty files with links, El Torito holding a boot file whose names are all removed, the last name going after rm_eltorito) and three released-space comparisons; file CONTENTS are symbolic; decoding by the independent readers',
        'function-level: PyCdlib._set_inode gives every record linked to a content the same location (C04 unit)',
    ],
    'out_of_reach': [
        'arbitrary interleavings of link operations: the inductive argument over LINK-INV (every operation preserves: each inode is referenced, each record points at its inode, no duplicates) is exercised on the scripts only',
        'links on OPENED images where the names of a content must be re-discovered from extents (see K21 for empty files)',
    ],
    'bounded': ['7 scripts + 3 released-space comparisons'],
}

MANIFEST = {
    'level_text': 'Bounded scenarios executed by the verifier on the real code with SYMBOLIC file contents: for seven link scripts independent ISO9660 / Joliet / UDF readers find exactly the surviving names, all names of a content read the same bytes from the same sectors, distinct contents never share sectors, the El Torito entry keeps pointing at the boot bytes; an image on which a file lost its last reference (by rm_file, by removing every link, or after rm_eltorito with two entries on one file) is byte for byte the image on which it was never added.',
    'level_note': 'Scenario-level (bounded scripts), symbolic in contents. Trusted: pyvc executing the real code, the independent readers, pinned clock.',
    'design_ref': 'DESIGN.md section 4 C07',
}
