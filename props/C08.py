from pyvc.verify import Unit
from contracts import rockridge as RRC
from contracts import rr_ce as CE
from contracts import fidelity as F

RR_SCENARIOS = ['rock-ridge', 'rr-joliet-remove', 'deep-rr'] + sorted(F.RR_SCRIPTS)


def units(tier):
    scen = RR_SCENARIOS + F.random_names(tier, ['rr109', 'rr112', 'rr110-joliet', 'rr112-joliet-xa'], 1, 15)
    us = [Unit(F.Mastered, {'script': s}) for s in scen]
    us += [Unit(F.Reopened, {'script': s}) for s in scen]
    for n in (0, 1, 2, 3) if tier == 'quick' else (0, 1, 2, 3, 4, 5):
        us.append(Unit(CE.CEAddEntry, {'n': n}))
        if n:
            us.append(Unit(CE.CERemoveEntry, {'n': n}))
        us.append(Unit(CE.CETrackEntry, {'n': n}))
    for n in (1, 2):
        us.append(Unit(CE.VDAddRRCEEntry, {'n': n}))
    for n in (1, 2, 3):
        us.append(Unit(CE.RemoveChildReleasesCE, {'n': n}))
    us += [Unit(RRC.RRNew, d) for d in RRC.sweep(tier)]
    # a symbolic link without a target has no representation: refused, image unchanged
    from contracts import atomic as A
    us.append(Unit(A.Refused, {'sid': 'add_symlink:empty-target'}))
    return us


OPTS = {'quick': {'unit_timeout_s': 900}, 'thorough': {'unit_timeout_s': 1800}}

META = {
    'assumptions': [
        'RockRidge.new units: the NAME BYTES and the FILE MODE are symbolic (proved for every value); the name length, the record length so far (ISO identifier length, XA), the version, the relocation role and the symlink target are instance parameters that the check sweeps (quick: 447 combinations around every boundary; thorough: every even record length 34..226 x name lengths 1..259 and 420..1100 x 3 versions x 11 target shapes) - bounded in those parameters, not in the contents',
        'symlink targets are concrete byte strings from a table of shapes (absolute, ".", "..", empty components, 255/300/600-byte components, 90 components): the splitting algorithm only inspects "/" "." "..", never other bytes',
        'continuation allocator units: a block is any list of n sorted, disjoint areas inside 2048 bytes (n <= 3 quick, <= 5 thorough), offsets and lengths symbolic',
        'B (bounded scenarios): seven Rock Ridge edit scripts (versions 1.09 / 1.10 / 1.12, with XA, names of 1..700 bytes, 60-component and 300-byte-component targets, explicit modes, twelve spilled names sharing continuation blocks with removals and re-use of the gaps, nine-level trees with relocation and more entries below the relocated directory) mastered, reopened, re-mastered and edited inside pyvc; file contents symbolic; decoded by the independent SUSP/RRIP reader of contracts/reader.py (trusted)',
        'the POSIX link count checked is the one RRIP records for what the user built: 1 for files and symlinks, 2 + number of sub-directories for a directory (on its "." record and on its record in the parent); ".." records are not entries of the user tree and are not checked',
    ],
    'out_of_reach': [
        'arbitrary add/remove histories: the argument "every operation keeps CE-INV and the tree/relocation invariants" is carried by the allocator contracts (any block state) and exercised end to end on the scripts only',
        'RockRidge.new for a symbolic LENGTH of the name (the NM loop would need an inductive invariant over a byte string of symbolic length; the sweep covers every length up to 259 and samples beyond)',
        'attribute (AL) entries - a non-standard extension',
    ],
    'bounded': ['RockRidge.new parameter sweep (lengths), 9 scenarios + random histories, allocator n<=3/5'],
}

MANIFEST = {
    'level_text': 'Deductive contracts on RockRidge.new (entry placement between record and continuation area: result even and <= 254 and equal to the bytes placed, CE entry iff something spilled and declaring exactly the spilled length, an independent SUSP walk recovers the name for EVERY name content, the mode for EVERY mode, link count, the symlink target component for component with correct CONTINUE flags, SP/ER/RR/CL/PL/RE exactly as asked; swept over versions, every record length and the boundary name lengths) and on the continuation allocator (add_entry / remove_entry / track_entry / add_rr_ce_entry: areas stay sorted, disjoint, inside the sector, for any block state), plus nine Rock Ridge scenarios and four random edit histories (thorough: 60) executed by the verifier on the real code and decoded by an independent SUSP/RRIP reader (names, types, modes, link counts, targets, relocation with CL/PL/RE landing on the right directories, continuation areas disjoint and inside their sector, entry lengths adding up), reopened, re-mastered and edited. Four defects found and repaired (K39 version inference per area made pycdlib refuse its own 1.12 images; K44 symbolic links with many short components cut off; K22 empty link target recorded as a plain file; K48 continuation areas and blocks never released).',
    'level_note': 'Unbounded in name contents and modes; bounded (swept) in lengths and in scenario shapes. Trusted: pyvc, the independent reader, z3. Not decided: arbitrary histories, AL entries.',
    'design_ref': 'DESIGN.md section 4 C08',
}
