from pyvc.verify import Unit
from contracts import fidelity as F
from contracts import names as N
from contracts import joliet as J
from contracts import atomic as A
from contracts import dr as D
from contracts import headervd as H

JOLIET_SCENARIOS = ['joliet', 'hard-links', 'rr-joliet-remove'] + sorted(F.JOLIET_SCRIPTS)
# refusals of Joliet requests (the refusal itself and that nothing changed).  The multi-namespace calls that are refused after the
# ISO9660 part was applied are C14's subject (K12 there, repaired) and are not repeated here.
REFUSALS = ['add_hard_link:joliet-duplicate-new', 'rm_directory:joliet-is-file', 'rm_directory:joliet-nonempty', 'rm_file:nonexistent-on-joliet']


def units(tier):
    scen = JOLIET_SCENARIOS + F.random_names(tier, ['joliet', 'rr110-joliet', 'rr112-joliet-xa'], 1, 15)
    us = [Unit(F.Mastered, {'script': s}) for s in scen]
    us += [Unit(F.Reopened, {'script': s}) for s in scen]
    us.append(Unit(J.JolietFactory))
    for n in (1, 2, 31, 63, 64, 65, 66, 100) if tier == 'quick' else list(range(1, 80)) + [100, 128, 200]:
        us.append(Unit(N.JolietName, {'namelen': n}))
    for name in ('é' * 32, 'é' * 33, '日' * 21, '日' * 22, '\U0001f600' * 16, '\U0001f600' * 17, '\U0001f600' * 40, 'á' * 20, 'été 日本語.txt'):
        us.append(Unit(N.JolietName, {'concrete': name}))
    us += [Unit(A.Refused, {'sid': s}) for s in REFUSALS]
    us += [Unit(H.VDRecord, {'vd_type': 2})]
    us += [Unit(D.PTRRecord), Unit(D.PTRLength), Unit(D.LtOrder)]
    return us


OPTS = {'quick': {'unit_timeout_s': 900}, 'thorough': {'unit_timeout_s': 1800}}

META = {
    'assumptions': [
        'B (bounded scenarios): nine Joliet edit scripts (levels 1/2/3; names outside ASCII and outside the BMP, 64-character names, names differing only in case; Joliet-only directories and links, ISO-only entries; 40 long names in one directory (multi-sector Joliet directory), 20 directories with 55-character names (Joliet path table beyond one sector) with removals; links with the same name in different directories removed and re-added while data moves; with Rock Ridge) mastered, reopened, re-mastered and edited inside pyvc; file CONTENTS symbolic; decoded by the independent reader starting from the supplementary descriptor only',
        'JolietName units: for ASCII names every name content of the swept lengths is symbolic; non-ASCII names are concrete samples around the 64-unit limit (the conversion is CPython codec code, modelled by pyvc for the sampled strings)',
        'Joliet shares the descriptor / directory record / path table record layouts and the ordering relation with ISO9660: their contracts (VDRecord type 2, PTRRecord, PTRLength, DirectoryRecord.__lt__) are run here as well',
    ],
    'out_of_reach': [
        'arbitrary Unicode names and edit histories: name handling is proved per length for ASCII and sampled beyond; tree-level claims hold for the scripts',
        'pycdlib refuses names longer than 64 UTF-8 BYTES, which is stricter than the 64 UCS-2 units Joliet allows: some names Joliet could hold are refused (never truncated); the property does not demand acceptance, so this is not reported',
    ],
    'bounded': ['9 scenarios', 'JolietName lengths 1..100 (quick: 8 lengths)'],
}

MANIFEST = {
    'level_text': 'Joliet scenarios executed by the verifier on the real code (symbolic file contents) and decoded by an independent reader from the supplementary descriptor alone: exactly the Joliet tree the edits imply with names equal to the UTF-16BE of the given names, independent of the ISO9660 tree, every Joliet file on the same sectors as its ISO9660 link and byte for byte the given content, own consistent path tables (L = M, standard order, declared size), escape sequence of the requested level, identifiers of at most 64 units, sizes agreeing with the primary descriptor; reopened, re-mastered identically and edited; the same for three random Joliet edit histories (thorough: 45). Deductive contracts on joliet_vd_factory, _joliet_name_and_parent_from_path (over-long names refused, accepted names recorded as exactly their UTF-16BE form, for every ASCII content of each length), the shared record layouts and ordering, and refusal scenarios (Joliet file / non-empty directory given to rm_directory, duplicate link). One defect found and repaired (K15: rm_directory dropped non-empty Joliet directories).',
    'level_note': 'Scenario part bounded (9 scripts) but symbolic in all file contents; name conversion proved per length for ASCII, sampled for other scripts. Trusted: pyvc, the independent reader, CPython UTF-8/UTF-16 codecs as modelled.',
    'design_ref': 'DESIGN.md section 4 C09',
}
