from pyvc.verify import Unit
from contracts import fidelity as F


def units(tier):
    from contracts import udf_fid as UF
    us = [Unit(F.MasteredUDF, {'script': s}) for s in sorted(F.UDF_SCRIPTS) + F.random_udf_names(tier)]
    us += [Unit(F.ReopenedUDF, {'script': s}) for s in sorted(F.UDF_SCRIPTS) + F.random_udf_names(tier)]
    us += [Unit(F.MasteredUDF, {'script': s}) for s in F.random_udf_reopen_names(tier)]      # histories going on after write + open
    us += [Unit(F.Mastered, {'script': s}) for s in F.random_bridge_names(tier)]      # all four namespaces at once
    for n in (0, 1, 5, 64, 254) if tier == 'quick' else range(0, 255):
        us.append(Unit(UF.FidPlacementStep, {'namelen': n}))
        us.append(Unit(UF.FIDLength, {'namelen': n}))
    us.append(Unit(UF.FileEntryNew))
    # symbolic link targets: every sequence of up to three component kinds (empty = doubled / leading / trailing slash, '.', '..', a
    # Latin-1 name, a name beyond Latin-1) and names at the limit of the one-byte component length
    for shape in sorted(UF.SYMLINK_SHAPES):
        us.append(Unit(UF.SymlinkToBytes, {'shape': shape}))
    for n in (254, 255, -127, -128):
        us.append(Unit(UF.SymlinkToBytes, {'longname': n}))
    for n in (1, 5, 254, 255):
        us.append(Unit(UF.FIDNew, {'namelen': n}))
    return us


META = {}
OPTS = {'quick': {'unit_timeout_s': 900}}


META = {
    'assumptions': [
        'B (bounded scenarios): five edit scripts (files/dirs incl. an empty file and nested directories, Latin-1 and UTF-16 names, removals followed by a file that crosses a block boundary, 45 long names in one directory = multi-block directory, relative and absolute symlinks); file CONTENTS are symbolic',
        'decoding by an independent ECMA-167 reader (contracts/udf_reader.py): starts from the recognition sequence and the anchors at sector 256 and the last sector, checks every tag (identifier, checksum, CRC-16, location); the reader is trusted',
        'function-level (proved, all inputs): the placement step of file identifier descriptors in _udf_assign_extents (tag location = block of the first byte, for every offset and name length), UDFFileEntry.new allocation descriptors for every 32-bit length, UDFFileIdentifierDescriptor.length / new; UDFTimestamp is C19\'s',
    ],
    'out_of_reach': [
        'crc_ccitt / UDFTag.record and the remaining descriptor classes are not under function-level contracts (their effect is checked through the independent reader on the scripts only)',
        'totals over histories (file and directory counts in the integrity descriptor); files larger than 1 GiB are covered at function level only (FileEntryNew), not end to end',
    ],
    'bounded': ['7 edit scripts + random UDF histories', 'SymlinkToBytes: the 154 target shapes of up to three components (concrete texts executed by the verifier: an enumerated family, not a proof over all strings)', 'FidPlacementStep name lengths (quick: 5 values; thorough: 0..254)'],
}

MANIFEST = {
    'level_text': 'Bounded scenarios executed by the verifier on the real code with SYMBOLIC file contents: for six UDF edit scripts and three random UDF edit histories (thorough: 30), fresh and after reopen + edit, an independent ECMA-167/UDF reader (no pycdlib code) starting only from the recognition sequence and the two anchors reaches the file set and recovers exactly the implied tree, names (Latin-1 and UTF-16), symlink targets and file bytes; every descriptor tag (identifier, checksum, CRC, location), information length and allocation descriptor is valid; UDF objects are disjoint and inside the partition; UDF and ISO9660 names share their data sectors. Deductive, for all inputs: the descriptor placement step of _udf_assign_extents (tag location is the block holding the first byte, whatever the offset and name length), the allocation descriptors of UDFFileEntry.new for every 32-bit length (non-empty, full but the last, summing to the length), descriptor lengths and name limits.',
    'level_note': 'Scenario-level only (bounded scripts), symbolic in all file contents. Trusted: pyvc executing the real mastering code (cross-checked byte-identical with CPython), the independent reader. Function-level contracts exist for placement, allocation descriptors and identifier descriptors; the other descriptor classes are checked through the reader only.',
    'design_ref': 'DESIGN.md section 4 C10',
}
