from pyvc.verify import Unit
from contracts import fidelity as F


def units(tier):
    return [Unit(F.MasteredUDF, {'script': s}) for s in sorted(F.UDF_SCRIPTS)]


META = {}
OPTS = {'quick': {'unit_timeout_s': 900}}


META = {
    'assumptions': [
        'B (bounded scenarios): five edit scripts (files/dirs incl. an empty file and nested directories, Latin-1 and UTF-16 names, removals followed by a file that crosses a block boundary, 45 long names in one directory = multi-block directory, relative and absolute symlinks); file CONTENTS are symbolic',
        'decoding by an independent ECMA-167 reader (contracts/udf_reader.py): starts from the recognition sequence and the anchors at sector 256 and the last sector, checks every tag (identifier, checksum, CRC-16, location); the reader is trusted',
        'function-level: udf.UDFTimestamp, crc? (see out_of_reach), UDFFileIdentifierDescriptor.new / add_file_ident_desc (C13 units)',
    ],
    'out_of_reach': [
        'crc_ccitt / UDFTag.record / the ~45 descriptor classes are not under function-level contracts yet (their effect is checked through the independent reader on the scripts only)',
        'totals over histories (file and directory counts in the integrity descriptor), files larger than 1 GiB (several allocation descriptors)',
    ],
    'bounded': ['5 edit scripts'],
}

MANIFEST = {
    'level_text': 'Bounded scenarios executed by the verifier on the real code with SYMBOLIC file contents: for five UDF edit scripts an independent ECMA-167/UDF reader (no pycdlib code) starting only from the recognition sequence and the two anchors reaches the file set and recovers exactly the implied tree, names (Latin-1 and UTF-16), symlink targets and file bytes; every descriptor tag (identifier, checksum, CRC, location), information length and allocation descriptor is valid; UDF objects are disjoint and inside the partition; UDF and ISO9660 names share their data sectors.',
    'level_note': 'Scenario-level only (bounded scripts), symbolic in all file contents. Trusted: pyvc executing the real mastering code (cross-checked byte-identical with CPython), the independent reader. Function-level contracts for the UDF descriptor classes are not built yet.',
    'design_ref': 'DESIGN.md section 4 C10',
}
