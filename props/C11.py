from pyvc.verify import Unit
from contracts import eltorito as E


def units(tier):
    us = [Unit(E.ValidationChecksum), Unit(E.ValidationNewBadPlatform), Unit(E.EntryRecord), Unit(E.EntryRoundTrip), Unit(E.UpdateCatalogExtent)]
    for p in (0, 1, 2, 0xef):
        us.append(Unit(E.ValidationNewRecord, {'platform': p}))
        us.append(Unit(E.ValidationRoundTrip, {'platform': p}))
    for m in E.MEDIA:
        u = Unit(E.EntryNew, {'media': m})
        us.append(u)
    us.append(Unit(E.BootInfoTableRecord))
    us.append(Unit(E.BootInfoTableParse))
    sizes = [(0, 0), (63, 0), (64, 0), (65, 0), (68, 0), (100, 0), (2048, 0), (2052, 0)] if tier == 'quick' else [(n, 0) for n in list(range(0, 140)) + [2047, 2048, 2049, 2052, 4096, 4100]]
    for n, extra in sizes + [(100, 8), (2052, 40)]:
        us.append(Unit(E.BootInfoChecksum, {'n': n, 'extra': extra}))
    for k in ([0, 1, 2, 3, 31] if tier == 'quick' else range(0, 32)):
        for plat in ((0, 0xef) if k < 3 else (0,)):
            us.append(Unit(E.CatalogRecord, {'k': k, 'platform': plat}))
    us.append(Unit(E.CatalogTooManySections))
    us.append(Unit(E.RmEltoritoDetachEntry, {'with_table': True}))
    us.append(Unit(E.RmEltoritoDetachEntry, {'with_table': False}))
    # requested load size / segment must fit the 16-bit catalog fields: refused at the edit, image unchanged
    from contracts import atomic as A
    us += [Unit(A.Refused, {'sid': k}) for k in ('add_eltorito:load-size-too-big', 'add_eltorito:load-size-negative', 'add_eltorito:load-segment-too-big')]
    # whole images: an independent El Torito reader on the written image, for histories around add_eltorito / rm_eltorito, fresh and reopened
    from contracts import boot as B
    import os
    base = int(os.environ.get('VERIF_SEED', '0') or 0) * 1000 if tier != 'quick' else 0
    for k in range(1, 5 if tier == 'quick' else 41):
        # random histories around add_eltorito / rm_eltorito on random image flavours (concrete contents)
        us.append(Unit(B.BootImage, {'history': 'random:%d' % (base + k)}))
        us.append(Unit(B.BootImage, {'history': 'random:%d' % (base + k), 'reopen': True}))
        us.append(Unit(B.BootImage, {'history': 'random:%d' % (base + k), 'reopen': 'edit'}))
        # ... and histories that go on after the image was written and opened again (at random points after the first boot entry)
        us.append(Unit(B.BootImage, {'history': 'random:%d:r' % (base + k)}))
    for h in sorted(B.HISTORIES):
        if h == 'floppy' and tier == 'quick':
            continue        # a 1.44 MB image: thorough tier only
        us.append(Unit(B.BootImage, {'history': h}))
        us.append(Unit(B.BootImage, {'history': h, 'reopen': True}))
        us.append(Unit(B.BootImage, {'history': h, 'reopen': 'edit'}))
    return us


def canaries(tier):
    return [Unit(E.EntryRecord, {'_canary': True})]


META = {}
OPTS = {'quick': {'timeout_ms': 30000, 'unit_timeout_s': 1200}, 'thorough': {'unit_timeout_s': 3000}}

META = {
    'assumptions': [
        'boot-info checksum: E family over the boot file length n (quick: boundary lengths around 64 and one multi-sector length; thorough: 0..139 and sector boundaries), symbolic content, plus members with bytes following the file in the source object',
        'boot catalog: E family over the number of sections k (quick 0,1,2,3,31; thorough 0..31), symbolic load sizes, no-emulation entries; platform in {0, 0xef}',
        'B (bounded scenarios, executed by pyvc on the real code, decoded by an independent El Torito reader written from the specification): eleven histories (boot file moving after add_eltorito, boot info table incl. a file ending just after a sector boundary, explicit load size / segment / not bootable, three entries with EFI and Mac platforms on a Joliet image, floppy emulation (thorough), boot file in a sub-directory with Rock Ridge, rm_eltorito, rm_eltorito followed by a new add_eltorito, boot file without a name left), each on the fresh object and after write -> open -> write; boot contents symbolic where a single small boot file is involved, concrete otherwise',
        'loop invariants (validation checksum: csum = word sum mod 2^16; boot-info checksum: csum = word sum mod 2^32 with a ghost sum) are proved per iteration with the state cut at every iteration',
    ],
    'out_of_reach': [
        'that each entry load_rba equals the extent the boot file finally gets is proved for the placement loop body (C12 fragment contract) and checked end to end on the scenario images; arbitrary histories are not covered',
        'reading the catalog / the patched boot file back through get_file_from_iso_fp (the image bytes are checked, not the read-back API)',
        'hdmbrcheck and the hard-disk emulation path of add_eltorito',
    ],
    'bounded': ['11 El Torito histories + 4 random ones (thorough: 40) x (fresh, reopened, reopened and edited so that the boot files move)'],
}

MANIFEST = {
    'level_text': 'Proof (deductive): validation-entry checksum (for every 32-byte entry, by loop invariant), validation/initial/section entry layouts and media-type table, catalog layout for k sections, catalog pointer in the boot record, boot-info-table layout and checksum = word sum of the file bytes from offset 64 (loop invariant with ghost sum), El Torito removal detaching entry and table; all on the real ASTs, contracts from El Torito 1.0 and the C11 statement. Plus whole-image scenarios with an independent El Torito reader (boot record at 17, validation checksum, entries in order with flags / media / segment / load size / platform and the sector where the boot file bytes start, section headers, catalog as a file, boot info table in the stored file, removal leaving nothing), fresh and after reopen. Five defects found and repaired (K24, K25, K23 load size range, K49 section platform, K50 table recognition).',
    'level_note': 'Trusted: pyvc (per-path CPython cross-check, canary), z3, struct/file models. Lengths/section counts are enumerated families (quick run = boundary members only). Whole-image placement is bounded to the scenario histories. Not decided: read-back API of catalog / patched file, hard-disk emulation checks.',
    'design_ref': 'DESIGN.md section 4 C11',
}
