from pyvc.verify import Unit
from contracts import eltorito as E


def units(tier):
    us = [Unit(E.ValidationChecksum), Unit(E.ValidationNewBadPlatform), Unit(E.EntryRecord), Unit(E.EntryRoundTrip), Unit(E.UpdateCatalogExtent)]
    for p in (0, 1, 2, 0xef):
        us.append(Unit(E.ValidationNewRecord, {'platform': p}))
        us.append(Unit(E.ValidationRoundTrip, {'platform': p}))
    for m in E.MEDIA:
        u = Unit(E.EntryNew, {'media': m})
        us.append(u)
    return us


def canaries(tier):
    return [Unit(E.EntryRecord, {'_canary': True})]


OPTS = {'quick': {'timeout_ms': 30000}}
META = {}
