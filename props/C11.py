from pyvc.verify import Unit
from contracts import eltorito as E


def units(tier):
    us = [Unit(E.ValidationChecksum), Unit(E.ValidationNewBadPlatform), Unit(E.EntryRecord), Unit(E.EntryRoundTrip), Unit(E.UpdateCatalogExtent)]
    for p in (0, 1, 2, 0xef):
        us.append(Unit(E.ValidationNewRecord, {'platform': p}))
        us.append(Unit(E.ValidationRoundTrip, {'platform': p}))
    for m in E.MEDIA:
        u = Unit(E.EntryNew, {'media': m})
        us.append(u)
    us.append(Unit(E.BootInfoTableRecord))
    us.append(Unit(E.BootInfoTableParse))
    sizes = [(0, 0), (63, 0), (64, 0), (65, 0), (68, 0), (100, 0), (2048, 0), (2052, 0)] if tier == 'quick' else [(n, 0) for n in list(range(0, 140)) + [2047, 2048, 2049, 2052, 4096, 4100]]
    for n, extra in sizes + [(100, 8), (2052, 40)]:
        us.append(Unit(E.BootInfoChecksum, {'n': n, 'extra': extra}))
    for k in ([0, 1, 2, 3, 31] if tier == 'quick' else range(0, 32)):
        for plat in ((0, 0xef) if k < 3 else (0,)):
            us.append(Unit(E.CatalogRecord, {'k': k, 'platform': plat}))
    us.append(Unit(E.CatalogTooManySections))
    us.append(Unit(E.RmEltoritoDetachEntry, {'with_table': True}))
    us.append(Unit(E.RmEltoritoDetachEntry, {'with_table': False}))
    # requested load size / segment must fit the 16-bit catalog fields: refused at the edit, image unchanged
    from contracts import atomic as A
    us += [Unit(A.Refused, {'sid': k}) for k in ('add_eltorito:load-size-too-big', 'add_eltorito:load-size-negative', 'add_eltorito:load-segment-too-big')]
    return us


def canaries(tier):
    return [Unit(E.EntryRecord, {'_canary': True})]


OPTS = {'quick': {'timeout_ms': 30000}}
META = {}

META = {
    'assumptions': [
        'boot-info checksum: E family over the boot file length n (quick: boundary lengths around 64 and one multi-sector length; thorough: 0..139 and sector boundaries), symbolic content, plus members with bytes following the file in the source object',
        'boot catalog: E family over the number of sections k (quick 0,1,2,3,31; thorough 0..31), symbolic load sizes, no-emulation entries; platform in {0, 0xef}',
        'loop invariants (validation checksum: csum = word sum mod 2^16; boot-info checksum: csum = word sum mod 2^32 with a ghost sum) are proved per iteration with the state cut at every iteration',
    ],
    'out_of_reach': [
        'that each entry load_rba equals the extent the boot file finally gets is proved for the placement loop body (C12 fragment contract, entry-placed-at-current-extent) but the whole-image layout composition (C04) is not machine-checked',
        'catalog reachable as a file with identical bytes (catalog branch of _get_file_from_iso_fp) and the read-back overlay of the table are not under contract yet',
        'hdmbrcheck and the hard-disk emulation path of add_eltorito; add_eltorito bound on load size (struct.error at write for > 65535 sectors: candidate K23)',
    ],
    'bounded': [],
}

MANIFEST = {
    'level_text': 'Proof (deductive): validation-entry checksum (for every 32-byte entry, by loop invariant), validation/initial/section entry layouts and media-type table, catalog layout for k sections, catalog pointer in the boot record, boot-info-table layout and checksum = word sum of the file bytes from offset 64 (loop invariant with ghost sum), El Torito removal detaching entry and table; all on the real ASTs, contracts from El Torito 1.0 and the C11 statement. Two defects found and repaired (K24, K25).',
    'level_note': 'Trusted: pyvc (per-path CPython cross-check, canary), z3, struct/file models. Lengths/section counts are enumerated families (quick run = boundary members only). Not decided: whole-image placement (C04 composition), catalog-as-file bytes, read-back overlay, hard-disk emulation checks.',
    'design_ref': 'DESIGN.md section 4 C11',
}
