from pyvc.verify import Unit
from contracts import isohybrid as H


def units(tier):
    us = [Unit(H.CalcCC), Unit(H.UpdateRba)]
    geoms = [(1, 1), (64, 32), (255, 63), (256, 63), (5, 1), (16, 63)] if tier == 'quick' else [(h, s) for h in range(1, 257) for s in range(1, 64)]
    for efi in (False, True):
        for mac in (False, True):
            for (h, s) in (geoms if (not efi and not mac) or tier == 'quick' else geoms[::97]):
                us.append(Unit(H.RecordMBR, {'efi': efi, 'mac': mac, 'heads': h, 'sectors': s}))
            us.append(Unit(H.IsoHybridNew, {'efi': efi, 'mac': mac}))
            if mac and not efi:
                us.append(Unit(H.AddIsoHybridMacWithoutEfi))
            else:
                us.append(Unit(H.AddIsoHybrid, {'efi': efi, 'mac': mac}))
    for (h, s) in geoms[:6]:
        us.append(Unit(H.RecordPadding, {'heads': h, 'sectors': s}))
    return us


def canaries(tier):
    return [Unit(H.CalcCC, {'_canary': True})]


META = {}
