from pyvc.verify import Unit
from contracts import isohybrid as H


def units(tier):
    us = [Unit(H.CalcCC), Unit(H.UpdateRba)]
    # with EFI the padding must also hold the backup GPT (K54)
    for geom in ([1, 1], [4, 8], [64, 32], [255, 63], [5, 17]):
        us.append(Unit(H.CalcCC, {'efi': True, 'geom': geom}))
    geoms = [(1, 1), (64, 32), (255, 63), (256, 63), (5, 1), (16, 63)] if tier == 'quick' else [(h, s) for h in range(1, 257) for s in range(1, 64)]
    for efi in (False, True):
        for mac in (False, True):
            for (h, s) in (geoms if (not efi and not mac) or tier == 'quick' else geoms[::97]):
                us.append(Unit(H.RecordMBR, {'efi': efi, 'mac': mac, 'heads': h, 'sectors': s}))
            us.append(Unit(H.IsoHybridNew, {'efi': efi, 'mac': mac}))
            if mac and not efi:
                us.append(Unit(H.AddIsoHybridMacWithoutEfi))
            else:
                us.append(Unit(H.AddIsoHybrid, {'efi': efi, 'mac': mac}))
    # EFI / Mac support without the EFI boot images it describes is refused (K66)
    us += [Unit(H.AddIsoHybrid, {'efi': True, 'mac': False, 'n_efi': 0}), Unit(H.AddIsoHybrid, {'efi': True, 'mac': True, 'n_efi': 1}),
           Unit(H.AddIsoHybrid, {'efi': True, 'mac': True, 'n_efi': 0}), Unit(H.AddIsoHybrid, {'efi': True, 'mac': False, 'n_efi': 3})]
    for (h, s) in geoms[:6]:
        us.append(Unit(H.RecordPadding, {'heads': h, 'sectors': s}))
        us.append(Unit(H.RecordPadding, {'heads': h, 'sectors': s, 'efi': True}))
        us.append(Unit(H.UpdateEfi, {'heads': h, 'sectors': s}))
    us.append(Unit(H.UpdateMac))
    us.append(Unit(H.Crc32Step))
    for mac in (False, True):
        us.append(Unit(H.GPTRecordPrimary, {'mac': mac}))
        us.append(Unit(H.GPTRecordSecondary, {'mac': mac}))
    for n in (0, 1):
        us.append(Unit(H.Crc32Whole, {'n': n}))
    for plat, seen in ((0xef, 0), (0xef, 1), (0, 0)):
        us.append(Unit(H.ReshuffleEltoritoEntry, {'platform': plat, 'seen': seen}))
    # whole images: MBR / GPT decoded independently on the written image, boot files moving after add_isohybrid
    from contracts import boot as B
    import os
    base = int(os.environ.get('VERIF_SEED', '0') or 0) * 1000 if tier != 'quick' else 0
    for k in range(1, 4 if tier == 'quick' else 31):
        # random add_isohybrid parameters (geometry, slot, type, offset, id, EFI / Mac) and later edits
        v = 'random:%d' % (base + k)
        us.append(Unit(B.HybridImage, {'variant': v}))
        if not (B.random_hybrid(v)[1].get('efi') or B.random_hybrid(v)[1].get('mac')):
            us.append(Unit(B.HybridImage, {'variant': v, 'reopen': True}))
            us.append(Unit(B.HybridImage, {'variant': v, 'reopen': 'edit'}))      # the later edits made on the opened hybrid image
    for v in sorted(B.HYBRIDS):
        us.append(Unit(B.HybridImage, {'variant': v}))
        if v == 'efi-mac' or (v == 'efi' and tier == 'quick'):
            continue        # opening an EFI hybrid image inside the verifier takes minutes (efi) or longer (efi-mac): thorough tier / not run
        us.append(Unit(B.HybridImage, {'variant': v, 'reopen': True}))
        us.append(Unit(B.HybridImage, {'variant': v, 'reopen': 'edit'}))
    return us


def canaries(tier):
    return [Unit(H.CalcCC, {'_canary': True})]


META = {}
OPTS = {'quick': {'unit_timeout_s': 900}, 'thorough': {'unit_timeout_s': 3000}}

META = {
    'assumptions': [
        'image sizes are whole 2048-byte sectors and the padded image is addressable with 32-bit 512-byte sector numbers (format limit of the MBR); part_offset*512 <= image size',
        'E family: MBR layout obligations are generated per concrete geometry (quick: 6 boundary geometries; thorough: all 256x63 for the plain MBR) and are symbolic in every other field; _calc_cc itself is proved for symbolic geometry (non-linear arithmetic)',
        'isohybrid.crc32 is used through its callee contract (pure 32-bit function of its bytes) in GPTHeader.record / GPT.record; the function itself is proved by the step lemma (all 2^32 x 2^8 state/byte pairs, bit-vector) + init/final units; the induction over the data length is the standard fold argument and is not machine-checked',
        'GPT.new/uuid4: GUID bytes are unconstrained symbolic bytes',
    ],
    'out_of_reach': [
        'that _write_fp writes hybrid data only in [0, 32768) and after space_size*lbs (frame over the output file) is part of C04/C12-pad composition and is not decided here',
        'APM partition map contents (Apple partition records) are only covered by the C05 round-trip contracts',
    ],
    'bounded': ['5 whole-image hybrid scenarios (MBR / GPT decoded independently; boot files moving after add_isohybrid)'],
}

MANIFEST = {
    'level_text': 'Proof (deductive): contracts from the C12 statement on the real ASTs of isohybrid.IsoHybrid.{_calc_cc, record, record_padding, new, update_rba, update_efi, update_mac}, GPT.record (primary and backup, with/without Mac), GPTHeader.record, crc32 (step lemma for every 32-bit state and byte), PyCdlib.add_isohybrid, and the El Torito placement loop body of PyCdlib._reshuffle_extents (mechanically extracted fragment). 0x55AA, exactly one active partition covering the cylinder-padded image, rba = 4 x boot sector, EFI/Mac partitions delimiting exactly the entry being placed in BOTH GPTs, header/array CRCs over the right bytes, mirror LBAs, padding to whole cylinders. Plus five whole-image scenarios executed by the verifier and judged by an independent MBR / GPT reader (signature, id, the one active partition in the requested slot covering the padded image, boot address = 4 x the sector where the El Torito boot file really starts, whole cylinders, valid ISO underneath, GPT header and array CRCs, primary / backup mirror, EFI partition = sectors of the EFI image). Five defects found by failing obligations were repaired in /repo (see known_findings.json).',
    'level_note': 'Trusted: pyvc (cross-checked per path against CPython, canary), z3/cvc5, struct model (validated each run). Geometry is an enumerated family for the layout obligations (quick run = boundary members, so the quick run does not claim the whole family). crc32 at call sites is an assumed-pure callee contract proved separately; induction over data length and the output-file frame are not machine-checked.',
    'design_ref': 'DESIGN.md section 4 C12',
}
