from pyvc.verify import Unit
from contracts import names as N
from contracts import dr as D
from contracts import udf_fid as UF


def units(tier):
    us = []
    for n in ((0, 1, 2, 5) if tier == 'quick' else range(0, 12)):
        us.append(Unit(N.CheckD1, {'n': n}))
    for n in ((0, 1, 2, 3, 4) if tier == 'quick' else range(0, 7)):
        us.append(Unit(N.SplitFilename, {'n': n}))
    fam = [(0, 0, 0), (1, 0, 0), (0, 1, 1), (3, 2, 1), (8, 3, 1), (9, 3, 1), (8, 4, 1), (3, 1, 0), (2, 1, 2), (1, 0, 3), (2, 0, 5), (2, 0, 6)]
    if tier != 'quick':
        fam += [(a, b, v) for a in (0, 1, 7, 8, 9, 30) for b in (0, 1, 3, 4) for v in (0, 1, 2, 3)]
    for (ln, le, lv) in fam:
        for level in (1, 2, 3, 4):
            us.append(Unit(N.CheckFilename, {'ln': ln, 'le': le, 'lv': lv, 'level': level}))
    for n in ((0, 1, 8, 9, 207, 208) if tier == 'quick' else [0, 1, 2, 7, 8, 9, 31, 32, 206, 207, 208, 209]):
        for level in (1, 2, 3, 4):
            us.append(Unit(N.CheckDirectory, {'n': n, 'level': level}))
    for d in (1, 7, 8, 9):
        us.append(Unit(N.CheckPathDepth, {'depth': d}))
    for n in ((1, 8, 207, 208, 221, 222, 223, 240) if tier == 'quick' else list(range(200, 250)) + [1, 2, 8, 30]):
        for xa in (False, True):
            us.append(Unit(D.DRNewFile, {'len_fi': n, 'xa': xa}))
    us.append(Unit(D.AddChildToDrDuplicate))
    for n in (0, 1, 63, 64, 65, 66):
        us.append(Unit(N.JolietName, {'namelen': n}))
    for n in (0, 1, 5, 254):
        us.append(Unit(N.UDFName, {'namelen': n}))
    for nm in ('\u00e9' * 32, '\u00e9' * 33, '\U0001F600' * 16, '\U0001F600' * 17, '\U0001F600' * 33, '\u4e2d' * 21, '\u4e2d' * 22):
        us.append(Unit(N.JolietName, {'concrete': nm}))
    for n in ((1, 2, 254, 255, 300) if tier == 'quick' else (1, 2, 3, 100, 253, 254, 255, 256, 300)):
        us.append(Unit(UF.FIDNew, {'namelen': n, 'isdir': n % 2 == 0}))
    for k in (0, 1, 2):
        for isdir in (False, True):
            us.append(Unit(UF.AddFileIdentDesc, {'nexisting': k, 'namelen': 3, 'isdir': isdir}))
    for nf in (1, 2):
        us.append(Unit(D.AddChild, {'nfiles': nf, 'is_root': False}))
    us.append(Unit(D.AddChild, {'nfiles': 1, 'is_root': False, 'dirname': 'RR_MOVED'}))
    # the list of children sorted by Rock Ridge name: no two entries with one name (K69), removed entries gone from it (K77)
    for n in (0, 1, 2, 3):
        us.append(Unit(D.RRChildAdd, {'n': n}))
    us.append(Unit(D.RRChildAdd, {'n': 2, 'dirname': 'RR_MOVED'}))
    for n, i in ((1, 0), (2, 0), (2, 1), (3, 0), (3, 1), (3, 2)):
        us.append(Unit(D.RRChildRemove, {'n': n, 'index': i}))
    return us


def canaries(tier):
    return [Unit(N.CheckD1, {'n': 2, '_canary': True})]


META = {}

META = {
    'assumptions': [
        'names are byte strings of a fixed length per family member (E families over the lengths of name / extension / version, directory names 0..209, Joliet names 1..66 ASCII plus concrete non-ASCII names); every byte is symbolic',
        '_split_iso9660_filename and _check_d1_characters are used through callee contracts inside the checkers (proved by SplitFilename for lengths <= 4 quick / 6 thorough - bounded - and CheckD1 per length)',
        'int() on byte strings is modelled exactly for up to 4 bytes (CPython itself is asked about the character-class shape) and for all-digit strings of any length',
        'directory lookups (_find_joliet_record) are assumed to return the record named',
    ],
    'out_of_reach': [
        'that every public edit path calls the relevant check before any mutation (C14 owns the ordering); path depth check is proved, its call sites are not',
        'Rock Ridge names (any length fits by construction: C08) and identifiers inside Rock Ridge records',
    ],
    'bounded': ['SplitFilename n<=4 (quick) / 6 (thorough)', 'AddChild / AddChildToDrDuplicate directory sizes <= 2 files'],
}

MANIFEST = {
    'level_text': 'Proof (deductive): _check_iso9660_filename / _check_iso9660_directory accept exactly the legal names of each interchange level and raise only InvalidInput (legal_file/legal_dir written from the statement), _check_d1_characters, _split_iso9660_filename (bounded), _check_path_depth, DirectoryRecord.new_file establishing DR-INV incl. "fits a 255-byte record", duplicate identifiers refused without change (_add_child, _add_child_to_dr), Joliet 64 limit with exact UTF-16BE identifiers, UDF name length and uniqueness (UDFFileIdentifierDescriptor.new, UDFFileEntry.add_file_ident_desc). Five defects found and repaired (K7 versions, K8 over-long identifiers, K27 duplicate files merged, K14 duplicate UDF names, K10 over-long UDF names).',
    'level_note': 'Trusted: pyvc, z3, exact-int() model for short strings. Lengths are enumerated families (quick = boundary members). Call-site ordering (check before mutation) belongs to C14 and is not decided here.',
    'design_ref': 'DESIGN.md section 4 C13',
}
