from pyvc.verify import Unit
from contracts import atomic as A


def units(tier):
    import os
    us = [Unit(A.Refused, {'sid': sid}) for sid in sorted(A.REFUSALS)]
    # a refusal chosen from the state a random edit history leaves (contracts/fidelity.py histories)
    base = int(os.environ.get('VERIF_SEED', '0') or 0) * 1000 if tier != 'quick' else 0
    flavours = ('plain', 'joliet', 'rr109', 'rr112-joliet-xa') if tier == 'quick' else ('plain', 'level3', 'joliet', 'rr109', 'rr112', 'rr110-joliet', 'rr112-joliet-xa')
    for fl in flavours:
        for k in range(1, 3 if tier == 'quick' else 16):
            us.append(Unit(A.RandomRefused, {'history': 'random:%s:%d' % (fl, base + k)}))
        # the same on an image that was written and opened again during the history
        for k in range(1, 2 if tier == 'quick' else 9):
            us.append(Unit(A.RandomRefused, {'history': 'random:%s:%d:28:r7' % (fl, base + k)}))
    return us


META = {}
OPTS = {'quick': {'unit_timeout_s': 900}, 'thorough': {'unit_timeout_s': 1800}}


def canaries(tier):
    return []


META = {
    'assumptions': [
        'B (bounded scenarios): each refusal is exercised on one small image per flavour (plain / Joliet / Rock Ridge / UDF / El Torito) built through the real API and executed by pyvc; symbolic within a scenario: the announced file length (all 32-bit values) and, for the illegal-character scenarios, the character (every illegal ASCII character)',
        'random states: 8 (quick) / 105 (thorough) random edit histories, each followed by one call the library must refuse, chosen by the seed from what the history left (duplicate file / directory / link name, missing parent or target, non-empty directory, file given as directory and vice versa, illegal character, version out of range, Rock Ridge name on a plain image)',
        'the clock and random sources are pinned identically for the image under test and the reference image',
        '"unchanged" is decided the way the statement puts it: the next write (and a later edit followed by a write) of the image equals that of an identically built image on which the refused call was never made',
    ],
    'out_of_reach': [
        'refusals not in the scenario table, and refusals on other image states: an effect-system proof over all call sites (DESIGN C14) was not built; the scenario table plus the per-function frame clauses (post_raise in C12/C13 contracts) is what is decided',
    ],
    'bounded': ['%d refusal scenarios' % 90],
}

MANIFEST = {
    'level_text': 'Bounded scenarios executed symbolically by the verifier on the real code (the whole new / add_* / write_fp path runs inside pyvc, byte-identical to CPython): for each of 90 refused calls, and for a refusal chosen from the state of each of 8 random edit histories (thorough: 105), (bad names, duplicates, missing parents, wrong image flavour, El Torito / isohybrid parameter errors, multi-namespace edits) the image must be exactly as before - next write and later edit+write equal those of a reference image. Defects repaired: the family K12 (multi-step edits refused after an earlier step was applied: add_fp / add_directory / add_symlink / rm_directory / add_eltorito now check every namespace before the first change), add_isohybrid changing the object when refused, K62 / K64 - K67 (calls that were accepted and made the next write fail). No known finding left.',
    'level_note': 'NOT an all-call-sites proof: bounded scenario table, symbolic only in length / illegal character. Trusted: pyvc executing ~10k lines of real code per scenario (cross-checked: mastering output byte-identical with CPython), pinned clock/random.',
    'design_ref': 'DESIGN.md section 4 C14',
}
