from pyvc.verify import Unit
from contracts import hostile as H
from contracts import hostile_auto as HA


def units(tier):
    us = [Unit(H.PVDParse, {'vd_type': 1}), Unit(H.PVDParse, {'vd_type': 2}), Unit(H.VDSTParse), Unit(H.BRParse)]
    for n in (0, 1, 32, 33, 34, 35, 48):
        us.append(Unit(H.DRParse, {'n': n, 'root': False}))
    for n in (0, 33, 34):
        us.append(Unit(H.DRParse, {'n': n, 'root': True}))
    for n in (0, 13, 14, 15, 28):
        for lf in (1, 2):
            us.append(Unit(H.XAParse, {'n': n, 'len_fi': lf}))
    for n in (0, 7, 8, 9, 10):
        us.append(Unit(H.PTRParse, {'n': n}))
    for n in (0, 6, 7, 8):
        us.append(Unit(H.DRDateParseAny, {'n': n}))
    for n in (0, 16, 17, 18):
        us.append(Unit(H.VDDateParseAny, {'n': n}))
    for n in (0, 31, 32, 33):
        us += [Unit(H.ValidationParse, {'n': n}), Unit(H.EntryParse, {'n': n}), Unit(H.SectionHeaderParse, {'n': n})]
    for state in (1, 2, 3):
        for ns in (0, 1):
            for n in (0, 32):
                us.append(Unit(H.CatalogParseStep, {'state': state, 'nsections': ns, 'n': n}))
    for hdr in ('orig', 'mac'):
        for n in (0, 511, 512, 600):
            us.append(Unit(H.IsoHybridParse, {'n': n, 'header': hdr}))
    for n in (0, 127, 128):
        us.append(Unit(H.GPTPartParse, {'n': n}))
    for n in (0, 511, 512):
        us += [Unit(H.APMPartParse, {'n': n}), Unit(H.GPTHeaderParse, {'n': n})]
    for n in (0, 15, 16):
        us.append(Unit(H.UDFTagParse, {'n': n}))
    for n in (0, 1, 2, 3, 4):
        us.append(Unit(H.InterchangeLevelFromFilename, {'n': n}))
    us += HA.family(tier)
    us.append(Unit(H.OpenConverts))
    us.append(Unit(H.OpenHybridGlue))      # seeks to 64-bit positions read from the image (backup GPT)
    us += [Unit(H.ScannerStep), Unit(H.DirectoryReadPrefix)]
    for d in (1, 2, 3):
        us.append(Unit(H.ScannerEnqueue, {'depth': d}))
    return us


OPTS = {'quick': {'max_paths': 6000, 'unit_timeout_s': 900}, 'thorough': {'max_paths': 40000, 'unit_timeout_s': 3000}}



def bounded_units(tier):
    # random corruptions / truncations of whole images on the real open_fp: bounded stand-in, never counted as proved
    from contracts import hostile as HO
    return [Unit(HO.OpenCorruptedImage, {'tier': tier})]

def canaries(tier):
    return [Unit(H.PTRParse, {'n': 8, '_canary': True}), Unit(H.DirectoryReadPrefix, {'_canary': True})]
META = {}

META = {
    'assumptions': [
        'modular reading of C15: every parser may raise the documented classes or a member of the malformed-input family M = {struct.error, IndexError, KeyError, UnicodeDecodeError, ValueError, OverflowError}; PyCdlib.open/open_fp convert M to PyCdlibInvalidISO (OpenConverts, with the parser contracts as the callee contract of _open_fp)',
        'parser inputs: completely unconstrained bytes; lengths are enumerated (each structure: its struct size and one byte less in quick; 0 and size+1 added in thorough); behaviour for other lengths follows by uniformity of unpack_from at offset 0 (not machine-checked)',
        'text decoding of arbitrary bytes (utf-8 / utf-16 / ascii) is uninterpreted: it either fails with UnicodeDecodeError or yields opaque text',
        'nested parse calls are inlined (checked through their bodies), except VolumeDescriptorDate.parse inside the volume descriptor parser and DirectoryRecord.parse inside the directory scanner, which are used through their own contracts',
    ],
    'out_of_reach': [
        'termination of the breadth-first walk over directories: proved is the mechanism (a sub-directory is only queued if its extent differs from every ancestor extent, ScannerEnqueue, bounded ancestor chains 1..3); the resulting bound (paths of pairwise distinct extents <= sectors of the file) is a tree-induction argument, not machine-checked; DAG-shaped sharing can still make the walk exponential',
        'RockRidge.parse and the Rock Ridge entry loop, _parse_udf_descriptors / _walk_udf_directories glue, _check_for_eltorito_boot_info_table, isohybrid secondary GPT reads: not under contract (their structure parsers are)',
        'memory proportional to the input is proved only for the directory read; other reads use sizes taken from the image (path table size, continuation area length) through file reads, which return at most what the file holds',
    ],
    'bounded': ['OpenCorruptedImage: 12 images (ISO9660, Rock Ridge, Joliet, UDF, El Torito, EFI and Mac hybrids, a bridge image with all namespaces) x 40 (quick) / 600 (thorough) corruptions of bytes that carry structure (non-zero bytes and their neighbours in the first 400 and the last two sectors) or truncations opened by the real library under CPython (bounded run-time contract, not counted as proved)'],
}

MANIFEST = {
    'level_text': 'Proof (deductive), modular: (1) every structure parser with a constant layout (73 classes of udf, rockridge, headervd, eltorito, isohybrid, dr, path_table_record, dates - generated mechanically from the source each run) and the hand-written units for the volume descriptors, directory records, catalog state machine, isohybrid MBR/GPT/APM raise only documented exceptions or the malformed-input family on completely unconstrained bytes; (2) PyCdlib.open_fp converts that family to PyCdlibInvalidISO; (3) the directory scan makes strict progress in every iteration and never holds more directory bytes than the file contains. One defect repaired at the API boundary (undocumented exception types escaped open()).',
    'level_note': 'Trusted: pyvc, z3 (one quantified byte-range axiom per symbolic file), uninterpreted text decoding. Lengths enumerated; glue code of _open_fp beyond the listed fragments is not under contract; termination of the directory BFS on cyclic images is a recorded finding, not decided.',
    'design_ref': 'DESIGN.md section 4 C15',
}
