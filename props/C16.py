from pyvc.verify import Unit
from contracts import pycdlibio as P


def units(tier):
    us = [Unit(P.Read, {'size_none': False}), Unit(P.Read, {'size_none': True}), Unit(P.ReadAll), Unit(P.Tell), Unit(P.ReadAfterSeekSequence)]
    for n in ((0, 1, 4) if tier == 'quick' else (0, 1, 2, 3, 4, 8, 16)):
        us.append(Unit(P.ReadInto, {'blen': n}))
    for w in (0, 1, 2, 3):
        us.append(Unit(P.Seek, {'whence': w}))
    for m in ('read', 'readall', 'readinto', 'seek', 'tell', 'length'):
        us.append(Unit(P.Closed, {'method': m}))
    # whole images: every file of a written image read back through get_file_from_iso_fp on the opened image (symbolic contents)
    from contracts import fidelity as F
    for s in ['plain-small', 'hard-links', 'many-files', 'joliet-unicode'] + F.random_names(tier, ['plain', 'rr112-joliet-xa'], 1, 10):
        us.append(Unit(F.Reopened, {'script': s, 'edit': False}))
    # a transfer size below 1 is refused at every entry point (the precondition of the copy loop holds at its call sites)
    us += [Unit(P.BlocksizeRefused, {'entry': e}) for e in ('_get_file_from_iso_fp', '_udf_get_file_from_iso_fp', '_get_and_write_fp', '_write_fp')]
    us += [Unit(P.CopyDataYield), Unit(P.InodeOpen, {'location': 1}), Unit(P.InodeOpen, {'location': 2}), Unit(P.InodeOpen, {'location': 2, 'managed': True})]
    return us


def canaries(tier):
    return [Unit(P.Tell, {'_canary': True})]


META = {}

META = {
    'assumptions': [
        'the backing file object holds the whole file: _startpos + _length <= len(F) (C01/C04 layout); NOTHING is assumed about the shared file object position',
        'stream semantics are those of io.BytesIO except that a seek to a negative position is refused with InvalidInput (the library documents that) instead of being clamped',
        'copy_data_yield is proved for full reads (the source holds data_length bytes from its position); the short-read branch (lying images) ends the loop and is covered by the decreases obligation only',
        'readinto: E family over the buffer length (quick 0, 1, 4; thorough up to 16), symbolic everything else',
    ],
    'out_of_reach': [
        'arbitrary SEQUENCES of stream calls follow by induction from the per-call contracts (each call is specified from an arbitrary stream state and an arbitrary shared-file position); the induction itself and the seek+read composition beyond two calls are not machine-checked',
        '_get_file_from_iso_fp / _udf_get_file_from_iso_fp record lookup and the boot-info overlay on extraction',
        'parse-time helpers restoring the shared file position (C16/helpers-restore) are not needed any more for read correctness after the K2 repair and are not under contract',
    ],
    'bounded': [],
}

MANIFEST = {
    'level_text': 'Proof (deductive, all inputs): PyCdlibIO.read/readall/readinto/seek/tell against an io.BytesIO-like specification over a symbolic-length backing file with an UNCONSTRAINED shared position (array-backed model), closed-file behaviour, seek+read composition with an interfering reader in between, utils.copy_data_yield for every length and every block size >= 1 (inductive loop invariant, termination), InodeOpenData.__enter__ positioning at the original data. Two defects found and repaired (K1 readinto never advanced, K2 reads followed the shared file position).',
    'level_note': 'Trusted: pyvc, z3 (quantifier-free except the byte-range axiom of symbolic files), the file models (AFile/AOutFile mirror io.BytesIO; validated by the per-path CPython cross-check). Sequences of calls: induction over per-call contracts is not machine-checked. Extraction paths above copy_data_yield are not under contract.',
    'design_ref': 'DESIGN.md section 4 C16',
}
