from pyvc.verify import Unit
from contracts import inplace as IP
from contracts import utils as U


def units(tier):
    us = [Unit(IP.ModifiedInPlace, {'case': k}) for k in sorted(IP.CASES)]
    us += [Unit(IP.ModifiedInPlace, {'case': k, 'again': True}) for k in ('plain:B:max', 'joliet:victim', 'all:victim', 'boundary:first-of-sector-2')]
    # random images (final trees of the random edit histories of contracts/fidelity.py), victim and new length chosen by the seed
    import os
    base = int(os.environ.get('VERIF_SEED', '0') or 0) * 1000 if tier != 'quick' else 0
    flavours = ('plain', 'joliet', 'rr109', 'rr112-joliet-xa') if tier == 'quick' else ('plain', 'level3', 'joliet', 'rr109', 'rr112', 'rr110-joliet', 'rr112-joliet-xa')
    for fl in flavours:
        for k in range(1, 2 if tier == 'quick' else 11):
            us.append(Unit(IP.ModifiedInPlace, {'case': 'random:%s:%d' % (fl, base + k)}))
    us += [Unit(IP.InPlaceRefused, {'case': k}) for k in sorted(IP.REFUSED)]
    us += [Unit(U.CeilingDiv)]
    return us


OPTS = {'quick': {'unit_timeout_s': 900}, 'thorough': {'unit_timeout_s': 1800}}
META = {
    'assumptions': [
        'B (bounded scenarios): six images (plain with files of 0 / 5 / 2048 / 3000 bytes and a sub-directory; a two-level directory whose first sector is filled EXACTLY by its records and that continues in a second sector; Joliet with hard links in both namespaces and names of different lengths; Rock Ridge + Joliet + UDF with a second UDF name; XA + Rock Ridge 1.12 with a 230-byte name in a continuation area; El Torito) x 19 (victim, new length) cases incl. the minimum and maximum length that keep the sector count, the last record of a sector, the first of the next, a boot image, modification by a link name, and four repeated modifications; the NEW CONTENT is symbolic (every content of that length), as are all original contents',
        'the judgement is made on the bytes of the backing image file before and after by the independent ISO9660/Joliet and UDF readers (trusted); "touched" is decided by byte comparison: every byte outside the file\'s own sectors, the directory records and UDF file entries of its names and the 8-byte volume-space-size field of each primary/supplementary descriptor must be unchanged',
        'seven refused requests (sector count would change in either direction incl. 0 <-> 1 sectors, directory, missing path, with UDF): InvalidInput, image file byte-identical, and the opened object still masters the same image',
    ],
    'out_of_reach': [
        'every image / every file / every length: the cases are a table; new lengths are concrete (symbolic lengths would need the copy loop invariant over a symbolic-length stream AND a symbolic image layout)',
        'a boot image carrying a boot info table: the in-place writer copies the new content without re-patching the table (not part of the C17 statement; see C11)',
        'the El Torito load size (sectors to load) of a boot image is left as it was by the repair of K17',
    ],
    'bounded': ['6 images, 23 modification cases, 7 refusals', 'random images: 4 (quick) / 70 (thorough)'],
}

MANIFEST = {
    'level_text': 'In-place modification scenarios executed by the verifier on the real open_fp / modify_file_in_place code with SYMBOLIC new and old contents: the backing image file must afterwards decode (independent readers) to the same trees in every namespace with the file showing the new content and length under all its ISO9660 / Joliet / UDF names and every other file unchanged, be structurally valid, and differ from the old image file only inside the file sectors, the records / file entries of its names and the volume-space-size fields; the same on random images (4 quick / 70 thorough) with victim and length chosen by the seed; refused requests (sector count change, directory, missing) leave the file byte-identical. One defect found and repaired (K17: El Torito boot image raised InternalError after writing).',
    'level_note': 'Bounded table of images, victims and lengths; unbounded in contents. Trusted: pyvc, the independent readers. Function-level: utils.ceiling_div (sector count) proved for all integers.',
    'design_ref': 'DESIGN.md section 4 C17',
}
