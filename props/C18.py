from pyvc.verify import Unit
from contracts import mangle as M


def units(tier):
    us = []
    lens = (1, 2, 3, 8, 9) if tier == 'quick' else (1, 2, 3, 4, 8, 9, 30, 31, 32)
    for n in lens:
        for level in (1, 2, 4):
            for is_dir in (False, True):
                if n <= 3 or (n in (8, 9) and level == 1) or (n >= 30 and level == 2):
                    us.append(Unit(M.TruncateBasename, {'n': n, 'level': level, 'is_dir': is_dir}))
    for n in ((1, 2, 3) if tier == 'quick' else (1, 2, 3, 4, 5)):
        for level in (1, 2, 3, 4):
            us.append(Unit(M.MangleFile, {'n': n, 'level': level}))
            if n <= 3:
                us.append(Unit(M.MangleDir, {'n': n, 'level': level}))
    if tier == 'quick':
        us.append(Unit(M.MangleFile, {'n': 5, 'level': 3}))      # the shortest name with a four-character extension (K53)
    for name in ('x' * 30 + '.tx2', 'y' * 40 + '.t', 'z' * 28 + '.abc', 'w' * 27 + '.abc', 'v' * 35, 'u' * 29 + '.toolong'):
        for level in (2, 3):
            us.append(Unit(M.MangleFileLong, {'name': name, 'level': level}))
    # facade safety: a lookup by Rock Ridge name either finds the entry with exactly that name or reports 'not found'
    from contracts import names as N
    for n, ln in ((1, 1), (2, 2), (3, 1)) if tier == 'quick' else ((1, 1), (1, 2), (2, 1), (2, 2), (3, 1), (3, 2), (4, 1)):
        us.append(Unit(N.FindRRRecord, {'n': n, 'namelen': ln}))
    return us


def canaries(tier):
    return [Unit(M.MangleDir, {'n': 2, 'level': 1, '_canary': True})]


OPTS = {'quick': {'max_paths': 20000, 'unit_timeout_s': 900}, 'thorough': {'max_paths': 200000, 'unit_timeout_s': 3000}}
META = {}

META = {
    'assumptions': [
        'FindRRRecord: directories of 1..3 (thorough 4) children with symbolic names of 1-2 bytes sorted as the list invariant demands; the wanted name symbolic (before, between, equal to, after the children)',
        'source names: E family over the length (quick 1,2,3 for the file/dir manglers; 1,2,3,8,9 for truncate_basename); every character is an arbitrary ASCII character (symbolic) or - at up to three positions - one of five representatives of the non-ASCII classes of str.upper() (1->1 non-d-character, 1->2, 1->3, non-ASCII->ASCII letter, caseless); the class table is checked exhaustively over all code points of the interpreter on every run',
        'source names are non-empty (a file name is)',
        're.sub/re.subn are modelled only for the one pattern the helpers use',
    ],
    'out_of_reach': [
        'facade path translation (_rr_path_to_iso_path_and_rr_name and friends), the genisoimage collision renaming (C20) and "the library accepts the derived name in an edit" as a composition with C13 (both sides are proved, the composition is read off the two specifications: legal_file here = legal of C13 CheckFilename)',
        '_find_rr_record lookup (K30: IndexError for names sorting last) is not under contract yet',
    ],
    'bounded': ['name lengths as listed (the per-character reasoning is uniform, but longer names are not enumerated)'],
}

MANIFEST = {
    'level_text': 'Proof (deductive) over symbolic text: truncate_basename, mangle_file_for_iso9660 and mangle_dir_for_iso9660 return legal identifiers for the level (d-characters, length limits, 8.3 at level 1, not both parts empty) and leave already legal names unchanged; level 4 replaces the version separator and cuts at the last dot; a lookup by Rock Ridge name finds exactly the entry or reports it missing. Three defects found and repaired (K28 upper-casing after truncation, K30 IndexError for a missing name sorting last, K51 level-4 names with semicolons), three recorded as known findings (K29 trailing dot, K52 up to 33 characters at levels 2-3, K53 long extensions folded into the name).',
    'level_note': 'Trusted: pyvc text model (ASCII exact, five non-ASCII class representatives; class table validated exhaustively each run), z3. Name lengths are enumerated (short) families; facade/tool call sites are not under contract.',
    'design_ref': 'DESIGN.md section 4 C18',
}
