from pyvc.verify import Unit
from contracts import utils as U
from contracts import dates as D
from contracts import udf_time as UT
from contracts import rr_tf as TF


def units(tier):
    us = [Unit(U.GmtOffset), Unit(D.DRDateNew), Unit(D.DRDateNewTwice), Unit(D.DRDateRecord), Unit(D.DRDateRecordUninit),
          Unit(D.DRDateRoundTrip), Unit(D.DRDateNewRecord), Unit(D.VDDateNew), Unit(D.VDDateNewZero), Unit(D.VDDateNewRecord),
          Unit(D.VDDateRoundTrip)]
    for n in (7, 8, 17):
        us.append(Unit(D.DRDateParse, {'n': n}))
    for n in (0, 16, 18):
        us.append(Unit(D.VDDateParseLen, {'n': n}))
    us += [Unit(UT.UDFTimestampNew), Unit(UT.UDFTimestampRecord), Unit(UT.UDFTimestampRoundTrip), Unit(UT.UDFTimestampNewRecordParse)]
    flagsets = [0, 1, 0x0e, 0x7f, 0x80, 0x8e, 0xff, 0x40] if tier == 'quick' else list(range(256))
    for f in flagsets:
        us.append(Unit(TF.TFLength, {'flags': f}))
        us.append(Unit(TF.TFNewRecord, {'flags': f}))
        if not f & 0x80:
            us.append(Unit(TF.TFRoundTrip, {'flags': f}))
    return us


META = {}
