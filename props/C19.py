from pyvc.verify import Unit
from contracts import utils as U
from contracts import dates as D
from contracts import udf_time as UT
from contracts import rr_tf as TF


def units(tier):
    us = [Unit(U.GmtOffset), Unit(D.DRDateNew), Unit(D.DRDateNewTwice), Unit(D.DRDateRecord), Unit(D.DRDateRecordUninit),
          Unit(D.DRDateRoundTrip), Unit(D.DRDateNewRecord), Unit(D.VDDateNew), Unit(D.VDDateNewZero), Unit(D.VDDateNewRecord),
          Unit(D.VDDateRoundTrip)]
    for n in (7, 8, 17):
        us.append(Unit(D.DRDateParse, {'n': n}))
    for n in (0, 16, 18):
        us.append(Unit(D.VDDateParseLen, {'n': n}))
    us += [Unit(UT.UDFTimestampNew), Unit(UT.UDFTimestampRecord), Unit(UT.UDFTimestampRoundTrip), Unit(UT.UDFTimestampNewRecordParse)]
    flagsets = [0, 1, 0x0e, 0x7f, 0x80, 0x8e, 0xff, 0x40] if tier == 'quick' else list(range(256))
    for f in flagsets:
        us.append(Unit(TF.TFLength, {'flags': f}))
        us.append(Unit(TF.TFNewRecord, {'flags': f}))
        if not f & 0x80:
            us.append(Unit(TF.TFRoundTrip, {'flags': f}))
    us += [Unit(D.DRDateNewAfterZoneChange), Unit(D.VDDateNewAfterZoneChange)]
    # instants whose local year does not have four digits cannot be recorded: refused (K72)
    us += [Unit(D.VDDateNewYearOutOfRange, {'t': t}) for t in (253402300800 + 86400 * 2, 10 ** 12, -30610224000 - 86400 * 2)]
    return us


META = {}


def canaries(tier):
    return [Unit(U.GmtOffset, {'_canary': True}), Unit(D.DRDateNewRecord, {'_canary': True}), Unit(UT.UDFTimestampRecord, {'_canary': True})]

META = {
    'assumptions': [
        'time.localtime(t) is the UTC broken-down time of t + 900*z for an integer z in [-48, 56] (zone offset, DST included, is a multiple of 15 minutes) - the quantifier of the property; replays realise z with a POSIX TZ string',
        'calendar facts about (year, yday) of consecutive days (monotone years, yday differences = day differences inside a year, next year starts at yday 1) - validated against CPython for every day 1970-2155 on each run by pyvc.selfcheck',
        't is an integral number of seconds in [0, 2156-01-01): time.localtime/gmtime floor a float argument; years beyond 2155 do not fit the one-byte ISO9660 year',
        'strptime / UTF-8 decoding outcome of arbitrary 17-byte strings is left uninterpreted (VolumeDescriptorDate.parse round trip proves identity-or-canonical-empty for every outcome)',
    ],
    'out_of_reach': [
        'that the civil calendar is invertible (decoding the recorded local fields gives back t) is a calendar fact, not a fact about pycdlib; the obligations prove fields = local broken-down time of t and offset = zone offset',
        'PrimaryOrSupplementaryVD.record stamping the modification date (C19/pvd) is covered by C03/C05 contracts when those are claimed',
    ],
    'bounded': [],
}

MANIFEST = {
    'level_text': 'Proof (deductive, all inputs): every instant t in [1970, 2156) x every zone offset that is a multiple of 15 minutes; the real ASTs of utils.gmtoffset_from_tm, dates.DirectoryRecordDate/VolumeDescriptorDate.{new,parse,record}, rockridge.RRTFRecord.{new,parse,record,length} (one unit per flags value), udf.UDFTimestamp.{new,parse,record} are executed symbolically against contracts taken from ECMA-119 9.1.5 / 8.4.26.1, RRIP TF and ECMA-167 1/7.3; each VC is discharged by z3. Parse-then-record identity is proved for all 7/12/17-byte strings.',
    'level_note': 'Trusted: pyvc itself (interpreter + struct model, cross-checked against CPython on one concrete input per explored path each run, plus canaries), z3, the zone assumption localtime(t)=gmtime(t+900z), calendar facts validated against CPython. Callees are inlined (checked through their bodies), time.* is modelled. Not decided: invertibility of the civil calendar; PVD modification-date stamping.',
    'design_ref': 'DESIGN.md section 4 C19',
}
