from pyvc.verify import Unit
from contracts import utils as U


def units(tier):
    return [Unit(U.GmtOffset), Unit(U.CeilingDiv), Unit(U.CeilingDivZero), Unit(U.Swab32), Unit(U.Swab16)]


META = {}
