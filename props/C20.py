from pyvc.verify import Unit
from contracts import tools as T


def units(tier):
    us = []
    bases = (1, 3, 4, 5, 8) if tier == 'quick' else range(0, 9)
    exts = (0, 3) if tier == 'quick' else range(0, 4)
    for level in (1, 3):
        for k in (0, 1, 3):
            for b in bases:
                for e in exts:
                    if b + e == 0:
                        continue
                    us.append(Unit(T.BuildIsoPath, {'base_len': b, 'ext_len': e, 'level': level, 'is_dir': False, 'collisions': k}))
                us.append(Unit(T.BuildIsoPath, {'base_len': max(b, 1), 'ext_len': 0, 'level': level, 'is_dir': True, 'collisions': k, 'parent': '/SUB'}))
    us.append(Unit(T.BuildIsoPath, {'base_len': 30, 'ext_len': 0, 'level': 3, 'is_dir': False, 'collisions': 2}))
    us.append(Unit(T.BuildIsoPath, {'base_len': 20, 'ext_len': 10, 'level': 2, 'is_dir': False, 'collisions': 2, 'parent': '/A/B'}))
    for which in ('joliet', 'udf'):
        for roots, n in (((), 1), ((3,), 5), ((1, 64), 64), ((10, 2, 7), 30)):
            us.append(Unit(T.BuildLongPath, {'which': which, 'root_lens': roots, 'name_len': n}))
    # the callee contract assumed for mangle_file_for_iso9660 / mangle_dir_for_iso9660 (legal output) is proved by the C18 check
    return us


def bounded_units(tier):
    return [Unit(T.ToolsRoundTrip, {'tier': tier})]


OPTS = {'quick': {'unit_timeout_s': 900}, 'thorough': {'unit_timeout_s': 1800}}

META = {
    'assumptions': [
        'PROVED part (pyvc on the real AST of tools/pycdlib-genisoimage): build_iso_path for symbolic mangled names (every d-character content) of swept lengths, levels 1 and 3, files and directories, after 0 / 1 / 3 collisions against a set oracle (any set in which the first k distinct names asked about are taken); build_joliet_path / build_udf_path for symbolic components that fit the namespace. The callee contract assumed for mangle_file_for_iso9660 / mangle_dir_for_iso9660 (legal output for the level) is the one proved by the C18 check',
        'BOUNDED part (run-time contract on the real programs, NOT counted as proved): 36 (tree, option set) pairs - seven source trees (basic with empty file, empty directory, long name; names that collide after mangling incl. case-only differences and short names; Unicode names; nine-level nesting; relative / absolute / dangling symbolic links; identical contents; two different files with equal size and equal murmur3 hash found by a birthday search with the tool\'s own hash) x option sets over -iso-level 1..4, -R, -r, -J, -udf and -scan-for-duplicates; each pair runs pycdlib-genisoimage and then pycdlib-extract-files once per view in a temporary directory and compares directory snapshots',
        'random source trees (deterministic in the seed; VERIF_SEED moves the thorough tier): names from a pool of colliding / awkward names (case-only differences, several dots, leading dot, trailing dot, semicolons, spaces, 40-64 characters, non-ASCII), nesting, equal contents, empty files and directories, symbolic links; options drawn from the option table',
        'expected artefacts accepted: the RR_MOVED / rr_moved holding directory when Rock Ridge relocates below the eighth level; Joliet shows no symbolic links; directories below the seventh level are dropped by the tool when Rock Ridge is off (as genisoimage does), so the deep tree is only run with Rock Ridge',
    ],
    'out_of_reach': [
        'main() of both tools: they walk a real file system and parse a real command line - outside the verifier subset; hence the bounded stand-in',
        'boot options, hide/exclude patterns, -path-list and graft points are not in the table',
        'Joliet / UDF names longer than the namespace allows (build_joliet_path truncates to 64 characters; collisions after truncation abort the tool): outside the contract precondition',
    ],
    'bounded': ['ToolsRoundTrip: 41 table pairs + 12 (quick) / 120 (thorough) random trees x options (bounded run-time contract check)', 'BuildIsoPath: lengths 1..8 (+0..3), collisions 0/1/3'],
}

MANIFEST = {
    'level_text': 'Two parts. Proved (deductive, on the real AST of the tool): build_iso_path returns parent + "/" + an identifier that is the name it found free, differs from every name in use at that level, is recorded as used exactly once and is itself legal for the interchange level (one dot, d-characters, 8.3 at level 1 / 30 characters) also after collisions and for name parts shorter than the five-character prefix; build_joliet_path / build_udf_path keep fitting components unchanged. Bounded (run-time contracts on the real programs, labelled bounded, not counted as proved): 53 (thorough: 161) tree x option round trips, incl. random source trees, through pycdlib-genisoimage and pycdlib-extract-files comparing relative paths, contents and symbolic links per requested view, exactly-once and legal identifiers in the ISO9660 view, absent views when not requested, duplicate linking not changing any content. Seven defects found and repaired (K31 two-dot names, K33 hash-only duplicates, K41 -R dropped symlinks, K42 extraction of relocation placeholders, K43 missing continue, K51 level-4 semicolons, K34 extraction of symbolic links from the UDF view).',
    'level_note': 'The end-to-end statement is only checked on a finite table (bounded stand-in); the deductive part covers the path builders. Trusted: pyvc, CPython file system calls in the harness.',
    'design_ref': 'DESIGN.md section 4 C20',
}
