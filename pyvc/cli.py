import argparse
import os
import sys


def main():
    ap = argparse.ArgumentParser()
    ap.add_argument('prop')
    ap.add_argument('--tier', default=os.environ.get('VERIF_TIER', 'quick'), choices=['quick', 'thorough'])
    ap.add_argument('--replay')
    args = ap.parse_args()
    sys.setrecursionlimit(20000)
    from . import runner
    if args.replay:
        sys.exit(runner.replay_file(args.prop, args.replay))
    seed = int(os.environ.get('VERIF_SEED', '0') or 0)
    try:
        code = runner.check_property(args.prop, args.tier, seed)
    except Exception:
        import traceback
        traceback.print_exc()
        print('CHECKER-ERROR: driver crashed')
        code = 3
    sys.exit(code)


if __name__ == '__main__':
    main()
