"""Contract objects, the two evaluation contexts (symbolic / concrete) and the registry.

A contract is a class with

  target   : qualified name of the real function in /repo (read from source on every run)
  prop     : list of property ids it serves
  setup(c) : builds the pre-state and the arguments from the context `c`
             (c.int/c.bool/c.byte/c.bytes/c.obj/c.assume ...) and returns a Call
  post(c, a, out)        -> {clause-name: formula} required on normal return
  raises(c, a)           -> {exception-class-name: condition}: the function raises that
                            class iff the condition holds; nothing else may escape
  post_raise(c, a, out)  -> {clause: formula} required when it raises (frame on failure)
  loops    : {(function qualname, loop ordinal): LoopSpec}
  known    : {obligation-suffix: (finding id, region(a) -> formula, text)}

The same methods run symbolically (z3 terms, python3-vt) and concretely (values
observed from the real function under /venv/bin/python).
"""
import os
import sys

from . import sx
from .sx import z3, is_sym
from . import values as V

REGISTRY = {}


def contract(cls):
    inst_params = getattr(cls, 'params', None)
    REGISTRY[cls.__name__] = cls
    return cls


class Call:
    def __init__(self, args=(), kwargs=None, self_obj=None, fn=None):
        self.args = list(args)
        self.kwargs = kwargs or {}
        self.self_obj = self_obj
        self.fn = fn  # optional override: callable target inside the interpreter


class Fragment:
    """A loop body of a real function, mechanically extracted on every run, with its free variables as parameters.
    selector: {'for_iter': 'name'} | {'for_target': 'name'} | {'loop': ordinal}   (semantic anchors, not line numbers)"""

    def __init__(self, func, selector, env):
        self.func = func
        self.selector = selector
        self.env = env


def find_loop(func_node, selector):
    import ast
    loops = []

    class V(ast.NodeVisitor):
        def visit_For(self, n):
            loops.append(n)
            self.generic_visit(n)

        def visit_While(self, n):
            loops.append(n)
            self.generic_visit(n)
    V().visit(func_node)
    if 'stmts' in selector:
        # a contiguous statement range [first, last] of some block of the function, selected by the text the statements start with
        first, last = selector['stmts']
        found = []
        for node in ast.walk(func_node):
            for field in ('body', 'orelse', 'finalbody'):
                block = getattr(node, field, None)
                if not isinstance(block, list):
                    continue
                for i, st in enumerate(block):
                    if isinstance(st, ast.stmt) and ast.unparse(st).startswith(first):
                        for j in range(i, len(block)):
                            if ast.unparse(block[j]).startswith(last):
                                found.append(block[i:j + 1])
                                break
        if len(found) != 1:
            raise LookupError('statement-range selector %r matches %d ranges' % (selector, len(found)))
        return ast.While(test=ast.Constant(True), body=found[0], orelse=[])
    if 'loop_body_prefix' in selector:
        # the statements of a loop body that precede its first nested loop
        outer = find_loop(func_node, selector['loop_body_prefix'])
        pre = []
        for st in outer.body:
            if isinstance(st, (ast.For, ast.While)):
                break
            pre.append(st)
        return ast.While(test=ast.Constant(True), body=pre, orelse=[])
    if 'loop' in selector:
        return loops[selector['loop']]
    out = []
    for n in loops:
        if isinstance(n, ast.For):
            if 'for_iter' in selector and ast.unparse(n.iter) == selector['for_iter']:
                out.append(n)
            if 'for_target' in selector and ast.unparse(n.target) == selector['for_target']:
                out.append(n)
        elif 'while_test' in selector and ast.unparse(n.test) == selector['while_test']:
            out.append(n)
    if len(out) != 1:
        raise LookupError('fragment selector %r matches %d loops' % (selector, len(out)))
    return out[0]


def real_fragment(frag):
    """compile the selected loop body of the REAL function into a callable(env) -> locals"""
    import ast
    import importlib
    import inspect
    import textwrap
    fn = resolve_real(frag.func)
    fn = getattr(fn, '__wrapped__', fn)
    src = textwrap.dedent(inspect.getsource(fn))
    tree = ast.parse(src)
    node = find_loop(tree.body[0], frag.selector)
    names = sorted(frag.env)

    class _Ret(ast.NodeTransformer):
        def visit_Return(self, n):      # a return of the enclosing function becomes the FragmentReturn outcome
            return ast.copy_location(ast.Raise(exc=ast.Call(func=ast.Name(id='__FragmentReturn', ctx=ast.Load()), args=[], keywords=[]), cause=None), n)

        def visit_FunctionDef(self, n):
            return n

        def visit_Lambda(self, n):
            return n
    node = _Ret().visit(node)
    body = [ast.For(target=ast.Name(id='__once', ctx=ast.Store()), iter=ast.Tuple(elts=[ast.Constant(0)], ctx=ast.Load()), body=node.body, orelse=[]),
            ast.Return(value=ast.Call(func=ast.Name(id='locals', ctx=ast.Load()), args=[], keywords=[]))]
    fd = ast.FunctionDef(name='__frag', args=ast.arguments(posonlyargs=[], args=[ast.arg(arg=n) for n in names], kwonlyargs=[], kw_defaults=[], defaults=[]),
                         body=body, decorator_list=[], type_params=[])
    mod = ast.Module(body=[fd], type_ignores=[])
    ast.fix_missing_locations(mod)
    ns = dict(vars(importlib.import_module(fn.__module__)))
    ns['__FragmentReturn'] = FragmentReturn
    exec(compile(mod, '<fragment of %s>' % frag.func, 'exec'), ns)
    return lambda: ns['__frag'](**frag.env)


class FragmentReturn(BaseException):
    pass


class NS:
    """attribute bag for values named in setup()"""

    def __repr__(self):
        return 'NS(%s)' % ', '.join('%s=%r' % kv for kv in self.__dict__.items())


class Outcome:
    def __init__(self, kind, result=None, exc=None, exc_site=None, extra=None):
        self.kind = kind  # 'return' | 'raise'
        self.result = result
        self.exc = exc  # exception class name
        self.exc_site = exc_site
        self.extra = extra or {}


class LoopSpec:
    """Inductive loop specification.  Subclass and override."""
    modifies = ()  # local variable names havocked

    def invariant(self, it, frame, phase):
        return {}

    def havoc(self, it, frame):
        for name in self.modifies:
            cur = frame.locals.get(name)
            if isinstance(cur, bool) or (is_sym(cur) and z3.is_bool(cur)):
                frame.locals[name] = it.ctx.fresh_bool(name)
            else:
                frame.locals[name] = it.ctx.fresh_int(name)


# ----------------------------------------------------------------------------
class SymCtx:
    """Symbolic context: named inputs are z3 constants."""
    symbolic = True

    def __init__(self, pathctx, loader):
        self.p = pathctx
        self.loader = loader
        self.a = NS()
        self.inputs = {}  # name -> ('int'|'bool'|'bytes', term(s))

    def int(self, name, lo=None, hi=None):
        v = z3.Int(name)
        self.inputs[name] = ('int', v)
        if lo is not None:
            self.p.assume(v >= lo)
        if hi is not None:
            self.p.assume(v <= hi)
        return v

    def bool(self, name):
        v = z3.Bool(name)
        self.inputs[name] = ('bool', v)
        return v

    def bv(self, name, bits, width=64):
        """an unsigned integer below 2**bits, carried as a `width`-bit vector (bit-twiddling code)"""
        v = z3.BitVec(name, width)
        self.inputs[name] = ('bv', v)
        self.p.assume(z3.ULT(v, z3.BitVecVal(1 << bits, width)))
        return v

    def text(self, name, n, alphabet=()):
        """text of n characters: each one is either an arbitrary ASCII character (symbolic) or one of the given concrete
        representatives of the non-ASCII character classes (forks)"""
        from .stdlib import mk_str
        items = []
        for i in range(n):
            k = self.choice('%s[%d]kind' % (name, i), ['ascii'] + list(alphabet))
            if k == 'ascii':
                items.append(self.int('%s[%d]' % (name, i), 0, 127))
            else:
                items.append(ord(k))
        self.text_names = getattr(self, 'text_names', {})
        self.text_names[name] = (n, list(alphabet))
        return mk_str(items)

    def abytes(self, name):
        """byte string of SYMBOLIC length (array-backed); replay models are shrunk to short lengths"""
        arr = z3.Array(name, z3.IntSort(), z3.IntSort())
        n = z3.Int(name + '#len')
        self.p.assume(n >= 0)
        i = z3.Int('__bi')
        self.p.assume(z3.ForAll([i], z3.And(z3.Select(arr, i) >= 0, z3.Select(arr, i) <= 255)))
        self.inputs[name] = ('abytes', (arr, n))
        return V.ABytes(arr, 0, n)

    def afile(self, content, pos):
        from .stdlib import AFile, SSIZE_MAX
        # no file object is longer than the largest position it can be asked for (C ssize_t / off_t)
        self.p.assume(content.length <= SSIZE_MAX)
        return AFile(content.arr, content.length, pos)

    def aout(self, pos):
        from .stdlib import AOutFile
        return AOutFile(pos)

    def byte(self, name):
        return self.int(name, 0, 255)

    def bytes(self, name, n, mutable=False):
        items = [z3.Int('%s[%d]' % (name, i)) for i in range(n)]
        for x in items:
            self.p.assume(z3.And(x >= 0, x <= 255))
        self.inputs[name] = ('bytes', items)
        return V.SBytes(items, mutable)

    def digits(self, x, size, signed=False):
        """spec-side base-256 digits (little-endian) of x, registered as THE digits of x (they are unique)"""
        items = [self.p.fresh_int('dg', 0, 255) for _ in range(size)]
        u = sx.le_int(items)
        lo, hi = (-(1 << (8 * size - 1)), (1 << (8 * size - 1)) - 1) if signed else (0, (1 << (8 * size)) - 1)
        if signed:
            self.p.assume(z3.Implies(z3.And(x >= lo, x <= hi), u == z3.If(x < 0, x + (1 << (8 * size)), x)))
        else:
            self.p.assume(z3.Implies(z3.And(x >= lo, x <= hi), u == x))
        self.p.ghost.setdefault('byte_cache', {})[(x.get_id(), size, signed)] = (x, items)
        return items

    def choice(self, name, options):
        """a value from a finite list of concrete python values (forks)"""
        idx = self.int(name + '#', 0, len(options) - 1)
        for i, o in enumerate(options[:-1]):
            if self.p.branch(idx == i):
                return o
        return options[-1]

    def assume(self, cond):
        self.p.assume(cond)

    def cls(self, qualname):
        return self.loader.find_class(qualname)

    def obj(self, qualname, **fields):
        k = self.loader.find_class(qualname)
        slots = None
        for cl in k.mro():
            sl = cl.attrs.get('__slots__')
            if sl is None:
                slots = None
                break
            slots = (slots or set()) | set(sl)
        if slots is not None:
            bad = [f for f in fields if f not in slots]
            if bad:
                raise AttributeError('%s has no slot(s) %s' % (qualname, bad))
        o = V.Obj(k)
        o.fields.update(fields)
        return o

    def file(self, content=b''):
        from .stdlib import FileModel
        return FileModel(content)

    def call(self, target, *args, **kwargs):
        """run another real function (through the interpreter) while building the pre-state"""
        return self.it.call(self.loader.find_function(target), list(args), kwargs)

    def new(self, qualname, *args, **kwargs):
        """instantiate a repo class by running its real __init__"""
        return self.it.instantiate(self.loader.find_class(qualname), list(args), kwargs)

    def localtime(self, t):
        return self.it.call(self.loader.load('time').ns['localtime'], [t], {})

    def divmod(self, x, d):
        """spec-side floor division by a positive divisor: (q, r) with x = d*q + r, 0 <= r < d"""
        if not is_sym(x) and not is_sym(d):
            return x // d, x % d
        cache = self.p.ghost.setdefault('div_cache', {})
        key = (x.get_id() if is_sym(x) else ('c', x), d.get_id() if is_sym(d) else ('c', d))
        if key in cache:
            return cache[key][2], cache[key][3]
        q = self.p.fresh_int('sq')
        r = self.p.fresh_int('sr')
        self.p.assume(z3.And(sx.lift_int(x) == d * q + r, r >= 0, r < d))
        cache[key] = (x, d, q, r)
        return q, r


class ConcCtx:
    """Concrete context: named inputs come from a values dict (a counter-model or a sample);
    objects are instances of the *real* classes."""
    symbolic = False

    def __init__(self, values):
        self.values = values
        self.a = NS()
        self.pre_ok = True
        self.missing = []

    def _get(self, name, default):
        if name not in self.values:
            self.missing.append(name)
            return default
        return self.values[name]

    def int(self, name, lo=None, hi=None):
        v = int(self._get(name, lo if lo is not None else 0))
        if (lo is not None and v < lo) or (hi is not None and v > hi):
            self.pre_ok = False
        return v

    def bool(self, name):
        return bool(self._get(name, False))

    def bv(self, name, bits, width=64):
        return int(self._get(name, 0))

    def text(self, name, n, alphabet=()):
        out = []
        for i in range(n):
            k = self.choice('%s[%d]kind' % (name, i), ['ascii'] + list(alphabet))
            out.append(chr(self.int('%s[%d]' % (name, i), 0, 127)) if k == 'ascii' else k)
        return ''.join(out)

    def abytes(self, name):
        return bytes(self._get(name, []))

    def afile(self, content, pos):
        import io
        f = io.BytesIO(bytes(content))
        f.seek(pos)
        return f

    def aout(self, pos):
        import io
        f = io.BytesIO()
        f.seek(pos)
        return f

    def byte(self, name):
        return self.int(name, 0, 255)

    def bytes(self, name, n, mutable=False):
        v = self._get(name, [0] * n)
        v = list(v) + [0] * (n - len(v))
        b = bytes(v[:n])
        return bytearray(b) if mutable else b

    def digits(self, x, size, signed=False):
        if signed and x < 0:
            x += 1 << (8 * size)
        return [(x >> (8 * i)) & 0xff for i in range(size)]

    def choice(self, name, options):
        return options[self.int(name + '#', 0, len(options) - 1)]

    def assume(self, cond):
        if not cond:
            self.pre_ok = False

    def cls(self, qualname):
        import importlib
        if qualname.startswith('tools.'):
            return resolve_real(qualname)
        modname, _, cname = qualname.rpartition('.')
        return getattr(importlib.import_module(modname), cname)

    def obj(self, qualname, **fields):
        k = self.cls(qualname)
        o = k.__new__(k)
        for f, v in fields.items():
            setattr(o, f, v)
        return o

    def file(self, content=b''):
        import io
        return io.BytesIO(bytes(content))

    def call(self, target, *args, **kwargs):
        return resolve_real(target)(*args, **kwargs)

    def new(self, qualname, *args, **kwargs):
        return self.cls(qualname)(*args, **kwargs)

    def localtime(self, t):
        import time
        time.tzset()
        return time.localtime(t)

    def divmod(self, x, d):
        return x // d, x % d


def resolve_real(target):
    """import the real function object for `target` (concrete mode)"""
    import importlib
    parts = target.split('.')
    if parts[0] == 'tools':
        # the command line tools are scripts without a .py suffix next to the package
        import importlib.machinery
        import importlib.util
        import pycdlib
        path = os.path.join(os.path.dirname(os.path.dirname(pycdlib.__file__)), 'tools', parts[1].replace('_', '-'))
        name = 'pyvc_tool_' + parts[1]
        mod = sys.modules.get(name)
        if mod is None:
            loader = importlib.machinery.SourceFileLoader(name, path)
            spec = importlib.util.spec_from_loader(name, loader)
            mod = importlib.util.module_from_spec(spec)
            sys.modules[name] = mod
            loader.exec_module(mod)
        cur = mod
        for p in parts[2:]:
            cur = getattr(cur, p)
        return cur
    for i in range(len(parts) - 1, 0, -1):
        try:
            mod = importlib.import_module('.'.join(parts[:i]))
        except ImportError:
            continue
        cur = mod
        for p in parts[i:]:
            cur = getattr(cur, p)
        return cur
    raise ImportError(target)


class FixedCtx(SymCtx):
    """pyvc objects, concrete input values: runs the interpreter concretely (CPython cross-check of the encoder)."""
    symbolic = True  # contracts take the pyvc-object branch

    def __init__(self, pathctx, loader, values):
        SymCtx.__init__(self, pathctx, loader)
        self.values = values

    def int(self, name, lo=None, hi=None):
        return int(self.values.get(name, lo if lo is not None else 0))

    def bool(self, name):
        return bool(self.values.get(name, False))

    def bv(self, name, bits, width=64):
        return int(self.values.get(name, 0))

    def text(self, name, n, alphabet=()):
        out = []
        for i in range(n):
            k = self.choice('%s[%d]kind' % (name, i), ['ascii'] + list(alphabet))
            out.append(chr(self.int('%s[%d]' % (name, i), 0, 127)) if k == 'ascii' else k)
        return ''.join(out)

    def abytes(self, name):
        return bytes(self.values.get(name, []))

    def afile(self, content, pos):
        from .stdlib import FileModel
        f = FileModel(bytes(content))
        f.pos = pos
        return f

    def aout(self, pos):
        from .stdlib import FileModel
        f = FileModel(b'')
        f.pos = pos
        return f

    def bytes(self, name, n, mutable=False):
        v = list(self.values.get(name, [0] * n)) + [0] * n
        b = bytes(v[:n])
        return bytearray(b) if mutable else b

    def choice(self, name, options):
        return options[self.int(name + '#', 0, len(options) - 1)]

    def digits(self, x, size, signed=False):
        if signed and x < 0:
            x += 1 << (8 * size)
        return [(x >> (8 * i)) & 0xff for i in range(size)]

    def assume(self, cond):
        if not is_sym(cond) and not cond:
            from .interp import PathEnd
            raise PathEnd()
        if is_sym(cond):
            self.p.assume(cond)
