"""pyvc symbolic interpreter for the Python subset used by pycdlib.

Executes the *real* AST of functions read from /repo.  Concrete inputs give a
concrete interpreter (used for the CPython cross-check); z3 terms as inputs give
symbolic execution with path forking by re-execution (decision lists).
"""
import ast
import os

from . import sx
from .sx import z3, is_sym
from . import values as V
from .values import (Unsupported, SBytes, ClassInfo, Obj, FuncVal, BoundMethod,
                     Builtin, ModuleVal, Lazy)


class PyExc(Exception):
    """A Python-level exception raised by the code under analysis."""

    def __init__(self, obj):
        Exception.__init__(self, obj.cls.name)
        self.obj = obj


class ReturnSig(Exception):
    def __init__(self, value):
        self.value = value


class BreakSig(Exception):
    pass


class ContinueSig(Exception):
    pass


class PathEnd(Exception):
    """The current path stops here (e.g. after checking a loop invariant step)."""


class Incomplete(Exception):
    """Exploration bound hit (loop unroll / path count): verdict becomes undecided."""


class Frame:
    def __init__(self, func, module, locs):
        self.func = func
        self.module = module
        self.locals = locs
        self.loop_ordinal = 0


# --------------------------------------------------------------------------
# Path context
# --------------------------------------------------------------------------
class PathCtx:
    """State of one explored path: path condition, decisions, fresh names."""

    def __init__(self, decisions=(), timeout_ms=3000):
        self.decisions = list(decisions)
        self.pos = 0
        self.pc = []
        self.pending = []  # alternative decision prefixes discovered on this path
        self.fresh_n = 0
        self.solver = z3.Solver() if z3 is not None else None
        if self.solver is not None:
            self.solver.set('timeout', timeout_ms)
        self.obligations = []  # (oid, pc snapshot, goal, meta)
        self.solver_calls = 0
        self.notes = []
        self.ghost = {}
        self.branch_timeout_ms = timeout_ms
        self.eager_timeout_ms = 0
        self.cut_mark = 0

    def fresh_int(self, hint='v', lo=None, hi=None):
        self.fresh_n += 1
        v = z3.Int('%s!%d' % (hint, self.fresh_n))
        if lo is not None:
            self.assume(v >= lo)
        if hi is not None:
            self.assume(v <= hi)
        return v

    def fresh_bool(self, hint='b'):
        self.fresh_n += 1
        return z3.Bool('%s!%d' % (hint, self.fresh_n))

    def assume(self, cond):
        cond = sx.to_bool(cond)
        if is_sym(cond):
            self.pc.append(cond)
            self.solver.add(cond)
        elif not cond:
            # contradictory concrete assumption: path is dead
            raise PathEnd()

    def _sat(self, cond):
        self.solver.push()
        self.solver.add(cond)
        self.solver_calls += 1
        r = self.solver.check()
        self.solver.pop()
        return r != z3.unsat  # unknown counts as feasible

    def branch(self, cond):
        """Decide a (possibly symbolic) condition; forks the path when both sides are feasible."""
        cond = sx.to_bool(cond)
        if not is_sym(cond):
            return bool(cond)
        cond = z3.simplify(cond)
        if z3.is_true(cond):
            return True
        if z3.is_false(cond):
            return False
        if self.pos < len(self.decisions):
            d = self.decisions[self.pos]
            self.pos += 1
            if d in ('T', 'F'):
                val = d == 'T'
                self.pc.append(cond if val else z3.Not(cond))
                self.solver.add(self.pc[-1])
                return val
            return d == 't'  # forced decisions: condition implied by pc, nothing to add
        t = self._sat(cond)
        f = self._sat(z3.Not(cond))
        if t and f:
            self.pending.append(self.decisions[:self.pos] + ['F'])
            self.decisions.append('T')
            self.pos += 1
            self.pc.append(cond)
            self.solver.add(cond)
            return True
        if t:
            self.decisions.append('t')
            self.pos += 1
            return True
        if f:
            self.decisions.append('f')
            self.pos += 1
            return False
        raise PathEnd()  # path condition itself infeasible

    def begin_scope(self):
        """constraints assumed from here on can be forgotten at end_scope (sound: forgetting assumptions only weakens them)"""
        self.solver.push()
        return len(self.pc)

    def end_scope(self, mark, keep=()):
        self.solver.pop()
        del self.pc[mark:]
        for k in keep:
            self.assume(k)

    def entails(self, cond):
        cond = sx.to_bool(cond)
        if not is_sym(cond):
            return bool(cond)
        if self.cut_mark:
            s1 = z3.Solver()
            s1.set('timeout', 1000)
            s1.add(*self.pc[self.cut_mark:])
            s1.add(z3.Not(cond))
            if s1.check() == z3.unsat:
                return True
        self.solver.push()
        self.solver.add(z3.Not(cond))
        self.solver_calls += 1
        r = self.solver.check()
        self.solver.pop()
        return r == z3.unsat

    def check_now(self, goal, timeout_ms):
        """decide pc => goal with the path's incremental solver (pc is already asserted in it).
        returns (status, seconds, model|None, reason); 'unknown' results are retried by the caller with a fresh solver / cvc5"""
        import time as _t
        t0 = _t.time()
        goal = sx.to_bool(goal)
        if not is_sym(goal) and goal:
            return 'unsat', 0.0, None, ''
        if self.cut_mark and is_sym(goal):
            # stage 1: only what was assumed since the last loop cut (a subset of the assumptions: unsat is conclusive)
            s1 = z3.Solver()
            s1.set('timeout', min(timeout_ms, 2000))
            s1.add(*self.pc[self.cut_mark:])
            s1.add(z3.Not(goal))
            if s1.check() == z3.unsat:
                return 'unsat', _t.time() - t0, None, ''
        self.solver.push()
        self.solver.set('timeout', timeout_ms)
        try:
            if is_sym(goal):
                self.solver.add(z3.Not(goal))
            r = self.solver.check()
            model = self.solver.model() if r == z3.sat else None
            reason = self.solver.reason_unknown() if r == z3.unknown else ''
        finally:
            self.solver.pop()
            self.solver.set('timeout', self.branch_timeout_ms)
        st = 'sat' if r == z3.sat else ('unsat' if r == z3.unsat else 'unknown')
        return (st, _t.time() - t0, model, reason)

    def oblige(self, oid, goal, meta=None):
        """Record a proof obligation: pc => goal.  Afterwards the goal is assumed."""
        goal = sx.to_bool(goal)
        meta = dict(meta or {})
        if self.eager_timeout_ms:
            meta['eager'] = self.check_now(goal, self.eager_timeout_ms)
            if meta['eager'][0] == 'unsat':
                self.obligations.append((oid, None, True, meta))
                if is_sym(goal):
                    self.assume(goal)
                return
        self.obligations.append((oid, list(self.pc), goal, meta))
        if is_sym(goal):
            self.assume(goal)
        elif not goal:
            raise PathEnd()


# --------------------------------------------------------------------------
# Loader: reads real source from the repository
# --------------------------------------------------------------------------
class Loader:
    def __init__(self, repo='/repo'):
        self.repo = repo
        self.modules = {}
        self.sources = {}
        self.builtin_classes = {}
        self.std = {}
        self.interp_for_load = None
        from . import stdlib
        stdlib.install(self)

    def path_of(self, modname):
        if modname.startswith('tools.'):
            return os.path.join(self.repo, 'tools', modname[len('tools.'):].replace('_', '-'))
        return os.path.join(self.repo, *modname.split('.')) + '.py'

    def source(self, modname):
        if modname not in self.sources:
            with open(self.path_of(modname), 'r', encoding='utf-8') as f:
                src = f.read()
            self.sources[modname] = (src, ast.parse(src))
        return self.sources[modname]

    def load(self, modname):
        if modname in self.modules:
            return self.modules[modname]
        if modname in self.std:
            return self.std[modname]
        if not (modname.startswith('pycdlib') or modname.startswith('tools.')):
            raise Unsupported('import of unmodelled module %s' % modname)
        if modname == 'pycdlib':
            m = ModuleVal('pycdlib')
            self.modules[modname] = m
            return m
        src, tree = self.source(modname)
        mod = ModuleVal(modname)
        mod.ns['__name__'] = modname
        self.modules[modname] = mod
        it = Interp(self, None)
        frame = Frame(None, mod, mod.ns)
        for st in tree.body:
            try:
                it.exec_stmt(st, frame)
            except (Unsupported, PyExc) as e:
                for name in _assigned_names(st):
                    mod.ns[name] = Lazy('%s: %s' % (modname, e))
        return mod

    def find_function(self, qualname):
        """'pycdlib.utils.ceiling_div' or 'pycdlib.dates.DirectoryRecordDate.new' -> FuncVal"""
        parts = qualname.split('.')
        for i in range(len(parts) - 1, 0, -1):
            modname = '.'.join(parts[:i])
            try:
                path = self.path_of(modname)
            except Exception:
                continue
            if os.path.isfile(path):
                mod = self.load(modname)
                cur = mod.ns.get(parts[i])
                for p in parts[i + 1:]:
                    if isinstance(cur, ClassInfo):
                        cur = cur.lookup(p)
                    else:
                        cur = None
                if isinstance(cur, FuncVal):
                    return cur
                raise Unsupported('function %s not found in %s' % (qualname, modname))
        raise Unsupported('module for %s not found' % qualname)

    def find_class(self, qualname):
        modname, _, cname = qualname.rpartition('.')
        mod = self.load(modname)
        c = mod.ns.get(cname)
        if not isinstance(c, ClassInfo):
            raise Unsupported('class %s not found' % qualname)
        return c

    def func_source(self, fv):
        src, _ = self.source(fv.module.name)
        return ast.get_source_segment(src, fv.node)


def _assigned_names(st):
    out = []
    if isinstance(st, ast.Assign):
        for t in st.targets:
            for n in ast.walk(t):
                if isinstance(n, ast.Name):
                    out.append(n.id)
    elif isinstance(st, (ast.AugAssign, ast.AnnAssign)):
        for n in ast.walk(st.target):
            if isinstance(n, ast.Name):
                out.append(n.id)
    elif isinstance(st, (ast.FunctionDef, ast.ClassDef)):
        out.append(st.name)
    elif isinstance(st, (ast.Import, ast.ImportFrom)):
        for a in st.names:
            out.append((a.asname or a.name).split('.')[0])
    return out


def _has_yield(node):
    for n in ast.walk(node):
        if isinstance(n, (ast.Yield, ast.YieldFrom)):
            return True
    return False


# --------------------------------------------------------------------------
# Interpreter
# --------------------------------------------------------------------------
MAX_UNROLL = 4096
MAX_CALL_DEPTH = 60


class Interp:
    def __init__(self, loader, ctx, loop_specs=None, call_hooks=None, max_unroll=MAX_UNROLL):
        self.loader = loader
        self.ctx = ctx
        self.loop_specs = loop_specs or {}
        self.call_hooks = call_hooks or {}
        self.depth = 0
        self.max_unroll = max_unroll
        self.yields = None
        self.merge_ifs = True
        self.inlined = set()
        self.site_stack = []

    # ----- helpers -----
    def branch(self, cond):
        if is_sym(cond):
            if self.ctx is None:
                raise Unsupported('symbolic condition at module load time')
            return self.ctx.branch(cond)
        return bool(cond)

    def truth(self, v):
        if is_sym(v):
            return self.branch(sx.to_bool(v))
        if isinstance(v, SBytes):
            return len(v) > 0
        if isinstance(v, Obj):
            m = v.cls.lookup('__bool__') or v.cls.lookup('__len__')
            if m is not None and isinstance(m, FuncVal):
                return self.truth(self.call(BoundMethod(v, m), [], {}))
            return True
        if isinstance(v, (ClassInfo, FuncVal, BoundMethod, Builtin, ModuleVal)):
            return True
        if isinstance(v, Lazy):
            raise Unsupported(v.why)
        if type(v).__name__ == 'SymRange':
            return self.branch(sx.lift_int(v.start) < sx.lift_int(v.stop))
        return bool(v)

    def raise_exc(self, clsname, msg='', site=None):
        cls = self.loader.builtin_classes[clsname]
        o = Obj(cls)
        o.fields['args'] = (msg,)
        o.site = site or (self.site_stack[-1] if self.site_stack else None)
        raise PyExc(o)

    def here(self, node, frame):
        fn = frame.func.qualname if frame.func else frame.module.name
        return '%s:%s' % (fn, getattr(node, 'lineno', '?'))

    # ----- statements -----
    def exec_block(self, stmts, frame):
        for st in stmts:
            self.exec_stmt(st, frame)

    def exec_stmt(self, st, frame):
        m = getattr(self, 'st_' + type(st).__name__, None)
        if m is None:
            raise Unsupported('statement %s at %s' % (type(st).__name__, self.here(st, frame)))
        self.site_stack.append(self.here(st, frame))
        try:
            return m(st, frame)
        finally:
            self.site_stack.pop()

    def st_Expr(self, st, frame):
        if isinstance(st.value, ast.Constant):
            return  # docstring
        self.eval(st.value, frame)

    def st_Pass(self, st, frame):
        pass

    def st_Import(self, st, frame):
        for a in st.names:
            mod = self.loader.load(a.name)
            frame.locals[(a.asname or a.name).split('.')[0]] = mod

    def st_ImportFrom(self, st, frame):
        modname = st.module or ''
        if st.level:
            modname = 'pycdlib' + ('.' + modname if modname else '')
        for a in st.names:
            full = modname + '.' + a.name
            try:
                val = self.loader.load(full)
            except (Unsupported, FileNotFoundError):
                mod = self.loader.load(modname)
                if a.name not in mod.ns:
                    raise Unsupported('cannot import %s from %s' % (a.name, modname))
                val = mod.ns[a.name]
            frame.locals[a.asname or a.name] = val

    def st_FunctionDef(self, st, frame):
        kind = 'function'
        for d in st.decorator_list:
            dn = ast.unparse(d)
            if dn == 'staticmethod':
                kind = 'staticmethod'
            elif dn == 'classmethod':
                kind = 'classmethod'
            elif dn == 'property':
                kind = 'property'
            elif dn.startswith('functools.lru_cache') or dn.startswith('lru_cache'):
                pass  # treated as identity (stated assumption)
            else:
                raise Unsupported('decorator %s' % dn)
        prefix = frame.module.name + '.'
        if frame.func is not None:
            qual = frame.func.qualname + '.<locals>.' + st.name
        elif '__class__name' in frame.locals:
            qual = prefix + frame.locals['__class__name'] + '.' + st.name
        else:
            qual = prefix + st.name
        fv = FuncVal(st, frame.module, qual, kind=kind)
        if frame.func is not None:
            fv.closure = frame
        frame.locals[st.name] = fv

    def st_ClassDef(self, st, frame):
        bases = []
        for b in st.bases:
            bv = self.eval(b, frame)
            if bv is object:
                continue
            if not isinstance(bv, ClassInfo):
                raise Unsupported('base class %s' % ast.unparse(b))
            bases.append(bv)
        ns = {'__class__name': st.name}
        cframe = Frame(None, frame.module, ns)
        for s in st.body:
            try:
                self.exec_stmt(s, cframe)
            except (Unsupported, PyExc) as e:
                for name in _assigned_names(s):
                    ns[name] = Lazy('%s.%s: %s' % (frame.module.name, st.name, e))
        del ns['__class__name']
        ci = ClassInfo(st.name, frame.module.name, bases, ns, node=st)
        for v in ns.values():
            if isinstance(v, FuncVal):
                v.cls = ci
        frame.locals[st.name] = ci

    def st_Return(self, st, frame):
        raise ReturnSig(self.eval(st.value, frame) if st.value is not None else None)

    def st_Raise(self, st, frame):
        if st.exc is None:
            cur = frame.locals.get('__current_exc')
            if cur is None:
                raise Unsupported('bare raise outside except')
            raise PyExc(cur)
        v = self.eval(st.exc, frame)
        if isinstance(v, ClassInfo):
            v = self.instantiate(v, [], {})
        if not isinstance(v, Obj):
            raise Unsupported('raise of non-exception')
        if v.site is None:
            v.site = self.here(st, frame)
        raise PyExc(v)

    def st_Assert(self, st, frame):
        if not self.truth(self.eval(st.test, frame)):
            self.raise_exc('AssertionError', '', self.here(st, frame))

    PURE_OPS = (ast.Add, ast.Sub, ast.Mult, ast.BitAnd, ast.BitOr, ast.BitXor, ast.LShift, ast.RShift)

    def _pure_expr(self, e):
        if isinstance(e, (ast.Name, ast.Constant)):
            return not isinstance(e, ast.Constant) or isinstance(e.value, (int, bool))
        if isinstance(e, ast.BinOp) and isinstance(e.op, self.PURE_OPS):
            if isinstance(e.op, (ast.LShift, ast.RShift)) and not isinstance(e.right, ast.Constant):
                return False
            return self._pure_expr(e.left) and self._pure_expr(e.right)
        if isinstance(e, ast.UnaryOp) and isinstance(e.op, (ast.USub, ast.UAdd)):
            return self._pure_expr(e.operand)
        return False

    def _mergeable(self, stmts):
        names = []
        for s in stmts:
            if isinstance(s, ast.Assign) and len(s.targets) == 1 and isinstance(s.targets[0], ast.Name) and self._pure_expr(s.value):
                names.append(s.targets[0].id)
            elif isinstance(s, ast.AugAssign) and isinstance(s.target, ast.Name) and isinstance(s.op, self.PURE_OPS) and self._pure_expr(s.value):
                names.append(s.target.id)
            else:
                return None
        return names

    def st_If(self, st, frame):
        test = self.eval(st.test, frame)
        if is_sym(test) and self.ctx is not None and self.merge_ifs:
            # if-conversion of side-effect-free integer updates: no path fork, the join is an ite term
            n1 = self._mergeable(st.body)
            n2 = self._mergeable(st.orelse)
            if n1 is not None and n2 is not None and (n1 or n2):
                names = set(n1) | set(n2)
                if all(n in frame.locals and (is_sym(frame.locals[n]) and not sx.is_bv(frame.locals[n]) or isinstance(frame.locals[n], (int, bool))) for n in names):
                    cond = z3.simplify(sx.to_bool(test))
                    if not z3.is_true(cond) and not z3.is_false(cond):
                        before = {n: frame.locals[n] for n in names}
                        self.exec_block(st.body, frame)
                        then_v = {n: frame.locals[n] for n in names}
                        frame.locals.update(before)
                        self.exec_block(st.orelse, frame)
                        else_v = {n: frame.locals[n] for n in names}
                        for n in names:
                            a, b = then_v[n], else_v[n]
                            frame.locals[n] = a if (a is b) else sx.If(cond, a, b)
                        return
        if self.truth(test):
            self.exec_block(st.body, frame)
        else:
            self.exec_block(st.orelse, frame)

    def st_Assign(self, st, frame):
        v = self.eval(st.value, frame)
        for t in st.targets:
            self.assign(t, v, frame)

    def st_AnnAssign(self, st, frame):
        if st.value is not None:
            self.assign(st.target, self.eval(st.value, frame), frame)

    def st_AugAssign(self, st, frame):
        t = st.target
        if isinstance(t, ast.Name):
            cur = self.lookup(t.id, frame, t)
            frame.locals[t.id] = self.binop(st.op, cur, self.eval(st.value, frame), st, frame, inplace=True)
        elif isinstance(t, ast.Attribute):
            o = self.eval(t.value, frame)
            cur = self.getattr(o, t.attr, t, frame)
            self.setattr(o, t.attr, self.binop(st.op, cur, self.eval(st.value, frame), st, frame, inplace=True))
        elif isinstance(t, ast.Subscript):
            o = self.eval(t.value, frame)
            idx = self.eval_index(t.slice, frame)
            cur = self.subscript(o, idx, t, frame)
            self.store_subscript(o, idx, self.binop(st.op, cur, self.eval(st.value, frame), st, frame, inplace=True), t, frame)
        else:
            raise Unsupported('augassign target')

    def st_Delete(self, st, frame):
        for t in st.targets:
            if isinstance(t, ast.Subscript):
                o = self.eval(t.value, frame)
                idx = self.eval_index(t.slice, frame)
                if isinstance(o, dict):
                    k = self.dict_key(o, idx, t, frame)
                    del o[k]
                elif isinstance(o, list):
                    if not isinstance(idx, slice):
                        idx = self.concrete_index(idx, len(o), t, frame)
                    del o[idx]
                elif isinstance(o, SBytes) and o.mutable:
                    del o.items[idx]
                elif isinstance(o, bytearray):
                    del o[idx]
                else:
                    raise Unsupported('del on %s' % type(o).__name__)
            elif isinstance(t, ast.Name):
                frame.locals.pop(t.id, None)
            elif isinstance(t, ast.Attribute):
                o = self.eval(t.value, frame)
                if isinstance(o, Obj):
                    o.fields.pop(t.attr, None)
                else:
                    raise Unsupported('del attribute')
            else:
                raise Unsupported('del target')

    def st_Global(self, st, frame):
        raise Unsupported('global')

    def st_Break(self, st, frame):
        raise BreakSig()

    def st_Continue(self, st, frame):
        raise ContinueSig()

    def st_While(self, st, frame):
        ordinal = frame.loop_ordinal
        frame.loop_ordinal += 1
        spec = self.loop_specs.get((frame.func.qualname if frame.func else '', ordinal))
        if spec is not None and getattr(spec, 'unrolled', False):
            return self.while_unrolled_with_cuts(st, frame, spec, ordinal)
        if spec is not None:
            return self.loop_with_spec(st, frame, spec, ordinal)
        n = 0
        while True:
            if not self.truth(self.eval(st.test, frame)):
                self.exec_block(st.orelse, frame)
                return
            n += 1
            if n > self.max_unroll:
                raise Incomplete('loop unroll bound at %s' % self.here(st, frame))
            try:
                self.exec_block(st.body, frame)
            except BreakSig:
                return
            except ContinueSig:
                continue

    def loop_with_spec(self, st, frame, spec, ordinal):
        """Inductive treatment of a loop: init / havoc / assume / one body step / step obligation."""
        fq = frame.func.qualname
        base = '%s/loop%d' % (fq.split('.', 1)[1] if fq.startswith('pycdlib.') else fq, ordinal)
        ctx = self.ctx
        for name, cl in spec.invariant(self, frame, 'init').items():
            ctx.oblige('%s/loop-init:%s' % (base, name), cl, {'kind': 'loop-init'})
        spec.havoc(self, frame)
        for name, cl in spec.invariant(self, frame, 'assume').items():
            ctx.assume(cl)
        is_for = isinstance(st, ast.For)
        if is_for:
            enter = spec.for_enter(self, frame, st)
        else:
            enter = self.truth(self.eval(st.test, frame))
        if not enter:
            if hasattr(spec, 'at_exit'):
                spec.at_exit(self, frame)
            self.exec_block(st.orelse, frame)
            return
        dec0 = spec.decreases(self, frame) if hasattr(spec, 'decreases') else None
        try:
            self.exec_block(st.body, frame)
        except BreakSig:
            return
        except ContinueSig:
            pass
        if is_for:
            spec.for_advance(self, frame, st)
        for name, cl in spec.invariant(self, frame, 'step').items():
            ctx.oblige('%s/loop-step:%s' % (base, name), cl, {'kind': 'loop-step'})
        if dec0 is not None:
            dec1 = spec.decreases(self, frame)
            ctx.oblige('%s/decreases' % base, sx.And(dec0 >= 0, dec1 < dec0), {'kind': 'decreases'})
        raise PathEnd()

    def while_unrolled_with_cuts(self, st, frame, spec, ordinal):
        """while loop whose trip count is concrete on this path, state cut after every iteration (see loop_unrolled_with_cuts)"""
        fq = frame.func.qualname
        base = '%s/loop%d' % (fq.split('.', 1)[1] if fq.startswith('pycdlib.') else fq, ordinal)
        frame.locals['__k'] = 0
        if hasattr(spec, 'enter'):
            spec.enter(self, frame)
        for name, cl in spec.invariant(self, frame, 'init').items():
            self.ctx.oblige('%s/loop-init:%s' % (base, name), cl, {'kind': 'loop-init'})
        k = 0
        while True:
            t = self.eval(st.test, frame)
            if is_sym(t):
                raise Unsupported('cut while-loop with a symbolic condition at %s' % self.here(st, frame))
            if not self.truth(t):
                break
            k += 1
            if k > self.max_unroll:
                raise Incomplete('while unroll bound at %s' % self.here(st, frame))
            mark = self.ctx.begin_scope()
            try:
                self.exec_block(st.body, frame)
            except ContinueSig:
                pass
            except BreakSig:
                raise Unsupported('break inside a cut loop')
            frame.locals['__k'] = k
            for name, cl in spec.invariant(self, frame, 'step').items():
                self.ctx.oblige('%s/loop-step:%s' % (base, name), cl, {'kind': 'loop-step'})
            keep = spec.persist(self, frame) if hasattr(spec, 'persist') else ()
            self.ctx.end_scope(mark, keep)
            self.ctx.cut_mark = len(self.ctx.pc)
            spec.havoc(self, frame)
            for name, cl in spec.invariant(self, frame, 'assume').items():
                self.ctx.assume(cl)
        self.exec_block(st.orelse, frame)

    def loop_unrolled_with_cuts(self, st, frame, spec, ordinal):
        """Concrete iteration count, but the loop state is cut at every iteration: after iteration k the invariant
        (indexed by k) is proved, the modified variables are havocked and the invariant assumed.  One small VC per iteration
        instead of one VC carrying the whole unrolled computation."""
        fq = frame.func.qualname
        base = '%s/loop%d' % (fq.split('.', 1)[1] if fq.startswith('pycdlib.') else fq, ordinal)
        items = list(self.iterate(self.eval(st.iter, frame), st, frame))
        frame.locals['__k'] = 0
        for name, cl in spec.invariant(self, frame, 'init').items():
            self.ctx.oblige('%s/loop-init:%s' % (base, name), cl, {'kind': 'loop-init'})
        for k, v in enumerate(items):
            self.assign(st.target, v, frame)
            mark = self.ctx.begin_scope()
            try:
                self.exec_block(st.body, frame)
            except ContinueSig:
                pass
            except BreakSig:
                raise Unsupported('break inside a cut loop')
            frame.locals['__k'] = k + 1
            for name, cl in spec.invariant(self, frame, 'step').items():
                self.ctx.oblige('%s/loop-step:%s' % (base, name), cl, {'kind': 'loop-step'})
            keep = spec.persist(self, frame) if hasattr(spec, 'persist') else ()
            self.ctx.end_scope(mark, keep)
            self.ctx.cut_mark = len(self.ctx.pc)
            spec.havoc(self, frame)
            for name, cl in spec.invariant(self, frame, 'assume').items():
                self.ctx.assume(cl)
        self.exec_block(st.orelse, frame)

    def st_For(self, st, frame):
        ordinal = frame.loop_ordinal
        frame.loop_ordinal += 1
        spec = self.loop_specs.get((frame.func.qualname if frame.func else '', ordinal))
        if spec is not None and getattr(spec, 'unrolled', False):
            return self.loop_unrolled_with_cuts(st, frame, spec, ordinal)
        if spec is not None:
            return self.loop_with_spec(st, frame, spec, ordinal)
        it = self.iterate(self.eval(st.iter, frame), st, frame)
        broke = False
        n = 0
        for v in it:
            n += 1
            if n > self.max_unroll:
                raise Incomplete('for unroll bound at %s' % self.here(st, frame))
            self.assign(st.target, v, frame)
            try:
                self.exec_block(st.body, frame)
            except BreakSig:
                broke = True
                break
            except ContinueSig:
                continue
        if not broke:
            self.exec_block(st.orelse, frame)

    def iterate(self, v, node, frame):
        if isinstance(v, SBytes):
            return list(v.items)
        if isinstance(v, (bytes, bytearray, list, tuple, str, range, dict, set, frozenset)):
            return list(v)
        if hasattr(v, '_pyvc_iter'):
            self.max_unroll = min(self.max_unroll, 600)
            return v._pyvc_iter(self)
        import collections
        if isinstance(v, collections.deque):
            return list(v)
        if isinstance(v, (enumerate, zip, reversed, map, filter)) or hasattr(v, '__next__'):
            return v
        if type(v).__name__ in ('dict_items', 'dict_keys', 'dict_values'):
            return list(v)
        if isinstance(v, Lazy):
            raise Unsupported(v.why)
        raise Unsupported('iteration over %s at %s' % (type(v).__name__, self.here(node, frame)))

    def st_Try(self, st, frame):
        try:
            try:
                self.exec_block(st.body, frame)
            except PyExc as e:
                for h in st.handlers:
                    if h.type is None or self.exc_matches(e.obj, self.eval(h.type, frame)):
                        if h.name:
                            frame.locals[h.name] = e.obj
                        saved = frame.locals.get('__current_exc')
                        frame.locals['__current_exc'] = e.obj
                        try:
                            self.exec_block(h.body, frame)
                        finally:
                            frame.locals['__current_exc'] = saved
                        break
                else:
                    raise
            else:
                self.exec_block(st.orelse, frame)
        finally:
            if st.finalbody:
                self.exec_block(st.finalbody, frame)

    def exc_matches(self, obj, spec):
        if isinstance(spec, tuple):
            return any(self.exc_matches(obj, s) for s in spec)
        if isinstance(spec, ClassInfo):
            return obj.cls.is_subclass(spec)
        raise Unsupported('except clause with %r' % (spec,))

    def st_With(self, st, frame):
        if len(st.items) != 1:
            raise Unsupported('multi-item with')
        item = st.items[0]
        mgr = self.eval(item.context_expr, frame)
        val = self.call(self.getattr(mgr, '__enter__', st, frame), [], {})
        if item.optional_vars is not None:
            self.assign(item.optional_vars, val, frame)
        try:
            self.exec_block(st.body, frame)
        except PyExc:
            self.call(self.getattr(mgr, '__exit__', st, frame), [None, None, None], {})
            raise
        except (ReturnSig, BreakSig, ContinueSig):
            self.call(self.getattr(mgr, '__exit__', st, frame), [None, None, None], {})
            raise
        self.call(self.getattr(mgr, '__exit__', st, frame), [None, None, None], {})

    # ----- assignment -----
    def assign(self, t, v, frame):
        if isinstance(t, ast.Name):
            frame.locals[t.id] = v
        elif isinstance(t, ast.Attribute):
            self.setattr(self.eval(t.value, frame), t.attr, v)
        elif isinstance(t, ast.Subscript):
            o = self.eval(t.value, frame)
            self.store_subscript(o, self.eval_index(t.slice, frame), v, t, frame)
        elif isinstance(t, (ast.Tuple, ast.List)):
            vals = list(self.iterate(v, t, frame))
            star = [i for i, e in enumerate(t.elts) if isinstance(e, ast.Starred)]
            if star:
                i = star[0]
                after = len(t.elts) - i - 1
                if len(vals) < len(t.elts) - 1:
                    self.raise_exc('ValueError', 'not enough values to unpack')
                for e, x in zip(t.elts[:i], vals[:i]):
                    self.assign(e, x, frame)
                self.assign(t.elts[i].value, vals[i:len(vals) - after], frame)
                for e, x in zip(t.elts[i + 1:], vals[len(vals) - after:]):
                    self.assign(e, x, frame)
                return
            if len(vals) != len(t.elts):
                self.raise_exc('ValueError', 'unpack length mismatch')
            for e, x in zip(t.elts, vals):
                self.assign(e, x, frame)
        else:
            raise Unsupported('assignment target %s' % type(t).__name__)

    def setattr(self, o, name, v):
        if isinstance(o, Obj):
            o.fields[name] = v
        elif hasattr(o, '_pyvc_setattr'):
            o._pyvc_setattr(name, v)
        elif isinstance(o, ClassInfo):
            o.attrs[name] = v
        else:
            raise Unsupported('setattr on %s' % type(o).__name__)

    def concrete_index(self, idx, n, node, frame):
        """Index into a concrete-length sequence; a symbolic index is case-split over the length."""
        if is_sym(idx):
            for k in range(-n, n):
                if self.branch(idx == k):
                    return k
            self.raise_exc('IndexError', 'index out of range', self.here(node, frame))
        if isinstance(idx, bool):
            idx = int(idx)
        if not isinstance(idx, int):
            self.raise_exc('TypeError', 'indices must be integers', self.here(node, frame))
        if idx < -n or idx >= n:
            self.raise_exc('IndexError', 'index out of range', self.here(node, frame))
        return idx

    def dict_key(self, d, k, node, frame, missing_raises=True):
        if is_sym(k):
            for kk in list(d.keys()):
                if not is_sym(kk) and isinstance(kk, int):
                    if self.branch(k == kk):
                        return kk
            if missing_raises:
                self.raise_exc('KeyError', 'key', self.here(node, frame))
            return None
        if isinstance(k, (SBytes, bytearray)):
            raise Unsupported('unhashable/symbolic dict key')
        if k not in d:
            if missing_raises:
                self.raise_exc('KeyError', repr(k), self.here(node, frame))
            return None
        return k

    def store_subscript(self, o, idx, v, node, frame):
        if isinstance(o, dict):
            if is_sym(idx):
                kk = self.dict_key(o, idx, node, frame, missing_raises=False)
                if kk is None:
                    raise Unsupported('store of new symbolic dict key')
                idx = kk
            o[idx] = v
        elif isinstance(o, list):
            if isinstance(idx, slice):
                o[idx] = list(self.iterate(v, node, frame))
            else:
                o[self.concrete_index(idx, len(o), node, frame)] = v
        elif isinstance(o, bytearray):
            if isinstance(idx, slice):
                if isinstance(v, SBytes):
                    raise Unsupported('symbolic slice store into concrete bytearray')
                o[idx] = v
            else:
                if is_sym(v):
                    raise Unsupported('symbolic store into concrete bytearray (use SBytes)')
                o[idx] = v
        elif isinstance(o, SBytes) and o.mutable:
            if isinstance(idx, slice):
                idx = self.concretize_slice(idx, len(o), node, frame)
                if isinstance(v, V.ABytes):
                    # symbolic-length source: after the slice bounds are fixed its length must match (case split)
                    lo, hi, _ = idx.indices(len(o))
                    want = max(0, hi - lo)
                    if not self.branch(v.length == want):
                        raise Unsupported('slice store that changes the length of a byte buffer')
                    v = V.mk_bytes([v.at(j) for j in range(want)])
                o.items[idx] = V.items_of(v)
            else:
                o.items[self.concrete_index(idx, len(o), node, frame)] = v
        elif hasattr(o, '_pyvc_setitem'):
            o._pyvc_setitem(self, idx, v)
        else:
            raise Unsupported('subscript store on %s' % type(o).__name__)

    # ----- expressions -----
    def eval(self, node, frame):
        m = getattr(self, 'ex_' + type(node).__name__, None)
        if m is None:
            raise Unsupported('expression %s at %s' % (type(node).__name__, self.here(node, frame)))
        return m(node, frame)

    def ex_Constant(self, node, frame):
        return node.value

    def lookup(self, name, frame, node=None):
        f = frame
        while f is not None:
            if name in f.locals:
                v = f.locals[name]
                if isinstance(v, Lazy):
                    raise Unsupported(v.why)
                return v
            f = f.func.closure if (f.func is not None and f.func.closure is not None) else None
        ns = frame.module.ns
        if name in ns:
            v = ns[name]
            if isinstance(v, Lazy):
                raise Unsupported(v.why)
            return v
        b = self.loader.builtins
        if name in b:
            return b[name]
        raise Unsupported('unknown name %s at %s' % (name, self.here(node, frame) if node else '?'))

    def ex_Name(self, node, frame):
        return self.lookup(node.id, frame, node)

    def ex_Tuple(self, node, frame):
        out = []
        for e in node.elts:
            if isinstance(e, ast.Starred):
                out.extend(self.iterate(self.eval(e.value, frame), e, frame))
            else:
                out.append(self.eval(e, frame))
        return tuple(out)

    def ex_List(self, node, frame):
        return list(self.ex_Tuple(node, frame))

    def ex_Set(self, node, frame):
        return set(self.ex_Tuple(node, frame))

    def ex_Dict(self, node, frame):
        d = {}
        for k, v in zip(node.keys, node.values):
            if k is None:
                d.update(self.eval(v, frame))
            else:
                d[self.eval(k, frame)] = self.eval(v, frame)
        return d

    def ex_JoinedStr(self, node, frame):
        out = ''
        for p in node.values:
            if isinstance(p, ast.Constant):
                out += p.value
            else:
                v = self.eval(p.value, frame)
                if is_sym(v) or isinstance(v, (SBytes, Obj)):
                    raise Unsupported('f-string over symbolic value')
                spec = self.ex_JoinedStr(p.format_spec, frame) if p.format_spec is not None else ''
                if p.conversion == 114:
                    v = repr(v)
                elif p.conversion == 115:
                    v = str(v)
                out += format(v, spec)
        return out

    def ex_IfExp(self, node, frame):
        if self.truth(self.eval(node.test, frame)):
            return self.eval(node.body, frame)
        return self.eval(node.orelse, frame)

    def _pure_cond(self, e):
        """side-effect free, exception-free condition over locals/fields/constants: may be evaluated eagerly"""
        if isinstance(e, (ast.Name, ast.Constant)):
            return True
        if isinstance(e, ast.Attribute):
            return self._pure_cond(e.value)
        if isinstance(e, ast.Compare):
            return all(isinstance(o, (ast.Lt, ast.LtE, ast.Gt, ast.GtE, ast.Eq, ast.NotEq)) for o in e.ops) and self._pure_cond(e.left) and all(self._pure_cond(x) for x in e.comparators)
        if isinstance(e, ast.BoolOp):
            return all(self._pure_cond(x) for x in e.values)
        if isinstance(e, ast.UnaryOp) and isinstance(e.op, (ast.Not, ast.USub)):
            return self._pure_cond(e.operand)
        return False

    def ex_BoolOp(self, node, frame):
        is_and = isinstance(node.op, ast.And)
        if self.ctx is not None and self.merge_ifs and all(self._pure_cond(e) for e in node.values):
            # no short-circuit needed: build one formula instead of forking per operand
            try:
                vals = [self.eval(e, frame) for e in node.values]
            except (PyExc, Unsupported):
                vals = None
            if vals is not None and any(is_sym(v) for v in vals) and all(is_sym(v) or isinstance(v, (bool, int)) for v in vals):
                bs = [sx.to_bool(v) for v in vals]
                return sx.And(*bs) if is_and else sx.Or(*bs)
        v = None
        for e in node.values:
            v = self.eval(e, frame)
            if e is node.values[-1]:
                return v
            t = self.truth(v)
            if is_and and not t:
                return v if not is_sym(v) else False
            if not is_and and t:
                return v if not is_sym(v) else True
        return v

    def ex_UnaryOp(self, node, frame):
        v = self.eval(node.operand, frame)
        if isinstance(node.op, ast.Not):
            if is_sym(v):
                return sx.Not(v)
            return not self.truth(v)
        if isinstance(node.op, ast.USub):
            return -v
        if isinstance(node.op, ast.UAdd):
            return +v
        if isinstance(node.op, ast.Invert):
            return -v - 1
        raise Unsupported('unary op')

    def ex_BinOp(self, node, frame):
        return self.binop(node.op, self.eval(node.left, frame), self.eval(node.right, frame), node, frame)

    def ex_Lambda(self, node, frame):
        fd = ast.FunctionDef(name='<lambda>', args=node.args, body=[ast.Return(value=node.body)], decorator_list=[], lineno=node.lineno, col_offset=node.col_offset)
        ast.fix_missing_locations(fd)
        fv = FuncVal(fd, frame.module, (frame.func.qualname if frame.func else frame.module.name) + '.<lambda>')
        fv.closure = frame
        return fv

    def _comp(self, gens, frame, emit):
        def rec(i):
            if i == len(gens):
                emit()
                return
            g = gens[i]
            for v in self.iterate(self.eval(g.iter, frame), g, frame):
                self.assign(g.target, v, frame)
                if all(self.truth(self.eval(c, frame)) for c in g.ifs):
                    rec(i + 1)
        rec(0)

    def ex_ListComp(self, node, frame):
        out = []
        self._comp(node.generators, frame, lambda: out.append(self.eval(node.elt, frame)))
        return out

    ex_GeneratorExp = ex_ListComp

    def ex_SetComp(self, node, frame):
        return set(self.ex_ListComp(node, frame))

    def ex_DictComp(self, node, frame):
        out = {}

        def emit():
            out[self.eval(node.key, frame)] = self.eval(node.value, frame)
        self._comp(node.generators, frame, emit)
        return out

    def ex_Yield(self, node, frame):
        v = self.eval(node.value, frame) if node.value is not None else None
        ys = frame.locals.get('__yields')
        if ys is None:
            raise Unsupported('yield outside modelled generator')
        ys.append(v)
        return None

    def ex_Starred(self, node, frame):
        raise Unsupported('starred expression')

    # ----- arithmetic -----
    def int_div(self, a, b, node, frame):
        """returns (q, r) with Python floor semantics"""
        if not is_sym(a) and not is_sym(b):
            if b == 0:
                self.raise_exc('ZeroDivisionError', 'division by zero', self.here(node, frame))
            return a // b, a % b
        if is_sym(b):
            if self.branch(b == 0):
                self.raise_exc('ZeroDivisionError', 'division by zero', self.here(node, frame))
            pos = self.branch(b > 0)
        else:
            if b == 0:
                self.raise_exc('ZeroDivisionError', 'division by zero', self.here(node, frame))
            pos = b > 0
        # floor division is a function: the same (dividend, divisor) terms always get the same quotient/remainder symbols
        cache = self.ctx.ghost.setdefault('div_cache', {})
        key = (a.get_id() if is_sym(a) else ('c', a), b.get_id() if is_sym(b) else ('c', b))
        if key in cache:
            return cache[key][2], cache[key][3]
        q = self.ctx.fresh_int('q')
        r = self.ctx.fresh_int('r')
        self.ctx.assume(sx.lift_int(a) == b * q + r)
        if pos:
            self.ctx.assume(z3.And(r >= 0, r < b))
        else:
            self.ctx.assume(z3.And(r <= 0, r > b))
        cache[key] = (a, b, q, r)
        return q, r

    def bitop(self, op, a, b, node, frame):
        # symbolic bit operations on non-negative ints
        if isinstance(op, ast.BitAnd):
            for x, y in ((a, b), (b, a)):
                if not is_sym(y) and isinstance(y, int) and y >= 0 and (y & (y + 1)) == 0:
                    # mask 2^k-1: x & mask == x mod 2^k (floor) for every int x
                    if is_sym(x) and self.ctx.entails(z3.And(x >= 0, x <= y)):
                        return x  # the mask is a no-op on this range
                    return self.int_div(x, y + 1, node, frame)[1]
            for x, y in ((a, b), (b, a)):
                if not is_sym(y) and isinstance(y, int) and y >= 0:
                    # general constant mask: decompose into runs of one-bits
                    tot = 0
                    bit = 0
                    yy = y
                    while yy:
                        if yy & 1:
                            lo = bit
                            while yy & 1:
                                yy >>= 1
                                bit += 1
                            width = bit - lo
                            q = self.int_div(x, 1 << lo, node, frame)[0]
                            tot = tot + self.int_div(q, 1 << width, node, frame)[1] * (1 << lo)
                        else:
                            yy >>= 1
                            bit += 1
                    return tot
        if isinstance(op, (ast.BitOr, ast.BitXor)):
            # disjoint bit ranges (x << k) | y with 0 <= y < 2^k: plain addition
            for x, y in ((a, b), (b, a)):
                for k in (4, 8, 12, 16, 24, 32):
                    lo_ok = (0 <= y < (1 << k)) if not is_sym(y) else self.ctx.entails(z3.And(y >= 0, y < (1 << k)))
                    if not lo_ok:
                        continue
                    if not is_sym(x):
                        hi_ok = x >= 0 and x % (1 << k) == 0
                    else:
                        r = self.int_div(x, 1 << k, node, frame)[1]
                        hi_ok = self.ctx.entails(z3.And(x >= 0, r == 0))
                    if hi_ok:
                        return x + y
        w = self.ctx.ghost.get('bitwidth', 64)
        rng = 1 << w
        for x in (a, b):
            if is_sym(x):
                self.ctx.oblige('bitop-range@%s' % self.here(node, frame), z3.And(x >= 0, x < rng), {'kind': 'safety'})
            elif x < 0 or x >= rng:
                raise Unsupported('bit operation on negative/huge constant')
        xa = z3.Int2BV(sx.lift_int(a), w)
        xb = z3.Int2BV(sx.lift_int(b), w)
        if isinstance(op, ast.BitAnd):
            r = xa & xb
        elif isinstance(op, ast.BitOr):
            r = xa | xb
        else:
            r = xa ^ xb
        return z3.BV2Int(r, False)

    def format_text(self, fmt, args):
        """'%s%.03d.%s' % (...) computed exactly when every conversion is %s of (symbolic) text or an integer conversion of a
        concrete int; None otherwise (the caller then produces an opaque message text)"""
        import re as _re
        from .stdlib import SStr, cps, mk_str
        out = []
        pos = 0
        k = 0
        for m in _re.finditer(r'%(?:%|([-0 +#]*\d*(?:\.\d+)?[sdiuxX]))', fmt):
            out += [ord(ch) for ch in fmt[pos:m.start()]]
            pos = m.end()
            if m.group(0) == '%%':
                out.append(37)
                continue
            if k >= len(args):
                return None
            arg = args[k]
            k += 1
            spec = m.group(1)
            if spec[-1] == 's':
                if spec != 's' or not isinstance(arg, (str, SStr)):
                    return None
                out += cps(arg)
            else:
                if is_sym(arg) or not isinstance(arg, int):
                    return None
                out += [ord(ch) for ch in ('%' + spec) % arg]
        if k != len(args) or '%' in _re.sub(r'%(?:%|[-0 +#]*\d*(?:\.\d+)?[sdiuxX])', '', fmt):
            return None
        out += [ord(ch) for ch in fmt[pos:]]
        return mk_str(out)

    def binop(self, op, a, b, node, frame, inplace=False):
        if isinstance(a, Lazy) or isinstance(b, Lazy):
            raise Unsupported((a if isinstance(a, Lazy) else b).why)
        from .stdlib import SStr, cps, mk_str
        if isinstance(a, SStr) or isinstance(b, SStr):
            if isinstance(op, ast.Add) and isinstance(a, (str, SStr)) and isinstance(b, (str, SStr)):
                return mk_str(cps(a) + cps(b))
            if isinstance(op, ast.Mult):
                t, n = (a, b) if isinstance(a, SStr) else (b, a)
                if is_sym(n):
                    raise Unsupported('symbolic text repeated a symbolic number of times')
                return mk_str(cps(t) * max(0, n))
            if isinstance(op, ast.Mod) and isinstance(a, str):
                exact = self.format_text(a, (b,))
                if exact is not None:
                    return exact
            raise Unsupported('operator %s on symbolic text at %s' % (type(op).__name__, self.here(node, frame)))
        a_b = V.is_bytes(a)
        b_b = V.is_bytes(b)
        if a_b or b_b:
            return self.bytes_binop(op, a, b, node, frame, inplace)
        if isinstance(a, Obj) or isinstance(b, Obj):
            raise Unsupported('operator on objects at %s' % self.here(node, frame))
        if isinstance(a, str) and isinstance(op, ast.Mod):
            from .stdlib import has_sym
            if has_sym(b) or (isinstance(b, tuple) and any(has_sym(x) for x in b)):
                exact = self.format_text(a, b if isinstance(b, tuple) else (b,))
                if exact is not None:
                    return exact
                return '<message formatted from symbolic values>'
        if isinstance(a, V.ABytes) or isinstance(b, V.ABytes):
            raise Unsupported('operator on symbolic-length bytes at %s' % self.here(node, frame))
        if sx.is_bv(a) or sx.is_bv(b):
            return self.bv_binop(op, a, b, node, frame)
        sym = is_sym(a) or is_sym(b)
        if not sym:
            try:
                return self.native_binop(op, a, b)
            except ZeroDivisionError:
                self.raise_exc('ZeroDivisionError', 'division by zero', self.here(node, frame))
            except TypeError as e:
                self.raise_exc('TypeError', str(e), self.here(node, frame))
        # symbolic integer arithmetic
        for x in (a, b):
            if not is_sym(x) and not isinstance(x, (int, bool)):
                if isinstance(x, float) and float(x).is_integer() and False:
                    pass
                raise Unsupported('symbolic arithmetic with %s at %s' % (type(x).__name__, self.here(node, frame)))
        if is_sym(a) and z3.is_bool(a):
            a = z3.If(a, 1, 0)
        if is_sym(b) and z3.is_bool(b):
            b = z3.If(b, 1, 0)
        if isinstance(a, bool):
            a = int(a)
        if isinstance(b, bool):
            b = int(b)
        if isinstance(op, ast.Add):
            return a + b
        if isinstance(op, ast.Sub):
            return a - b
        if isinstance(op, ast.Mult):
            return a * b
        if isinstance(op, ast.FloorDiv):
            return self.int_div(a, b, node, frame)[0]
        if isinstance(op, ast.Mod):
            return self.int_div(a, b, node, frame)[1]
        if isinstance(op, ast.LShift):
            if is_sym(b):
                raise Unsupported('symbolic shift amount')
            return a * (1 << b)
        if isinstance(op, ast.RShift):
            if is_sym(b):
                raise Unsupported('symbolic shift amount')
            return self.int_div(a, 1 << b, node, frame)[0]
        if isinstance(op, (ast.BitAnd, ast.BitOr, ast.BitXor)):
            return self.bitop(op, a, b, node, frame)
        if isinstance(op, ast.Pow):
            if not is_sym(b) and isinstance(b, int) and 0 <= b <= 8:
                r = 1
                for _ in range(b):
                    r = r * a
                return r
            raise Unsupported('symbolic power')
        if isinstance(op, ast.Div):
            raise Unsupported('true division on symbolic ints at %s' % self.here(node, frame))
        raise Unsupported('binop %s' % type(op).__name__)

    def bv_binop(self, op, a, b, node, frame):
        """Bit-vector mode (CRC-style code): values are unsigned 64-bit vectors that are proved never to
        lose bits: only ^ & | >> << are allowed, and << carries a no-overflow obligation."""
        w = (a if sx.is_bv(a) else b).size()

        def lift(x):
            if sx.is_bv(x):
                return x
            if is_sym(x):
                if z3.is_bool(x):
                    x = z3.If(x, 1, 0)
                self.ctx.oblige('bv-range@%s' % self.here(node, frame), z3.And(x >= 0, x < (1 << (w - 1))), {'kind': 'safety'})
                return z3.Int2BV(x, w)
            if isinstance(x, bool):
                x = int(x)
            if not isinstance(x, int) or x < 0 or x >= (1 << w):
                raise Unsupported('bit-vector op with %r' % (x,))
            return z3.BitVecVal(x, w)
        if isinstance(op, (ast.LShift, ast.RShift)):
            if is_sym(b):
                raise Unsupported('symbolic shift amount')
            if isinstance(op, ast.RShift):
                return z3.LShR(lift(a), b)
            la = lift(a)
            self.ctx.oblige('bv-shl-no-overflow@%s' % self.here(node, frame), z3.LShR(la, w - b) == 0, {'kind': 'safety'})
            return la << b
        la, lb = lift(a), lift(b)
        if isinstance(op, ast.BitXor):
            return la ^ lb
        if isinstance(op, ast.BitAnd):
            return la & lb
        if isinstance(op, ast.BitOr):
            return la | lb
        raise Unsupported('operator %s on bit-vector values at %s' % (type(op).__name__, self.here(node, frame)))

    @staticmethod
    def native_binop(op, a, b):
        import operator as o
        table = {ast.Add: o.add, ast.Sub: o.sub, ast.Mult: o.mul, ast.FloorDiv: o.floordiv, ast.Mod: o.mod,
                 ast.LShift: o.lshift, ast.RShift: o.rshift, ast.BitAnd: o.and_, ast.BitOr: o.or_,
                 ast.BitXor: o.xor, ast.Pow: o.pow, ast.Div: o.truediv, ast.MatMult: o.matmul}
        if isinstance(a, list) and isinstance(op, ast.Add) and isinstance(b, list):
            return a + b
        return table[type(op)](a, b)

    def bytes_binop(self, op, a, b, node, frame, inplace):
        if isinstance(op, ast.Add):
            if not (V.is_bytes(a) and V.is_bytes(b)):
                self.raise_exc('TypeError', 'cannot concat bytes and non-bytes', self.here(node, frame))
            mut = isinstance(a, bytearray) or (isinstance(a, SBytes) and a.mutable)
            if inplace and mut and isinstance(a, SBytes):
                a.items.extend(V.items_of(b))
                return a
            if inplace and isinstance(a, bytearray) and not isinstance(b, SBytes):
                a += b
                return a
            return V.mk_bytes(V.items_of(a) + V.items_of(b), mut)
        if isinstance(op, ast.Mult):
            if V.is_bytes(b):
                a, b = b, a
            if is_sym(b) and self.ctx.entails(z3.And(b >= 0, b <= 16)):
                # small repetition count: case split
                for k in range(0, 17):
                    if k == 16 or self.branch(b == k):
                        b = k
                        break
            if is_sym(b):
                ia = V.items_of(a)
                if len(ia) == 1 and not is_sym(ia[0]):
                    # one constant byte repeated a symbolic number of times: symbolic-length constant string
                    n = z3.If(b < 0, 0, b)
                    return V.ABytes(z3.K(z3.IntSort(), z3.IntVal(ia[0])), 0, n)
                raise Unsupported('byte string repeated a symbolic number of times at %s' % self.here(node, frame))
            mut = isinstance(a, bytearray) or (isinstance(a, SBytes) and a.mutable)
            return V.mk_bytes(V.items_of(a) * max(0, b), mut)
        if isinstance(op, ast.Mod) and isinstance(a, (bytes, bytearray)):
            if is_sym(b) or isinstance(b, SBytes):
                raise Unsupported('bytes %% symbolic')
            return a % b
        raise Unsupported('bytes operator %s' % type(op).__name__)

    # ----- comparison -----
    def ex_Compare(self, node, frame):
        left = self.eval(node.left, frame)
        result = None
        for op, rn in zip(node.ops, node.comparators):
            right = self.eval(rn, frame)
            r = self.compare(op, left, right, node, frame)
            if result is None:
                result = r
            else:
                result = sx.And(result, r)
            if not is_sym(result) and not result:
                return False
            left = right
        return result

    def compare(self, op, a, b, node, frame):
        if isinstance(a, Lazy) or isinstance(b, Lazy):
            raise Unsupported((a if isinstance(a, Lazy) else b).why)
        if isinstance(op, ast.Is):
            return self.identical(a, b)
        if isinstance(op, ast.IsNot):
            return not self.identical(a, b)
        if isinstance(op, (ast.In, ast.NotIn)):
            r = self.contains(b, a, node, frame)
            return r if isinstance(op, ast.In) else sx.Not(r)
        if isinstance(op, ast.Eq):
            return self.equals(a, b, node, frame)
        if isinstance(op, ast.NotEq):
            if isinstance(a, Obj) and a.cls.lookup('__ne__') is not None:
                return self.call(BoundMethod(a, a.cls.lookup('__ne__')), [b], {})
            return sx.Not(self.equals(a, b, node, frame))
        # ordering
        if isinstance(a, Obj):
            name = {ast.Lt: '__lt__', ast.Gt: '__gt__', ast.LtE: '__le__', ast.GtE: '__ge__'}[type(op)]
            m = a.cls.lookup(name)
            if m is not None:
                return self.call(BoundMethod(a, m), [b], {})
            raise Unsupported('ordering on %s' % a.cls.name)
        if V.is_bytes(a) and V.is_bytes(b):
            return self.bytes_order(op, a, b)
        if sx.is_bv(a) or sx.is_bv(b):
            w = (a if sx.is_bv(a) else b).size()
            la = a if sx.is_bv(a) else (z3.Int2BV(a, w) if is_sym(a) else z3.BitVecVal(a, w))
            lb = b if sx.is_bv(b) else (z3.Int2BV(b, w) if is_sym(b) else z3.BitVecVal(b, w))
            return {ast.Lt: z3.ULT, ast.LtE: z3.ULE, ast.Gt: z3.UGT, ast.GtE: z3.UGE}[type(op)](la, lb)
        if is_sym(a) or is_sym(b):
            for x in (a, b):
                if not is_sym(x) and not isinstance(x, (int, bool)):
                    raise Unsupported('ordering of symbolic value against %s' % type(x).__name__)
            a2 = z3.If(a, 1, 0) if is_sym(a) and z3.is_bool(a) else a
            b2 = z3.If(b, 1, 0) if is_sym(b) and z3.is_bool(b) else b
            if isinstance(op, ast.Lt):
                return a2 < b2
            if isinstance(op, ast.LtE):
                return a2 <= b2
            if isinstance(op, ast.Gt):
                return a2 > b2
            return a2 >= b2
        try:
            if isinstance(op, ast.Lt):
                return a < b
            if isinstance(op, ast.LtE):
                return a <= b
            if isinstance(op, ast.Gt):
                return a > b
            return a >= b
        except TypeError as e:
            self.raise_exc('TypeError', str(e), self.here(node, frame))

    def bytes_order(self, op, a, b):
        ia, ib = V.items_of(a), V.items_of(b)
        if all(not is_sym(x) for x in ia) and all(not is_sym(x) for x in ib):
            ba, bb = bytes(ia), bytes(ib)
            return {ast.Lt: ba < bb, ast.LtE: ba <= bb, ast.Gt: ba > bb, ast.GtE: ba >= bb}[type(op)]
        # lexicographic: build formula lt(a,b)
        def lt(i):
            if i >= len(ia) or i >= len(ib):
                return len(ia) < len(ib)
            return sx.Or(sx.lift_int(ia[i]) < sx.lift_int(ib[i]), sx.And(sx.Eq(ia[i], ib[i]), lt(i + 1)))
        less = lt(0)
        eq = V.bytes_eq(a, b)
        if isinstance(op, ast.Lt):
            return less
        if isinstance(op, ast.LtE):
            return sx.Or(less, eq)
        if isinstance(op, ast.Gt):
            return sx.Not(sx.Or(less, eq))
        return sx.Not(less)

    def identical(self, a, b):
        if a is None or b is None:
            return a is b
        if is_sym(a) or is_sym(b):
            if isinstance(a, bool) or isinstance(b, bool):
                return sx.Eq(a, b)
            raise Unsupported('identity test on symbolic value')
        if isinstance(a, bool) and isinstance(b, bool):
            return a == b
        return a is b

    def equals(self, a, b, node=None, frame=None):
        if isinstance(a, Obj):
            m = a.cls.lookup('__eq__')
            if m is not None:
                return self.call(BoundMethod(a, m), [b], {})
            return a is b
        if isinstance(b, Obj):
            return a is b
        if a is None or b is None:
            return a is b
        from .stdlib import SStr, str_eq
        if isinstance(a, SStr) or isinstance(b, SStr):
            return str_eq(a, b)
        if isinstance(a, V.ABytes) or isinstance(b, V.ABytes):
            return V.abytes_eq(a, b)
        if V.is_bytes(a) or V.is_bytes(b):
            if isinstance(a, str) or isinstance(b, str):
                return False
            return V.bytes_eq(a, b)
        if isinstance(a, (tuple, list)) and isinstance(b, (tuple, list)):
            if type(a) is not type(b) or len(a) != len(b):
                return False
            return sx.And(*[self.equals(x, y, node, frame) for x, y in zip(a, b)]) if a else True
        if is_sym(a) or is_sym(b):
            other = b if is_sym(a) else a
            if not is_sym(other) and not isinstance(other, (int, bool)):
                if isinstance(other, float):
                    if float(other).is_integer():
                        return sx.Eq(a if is_sym(a) else int(a), b if is_sym(b) else int(b))
                    return False
                return False
            return sx.Eq(a, b)
        if isinstance(a, (ClassInfo, FuncVal, ModuleVal)) or isinstance(b, (ClassInfo, FuncVal, ModuleVal)):
            return a is b
        return a == b

    def contains(self, container, item, node, frame):
        if hasattr(container, '_pyvc_contains'):
            return container._pyvc_contains(self, item)
        if isinstance(container, (tuple, list, set, frozenset)):
            if not is_sym(item) and not isinstance(item, (SBytes, Obj)) and all(not is_sym(x) and not isinstance(x, (SBytes, Obj)) for x in container):
                return item in container
            return sx.Or(*[self.equals(item, x, node, frame) for x in container]) if container else False
        if isinstance(container, dict):
            if is_sym(item):
                return sx.Or(*[sx.Eq(item, k) for k in container.keys() if isinstance(k, int)]) if container else False
            if isinstance(item, (SBytes,)):
                raise Unsupported('symbolic bytes as dict key')
            return item in container
        if isinstance(container, (str,)):
            if is_sym(item) or isinstance(item, SBytes):
                raise Unsupported('symbolic in str')
            return item in container
        if V.is_bytes(container):
            items = V.items_of(container)
            if is_sym(item) or isinstance(item, int):
                if all(not is_sym(x) for x in items) and not is_sym(item):
                    return item in bytes(items)
                return sx.Or(*[sx.Eq(item, x) for x in items]) if items else False
            sub = V.items_of(item)
            if all(not is_sym(x) for x in items) and all(not is_sym(x) for x in sub):
                return bytes(sub) in bytes(items)
            n, m = len(items), len(sub)
            if m == 0:
                return True
            return sx.Or(*[sx.And(*[sx.Eq(items[i + j], sub[j]) for j in range(m)]) for i in range(0, n - m + 1)]) if n >= m else False
        if isinstance(container, range):
            if is_sym(item):
                if container.step == 1:
                    return sx.And(item >= container.start, item < container.stop)
                raise Unsupported('symbolic in stepped range')
            return item in container
        if hasattr(container, '_pyvc_contains'):
            return container._pyvc_contains(self, item)
        import collections
        if isinstance(container, collections.deque):
            return self.contains(list(container), item, node, frame)
        raise Unsupported('membership test on %s' % type(container).__name__)

    # ----- attribute / subscript / call -----
    def ex_Attribute(self, node, frame):
        return self.getattr(self.eval(node.value, frame), node.attr, node, frame)

    def getattr(self, o, name, node=None, frame=None):
        if isinstance(o, Lazy):
            raise Unsupported(o.why)
        if isinstance(o, Obj):
            if name in o.fields:
                return o.fields[name]
            v = o.cls.lookup(name)
            if v is None:
                if name == '__class__':
                    return o.cls
                self.raise_exc('AttributeError', "'%s' object has no attribute '%s'" % (o.cls.name, name), self.here(node, frame) if node is not None else None)
            if isinstance(v, FuncVal):
                if v.kind == 'staticmethod':
                    return v
                if v.kind == 'classmethod':
                    return BoundMethod(o.cls, v)
                if v.kind == 'property':
                    return self.call(BoundMethod(o, v), [], {})
                return BoundMethod(o, v)
            if isinstance(v, Builtin) and getattr(v, 'is_method', False):
                return BoundMethod(o, v)
            if isinstance(v, Lazy):
                raise Unsupported(v.why)
            return v
        if isinstance(o, ModuleVal):
            if name in o.ns:
                v = o.ns[name]
                if isinstance(v, Lazy):
                    raise Unsupported(v.why)
                return v
            if o.name == 'pycdlib':
                return self.loader.load('pycdlib.' + name)
            raise Unsupported('module %s has no modelled attribute %s' % (o.name, name))
        if isinstance(o, ClassInfo):
            v = o.lookup(name)
            if v is None:
                if name == '__name__':
                    return o.name
                self.raise_exc('AttributeError', 'class %s has no attribute %s' % (o.name, name))
            if isinstance(v, FuncVal) and v.kind == 'classmethod':
                return BoundMethod(o, v)
            if isinstance(v, Lazy):
                raise Unsupported(v.why)
            return v
        if hasattr(o, '_pyvc_getattr'):
            return o._pyvc_getattr(self, name)
        from . import stdlib
        return stdlib.native_attr(self, o, name, node, frame)

    def eval_index(self, sl, frame):
        if isinstance(sl, ast.Slice):
            lo = self.eval(sl.lower, frame) if sl.lower is not None else None
            hi = self.eval(sl.upper, frame) if sl.upper is not None else None
            st = self.eval(sl.step, frame) if sl.step is not None else None
            return slice(lo, hi, st)
        return self.eval(sl, frame)

    def ex_Subscript(self, node, frame):
        o = self.eval(node.value, frame)
        idx = self.eval_index(node.slice, frame)
        return self.subscript(o, idx, node, frame)

    def concretize_slice(self, sl, n, node, frame):
        """Slices with symbolic bounds over a concrete-length sequence are case split."""
        def fix(x, default):
            if x is None:
                return None
            if is_sym(x):
                for k in range(-n - 1, n + 2):
                    if k == -n - 1:
                        if self.branch(x <= k):
                            return k
                    elif k == n + 1:
                        return k
                    elif self.branch(x == k):
                        return k
            return x
        if is_sym(sl.start) or is_sym(sl.stop) or is_sym(sl.step):
            if is_sym(sl.step):
                raise Unsupported('symbolic slice step')
            return slice(fix(sl.start, 0), fix(sl.stop, n), sl.step)
        return sl

    def subscript(self, o, idx, node, frame):
        if isinstance(o, Lazy):
            raise Unsupported(o.why)
        if hasattr(o, '_pyvc_getitem'):
            return o._pyvc_getitem(self, idx, node, frame)
        if isinstance(o, dict):
            return o[self.dict_key(o, idx, node, frame)]
        if sx.is_bv(idx) and isinstance(o, (list, tuple)) and all(isinstance(x, int) for x in o):
            w = idx.size()
            if not self.branch(z3.ULT(idx, len(o))):
                self.raise_exc('IndexError', 'index out of range', self.here(node, frame))
            cache = self.ctx.ghost.setdefault('bv_tables', {})
            key = (id(o), w)
            if key not in cache:
                arr = z3.K(z3.BitVecSort(w), z3.BitVecVal(0, w))
                for i, x in enumerate(o):
                    arr = z3.Store(arr, z3.BitVecVal(i, w), z3.BitVecVal(x, w))
                cache[key] = (o, arr)
            return z3.Select(cache[key][1], idx)
        if isinstance(o, (list, tuple, str, bytes, bytearray, SBytes, range)):
            n = len(o)
            if isinstance(idx, slice):
                idx = self.concretize_slice(idx, n, node, frame)
                try:
                    return o[idx]
                except (TypeError, ValueError) as e:
                    self.raise_exc(type(e).__name__, str(e), self.here(node, frame))
            return o[self.concrete_index(idx, n, node, frame)]
        import collections
        if isinstance(o, collections.deque):
            return o[self.concrete_index(idx, len(o), node, frame)]
        raise Unsupported('subscript on %s at %s' % (type(o).__name__, self.here(node, frame)))

    def ex_Call(self, node, frame):
        fn = self.eval(node.func, frame)
        args = []
        for a in node.args:
            if isinstance(a, ast.Starred):
                args.extend(self.iterate(self.eval(a.value, frame), a, frame))
            else:
                args.append(self.eval(a, frame))
        kwargs = {}
        for k in node.keywords:
            if k.arg is None:
                kwargs.update(self.eval(k.value, frame))
            else:
                kwargs[k.arg] = self.eval(k.value, frame)
        self.site_stack.append(self.here(node, frame))
        try:
            return self.call(fn, args, kwargs)
        finally:
            self.site_stack.pop()

    def instantiate(self, cls, args, kwargs):
        o = Obj(cls)
        init = cls.lookup('__init__')
        if isinstance(init, FuncVal):
            self.call(BoundMethod(o, init), args, kwargs)
        elif isinstance(init, Builtin):
            init.fn(self, o, *args, **kwargs)
        elif args or kwargs:
            self.raise_exc('TypeError', '%s() takes no arguments' % cls.name)
        return o

    def call(self, fn, args, kwargs):
        if isinstance(fn, Lazy):
            raise Unsupported(fn.why)
        if isinstance(fn, BoundMethod):
            if isinstance(fn.func, Builtin):
                return fn.func.fn(self, fn.obj, *args, **kwargs)
            return self.call_function(fn.func, [fn.obj] + list(args), kwargs)
        if isinstance(fn, FuncVal):
            return self.call_function(fn, list(args), kwargs)
        if isinstance(fn, ClassInfo):
            return self.instantiate(fn, args, kwargs)
        if isinstance(fn, Builtin):
            if fn.wants_interp:
                return fn.fn(self, *args, **kwargs)
            return fn.fn(*args, **kwargs)
        if isinstance(fn, type) or callable(fn):
            from . import stdlib
            return stdlib.call_native(self, fn, args, kwargs)
        raise Unsupported('call of %r' % (fn,))

    def call_function(self, fv, args, kwargs):
        hook = self.call_hooks.get(fv.qualname)
        if hook is not None:
            return hook(self, fv, args, kwargs)
        self.depth += 1
        if self.depth > MAX_CALL_DEPTH:
            self.depth -= 1
            raise Incomplete('call depth bound (recursion?) at %s' % fv.qualname)
        try:
            self.inlined.add(fv.qualname)
            locs = self.bind_args(fv, args, kwargs)
            frame = Frame(fv, fv.module, locs)
            if _has_yield(fv.node):
                locs['__yields'] = []
                try:
                    self.exec_block(fv.node.body, frame)
                except ReturnSig:
                    pass
                return locs['__yields']
            try:
                self.exec_block(fv.node.body, frame)
            except ReturnSig as r:
                return r.value
            return None
        finally:
            self.depth -= 1

    def run_fragment(self, frag):
        """execute the selected loop body of a real function once, free variables taken from frag.env"""
        from .contract import find_loop
        fv = self.loader.find_function(frag.func)
        node = find_loop(fv.node, frag.selector)
        frame = Frame(fv, fv.module, dict(frag.env))
        self.inlined.add(fv.qualname + '<fragment>')
        try:
            self.exec_block(node.body, frame)
        except ContinueSig:
            pass
        except BreakSig:
            pass
        except ReturnSig:
            # the fragment leaves the enclosing function: an outcome of its own ('FragmentReturn'), which a step contract must
            # name among its allowed raises if it is legitimate - otherwise the step lemma's frame (falls through) is broken
            self.raise_exc('FragmentReturn', 'the extracted statements executed a return of the enclosing function')
        return frame.locals

    def bind_args(self, fv, args, kwargs):
        a = fv.node.args
        params = [p.arg for p in getattr(a, 'posonlyargs', [])] + [p.arg for p in a.args]
        locs = {}
        args = list(args)
        if len(args) > len(params) and a.vararg is None:
            self.raise_exc('TypeError', '%s() takes %d positional arguments but %d were given' % (fv.qualname, len(params), len(args)))
        for p, v in zip(params, args):
            locs[p] = v
        if a.vararg is not None:
            locs[a.vararg.arg] = tuple(args[len(params):])
        kw = dict(kwargs)
        for p in params[len(args):]:
            if p in kw:
                locs[p] = kw.pop(p)
        for p in a.kwonlyargs:
            if p.arg in kw:
                locs[p.arg] = kw.pop(p.arg)
        if a.kwarg is not None:
            locs[a.kwarg.arg] = kw
            kw = {}
        if kw:
            dup = [k for k in kw if k in locs]
            self.raise_exc('TypeError', '%s() got unexpected/multiple keyword argument %s' % (fv.qualname, list(kw)))
        # defaults
        dframe = Frame(None, fv.module, {})
        ndef = len(a.defaults)
        for i, d in enumerate(a.defaults):
            p = params[len(params) - ndef + i]
            if p not in locs:
                locs[p] = self.eval(d, dframe)
        for p, d in zip(a.kwonlyargs, a.kw_defaults):
            if p.arg not in locs and d is not None:
                locs[p.arg] = self.eval(d, dframe)
        for p in params:
            if p not in locs:
                self.raise_exc('TypeError', '%s() missing argument %s' % (fv.qualname, p))
        return locs
