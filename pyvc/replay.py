"""Replay of a counter-model (or a sample) against the REAL code.

Run as:  PYTHONPATH=/repo:/verif /venv/bin/python -m pyvc.replay <request.json>
The request names a contract class, its instance parameters and the input values.
The real function is called on real objects and the *same* contract clauses are
evaluated on what it really did.  Prints one JSON object.
"""
import importlib
import json
import sys
import traceback


def jsonable(v, depth=0):
    if depth > 4:
        return '<deep>'
    if v is None or isinstance(v, (bool, int, str, float)):
        return v
    if isinstance(v, (bytes, bytearray)):
        if len(v) > 8192:
            import hashlib
            return {'bytes_len': len(v), 'sha256': hashlib.sha256(bytes(v)).hexdigest()}
        return {'bytes': list(v)}
    if isinstance(v, (list, tuple)):
        return [jsonable(x, depth + 1) for x in v]
    if isinstance(v, dict):
        return {str(k): jsonable(x, depth + 1) for k, x in v.items()}
    if hasattr(v, '__slots__') or hasattr(v, '__dict__'):
        fields = {}
        names = []
        for k in type(v).__mro__:
            names.extend(getattr(k, '__slots__', ()))
        names.extend(getattr(v, '__dict__', {}).keys())
        for n in names:
            if hasattr(v, n):
                fields[n] = jsonable(getattr(v, n), depth + 1)
        return {'obj': type(v).__name__, 'fields': dict(sorted(fields.items()))}
    return '<%s>' % type(v).__name__


def run(req):
    from pyvc.contract import ConcCtx, Outcome, resolve_real
    mod = importlib.import_module(req['module'])
    kcls = getattr(mod, req['class'])
    K = kcls()
    for k, v in (req.get('params') or {}).items():
        setattr(K, k, v)
    K.P = req.get('params') or {}
    c = ConcCtx(req['values'])
    try:
        call = K.setup(c)
    except Exception as e:  # noqa
        names = [k.__name__ for k in type(e).__mro__]
        if any(n in names for n in getattr(K, 'setup_may_raise', ())):
            return {'pre_ok': False, 'setup_raised': type(e).__name__}
        return {'pre_ok': True, 'setup_raised': type(e).__name__, 'failed': ['setup-raises-only'], 'clauses': {'setup-raises-only': False},
                'traceback': traceback.format_exc()[-1500:]}
    out = {'pre_ok': c.pre_ok, 'missing_inputs': c.missing}
    if not c.pre_ok:
        return out
    from pyvc.contract import Fragment, real_fragment
    if isinstance(call.fn, Fragment):
        fn = real_fragment(call.fn)
        args = []
        call.kwargs = {}
    elif hasattr(K, 'real_call'):
        fn = lambda *a, **k: K.real_call(c, call)  # noqa
        args = []
    else:
        fn = resolve_real(K.target)
        args = ([call.self_obj] if call.self_obj is not None else []) + list(call.args)
    patched = []
    for qual, repl in (getattr(K, 'real_hooks', None) or {}).items():
        import importlib as _il
        parts = qual.split('.')
        owner = None
        for i in range(len(parts) - 1, 0, -1):
            try:
                owner = _il.import_module('.'.join(parts[:i]))
                rest = parts[i:]
                break
            except ImportError:
                continue
        for pth in rest[:-1]:
            owner = getattr(owner, pth)
        patched.append((owner, rest[-1], getattr(owner, rest[-1])))
        setattr(owner, rest[-1], repl)
    try:
        res = fn(*args, **call.kwargs)
        if hasattr(res, '__next__'):
            res = list(res)
        oc = Outcome('return', result=res)
    except BaseException as e:  # noqa
        def qn(k):
            return k.__name__ if k.__module__ in ('builtins', 'exceptions') or k.__module__.startswith('pycdlib') or k.__module__.startswith('pyvc') else k.__module__ + '.' + k.__name__
        oc = Outcome('raise', exc=qn(type(e)))
        oc.exc_obj = e
        oc.exc_names = [qn(k) for k in type(e).__mro__]
        out['traceback'] = traceback.format_exc()[-1500:]
    for owner, name, orig in patched:
        setattr(owner, name, orig)
    out['outcome'] = {'kind': oc.kind, 'exc': oc.exc, 'result': jsonable(oc.result)}
    failed = []
    clauses = {}
    a = c.a
    if oc.kind == 'return':
        posts = dict(K.post(c, a, oc) or {})
        if K.P.get('_canary'):
            posts['canary'] = False
        for name, cl in posts.items():
            clauses['post:' + name] = bool(cl)
        for ename, cond in (K.raises(c, a) or {}).items():
            if cond is not None:
                clauses['must-raise:' + ename] = not bool(cond)
    else:
        spec = K.raises(c, a) or {}
        matched = None
        for ename in spec:
            if ename in oc.exc_names or ename.split('.')[-1] in oc.exc_names:
                matched = ename
                break
        if matched is None:
            clauses['raises-only'] = False
        else:
            if spec[matched] is not None:
                clauses['raises-only:' + matched] = bool(spec[matched])
            for name, cl in (K.post_raise(c, a, oc) or {}).items():
                clauses['post-raise:' + name] = bool(cl)
    out['clauses'] = clauses
    out['failed'] = sorted(k for k, v in clauses.items() if not v)
    if hasattr(K, 'observe'):
        out['observation'] = jsonable(K.observe(c, a, oc))
    else:
        obs = {'kind': oc.kind, 'exc': oc.exc, 'result': jsonable(oc.result)}
        if call.self_obj is not None:
            obs['self'] = jsonable(call.self_obj)
        out['observation'] = obs
    return out


def run_one(req):
    import os
    import time
    env = req.get('env') or {}
    saved = {k: os.environ.get(k) for k in env}
    os.environ.update(env)
    if 'TZ' in env:
        time.tzset()
    try:
        return run(req)
    except BaseException:  # noqa
        return {'harness_error': traceback.format_exc()}
    finally:
        for k, v in saved.items():
            if v is None:
                os.environ.pop(k, None)
            else:
                os.environ[k] = v
        if 'TZ' in env:
            time.tzset()


def main():
    with open(sys.argv[1]) as f:
        req = json.load(f)
    if isinstance(req, list):
        out = [run_one(r) for r in req]
    else:
        out = run_one(req)
    json.dump(out, sys.stdout)
    sys.stdout.write('\n')


if __name__ == '__main__':
    main()
