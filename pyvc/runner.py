"""Property-level driver: runs units in a killable process pool, replays counter-models on the
real code, applies known findings, writes evidence, decides the exit code.

Exit codes: 0 every obligation discharged (known findings printed); 1 violation;
2 undecided (unknown / timeout / out of subset / exploration bound); 3 checker error
(crash, vacuous unit, canary not refuted, counter-model that does not replay on a replayable contract).
"""
import importlib
import json
import multiprocessing as mp
import os
import subprocess
import sys
import time
import traceback

from . import verify
from .verify import Unit

VERIF = os.path.dirname(os.path.dirname(os.path.abspath(__file__)))
REPO = os.environ.get('PYVC_REPO', '/repo')
REAL_PY = '/venv/bin/python'
# results about a scratch copy (mutation self-test) never overwrite the evidence about /repo
OUT = VERIF if os.path.realpath(REPO) == '/repo' else os.path.join(REPO, '.pyvc-out')


def _worker(conn, unit, repo, opts):
    try:
        r = verify.verify_unit(unit, repo, opts)
    except BaseException:  # noqa
        r = {'unit': unit.name, 'target': unit.kcls.target, 'prop': unit.prop, 'vcs': [], 'paths': 0, 'error': traceback.format_exc(),
             'incomplete': None, 'out_of_subset': None, 'inlined': [], 'covers': {}, 'solver_s': 0.0, 'wall_s': 0}
    try:
        conn.send(r)
    except BaseException:  # noqa
        conn.send({'unit': unit.name, 'target': unit.kcls.target, 'prop': unit.prop, 'vcs': [], 'paths': 0, 'error': 'result not picklable: ' + traceback.format_exc(),
                   'incomplete': None, 'out_of_subset': None, 'inlined': [], 'covers': {}, 'solver_s': 0.0, 'wall_s': 0})
    conn.close()


def run_units(units, opts, jobs=None):
    jobs = jobs or int(os.environ.get('PYVC_JOBS', '16'))
    unit_timeout = opts.get('unit_timeout_s', 300)
    ctx = mp.get_context('fork')
    pending = list(enumerate(units))
    running = {}
    results = [None] * len(units)
    while pending or running:
        while pending and len(running) < jobs:
            i, u = pending.pop(0)
            pc, cc = ctx.Pipe(duplex=False)
            p = ctx.Process(target=_worker, args=(cc, u, REPO, opts))
            p.daemon = True
            p.start()
            cc.close()
            running[i] = (p, pc, time.time(), u)
        done = []
        for i, (p, pc, t0, u) in running.items():
            if pc.poll(0.01):
                try:
                    results[i] = pc.recv()
                except EOFError:
                    results[i] = {'unit': u.name, 'target': u.kcls.target, 'prop': u.prop, 'vcs': [], 'paths': 0, 'error': 'worker died',
                                  'incomplete': None, 'out_of_subset': None, 'inlined': [], 'covers': {}, 'solver_s': 0.0, 'wall_s': 0}
                p.join(1)
                done.append(i)
            elif not p.is_alive():
                if pc.poll(0.2):
                    results[i] = pc.recv()
                else:
                    results[i] = {'unit': u.name, 'target': u.kcls.target, 'prop': u.prop, 'vcs': [], 'paths': 0, 'error': 'worker exited with %s' % p.exitcode,
                                  'incomplete': None, 'out_of_subset': None, 'inlined': [], 'covers': {}, 'solver_s': 0.0, 'wall_s': 0}
                done.append(i)
            elif time.time() - t0 > unit_timeout:
                p.terminate()
                p.join(2)
                if p.is_alive():
                    p.kill()
                results[i] = {'unit': u.name, 'target': u.kcls.target, 'prop': u.prop, 'vcs': [], 'paths': 0, 'error': None,
                              'incomplete': 'unit wall-clock limit %ds (killed)' % unit_timeout, 'out_of_subset': None, 'inlined': [], 'covers': {},
                              'solver_s': 0.0, 'wall_s': unit_timeout}
                done.append(i)
        for i in done:
            running.pop(i)
        if not done:
            time.sleep(0.01)
    return results


def real_replay_batch(items, timeout=600):
    """items: [(unit, values, env)] -> list of replay results, one real-python process for all"""
    if not items:
        return []
    reqs = [{'module': u.kcls.__module__, 'class': u.kcls.__name__, 'params': u.params, 'values': v, 'env': e} for u, v, e in items]
    os.makedirs(os.path.join(OUT, 'replays', '.tmp'), exist_ok=True)
    path = os.path.join(OUT, 'replays', '.tmp', 'batch-%d-%d.json' % (os.getpid(), int(time.time() * 1e6) % 10**9))
    with open(path, 'w') as f:
        json.dump(reqs, f)
    env = dict(os.environ)
    env['PYTHONPATH'] = REPO + os.pathsep + VERIF
    try:
        out = subprocess.run([REAL_PY, '-m', 'pyvc.replay', path], capture_output=True, text=True, timeout=timeout, env=env, cwd=VERIF)
        try:
            r = json.loads(out.stdout.strip().split('\n')[-1])
            assert isinstance(r, list) and len(r) == len(reqs)
            return r
        except Exception:
            return [{'harness_error': 'bad batch replay output: %s / %s' % (out.stdout[-300:], out.stderr[-800:])}] * len(reqs)
    except subprocess.TimeoutExpired:
        return [{'timeout': True}] * len(reqs)
    finally:
        try:
            os.unlink(path)
        except OSError:
            pass


def lenient_equal(a, b):
    """compare two observations, ignoring parts either side could not represent ('<...>' markers)"""
    if isinstance(a, str) and a.startswith('<') or isinstance(b, str) and b.startswith('<'):
        return True
    if isinstance(a, dict) and isinstance(b, dict):
        if 'obj' in a and 'obj' in b:
            fa, fb = a.get('fields', {}), b.get('fields', {})
            return a['obj'] == b['obj'] and all(lenient_equal(fa[k], fb[k]) for k in fa if k in fb)
        return all(lenient_equal(a[k], b[k]) for k in a if k in b)
    if isinstance(a, list) and isinstance(b, list):
        return len(a) == len(b) and all(lenient_equal(x, y) for x, y in zip(a, b))
    if isinstance(a, bool) or isinstance(b, bool):
        return bool(a) == bool(b)
    if isinstance(a, (int, float)) and isinstance(b, (int, float)):
        return a == b
    return a == b


def real_replay(unit, values, extra_env=None, timeout=120):
    """Run the contract against the real code under /venv/bin/python."""
    req = {'module': unit.kcls.__module__, 'class': unit.kcls.__name__, 'params': unit.params, 'values': values, 'env': extra_env}
    os.makedirs(os.path.join(VERIF, 'replays', '.tmp'), exist_ok=True)
    path = os.path.join(VERIF, 'replays', '.tmp', 'req-%d-%d.json' % (os.getpid(), int(time.time() * 1e6) % 10**9))
    with open(path, 'w') as f:
        json.dump(req, f)
    env = dict(os.environ)
    env['PYTHONPATH'] = REPO + os.pathsep + VERIF
    env.pop('PYTHONHOME', None)
    try:
        out = subprocess.run([REAL_PY, '-m', 'pyvc.replay', path], capture_output=True, text=True, timeout=timeout, env=env, cwd=VERIF)
        try:
            return json.loads(out.stdout.strip().split('\n')[-1])
        except Exception:
            return {'harness_error': 'bad replay output: %s / %s' % (out.stdout[-500:], out.stderr[-1500:])}
    except subprocess.TimeoutExpired:
        return {'timeout': True}
    finally:
        try:
            os.unlink(path)
        except OSError:
            pass


def seed_search(u, K, suffix, record):
    """The verifier refuted an obligation through an over-approximating model (e.g. the abstract calendar) and its own
    counter-model does not replay.  Look for a real failing input among the contract's boundary seeds."""
    seeds = K.seeds()
    items = [(u, v, K.replay_env(v) if hasattr(K, 'replay_env') else None) for v in seeds]
    for v, rp in zip(seeds, real_replay_batch(items)):
        failed = rp.get('failed') or []
        if suffix in failed or (suffix.startswith('raises-only') and any(f.startswith('raises-only') for f in failed)) or \
                ((suffix.startswith('loop-') or suffix.startswith('decreases')) and failed):
            record['verifier_counter_model'] = record['values']
            record['values'] = v
            record['replay_env'] = K.replay_env(v) if hasattr(K, 'replay_env') else None
            record['real_run'] = rp
            record['verdict'] = 'violation: obligation refuted by the verifier; failing real input found among the contract seeds (%d tried)' % len(seeds)
            return True
    return False


_KNOWN_FILE = None


def listed_known(pid, kid):
    """a finding declared next to a contract only counts when the committed known_findings.json lists it for this property
    (entry 'known: property=<pid> <K-id> ...'; for per-scenario ids 'K12:<scenario>' the scenario must be named in the entry)"""
    global _KNOWN_FILE
    if _KNOWN_FILE is None:
        import json as _json
        try:
            _KNOWN_FILE = [e for e in _json.load(open(os.path.join(VERIF, 'known_findings.json')))['entries'] if e.startswith('known:')]
        except (OSError, ValueError, KeyError):
            _KNOWN_FILE = []
    base, _, scen = kid.partition(':')
    for e in _KNOWN_FILE:
        words = e.replace(',', ' ').split()
        if 'property=%s' % pid in words and base in words and (not scen or scen in words):
            return True
    return False


def load_prop(pid):
    sys.path.insert(0, VERIF)
    return importlib.import_module('props.%s' % pid)


def check_property(pid, tier, seed=0, replay_only=None):
    t0 = time.time()
    pm = load_prop(pid)
    opts = dict(getattr(pm, 'OPTS', {}).get(tier, {}))
    opts.setdefault('timeout_ms', 10000 if tier == 'quick' else 120000)
    opts.setdefault('unit_timeout_s', 240 if tier == 'quick' else 1500)
    units = pm.units(tier)
    for u in units:
        u.prop = pid
    canaries = pm.canaries(tier) if hasattr(pm, 'canaries') else []
    for u in canaries:
        u.prop = pid
    results = run_units(units + canaries, opts)
    ures, cres = results[:len(units)], results[len(units):]

    lines = []
    exit_code = 0
    problems = []  # (code, text)
    violations = []
    known_lines = {}
    agg = {}
    total_vcs = 0
    solver_s = 0.0
    backends = {}
    funcs = {}
    inlined = set()
    for u, r in zip(units, ures):
        solver_s += r.get('solver_s', 0.0)
        funcs[r['target']] = r.get('src_sha256')
        inlined |= set(r.get('inlined') or [])
        if r.get('error'):
            problems.append((3, 'unit %s crashed: %s' % (r['unit'], r['error'].strip().split('\n')[-1])))
            continue
        if r.get('out_of_subset'):
            # The function left the verifier's subset (on the unchanged tree this is a checker gap: exit 2).  As a bounded stand-in
            # the contract's seed inputs are run on the real code: a seed that breaks a clause is a real violation of the contract.
            K0 = u.make()
            found = False
            if hasattr(K0, 'seeds'):
                seeds = K0.seeds()
                items = [(u, v, K0.replay_env(v) if hasattr(K0, 'replay_env') else None) for v in seeds]
                for v, rp in zip(seeds, real_replay_batch(items)):
                    if rp.get('failed'):
                        oid = '%s/%s%s/%s' % (pid, getattr(K0, 'label', None) or verify.short(K0.target), (u.name[len(u.kcls.__name__):] if u.params else ''), rp['failed'][0])
                        violations.append((u, r, {'oid': oid, 'status': 'sat', 'backend': 'bounded-seed-search', 's': 0.0, 'kind': 'bounded', 'values': v,
                                                  'meta': {'note': 'function is outside the verifier subset (%s); failing input found by the bounded seed search (%d seeds)' % (r['out_of_subset'], len(seeds))}}))
                        found = True
                        break
            if not found:
                problems.append((2, 'unit %s out of subset: %s' % (r['unit'], r['out_of_subset'])))
            continue
        if r.get('incomplete'):
            problems.append((2, 'unit %s incomplete: %s' % (r['unit'], r['incomplete'])))
        if not r['vcs']:
            problems.append((3, 'unit %s generated zero obligations (vacuous)' % r['unit']))
        K = u.make()
        need_cover = K.expected_covers() if hasattr(K, 'expected_covers') else getattr(K, 'covers', ('return',))
        for cv in need_cover:
            if not r['covers'].get(cv):
                problems.append((3, 'unit %s: no feasible path reaches %s (vacuous precondition?)' % (r['unit'], cv)))
        for vc in r['vcs']:
            total_vcs += 1
            backends[vc['backend']] = backends.get(vc['backend'], 0) + 1
            a = agg.setdefault(vc['oid'], {'status': 'unsat', 'n': 0, 's': 0.0, 'kind': vc['kind'], 'backends': set()})
            a['n'] += 1
            a['s'] += vc['s']
            a['backends'].add(vc['backend'])
            if vc['status'] == 'unknown':
                if a['status'] == 'unsat':
                    a['status'] = 'unknown'
                problems.append((2, 'obligation %s undecided (%s)' % (vc['oid'], vc.get('reason', ''))))
            elif vc['status'] == 'sat':
                handled = False
                if vc.get('known'):
                    vc = dict(vc)
                    vc['known'] = [k for k in vc['known'] if listed_known(pid, k['id'])]
                    if not vc['known']:
                        vc.pop('outside_known', None)
                if vc.get('known'):
                    for k in vc['known']:
                        known_lines[(k['id'], vc['oid'])] = 'KNOWN-FINDING: property=%s %s [%s] obligation=%s' % (pid, k['what'], k['id'], vc['oid'])
                    if vc.get('outside_known') == 'unsat':
                        handled = True
                        if a['status'] == 'unsat':
                            a['status'] = 'known'
                    elif vc.get('outside_known') == 'sat':
                        vc = dict(vc)
                        vc['values'] = vc['values_outside_known']
                    else:
                        problems.append((2, 'obligation %s outside its known finding: undecided' % vc['oid']))
                        handled = True
                if not handled:
                    a['status'] = 'sat'
                    violations.append((u, r, vc))

    # bounded stand-ins: contracts on functions outside the verifier's reach (file system, argument parsing, whole programs) are
    # evaluated at run time on the real code over the contract's table of concrete inputs.  Labelled bounded; never counted as
    # obligations discharged.
    bunits = pm.bounded_units(tier) if hasattr(pm, 'bounded_units') else []
    bounded_stats = {'units': len(bunits), 'evaluations': 0, 'clauses_checked': 0, 'failed_evaluations': 0, 'targets': []}
    if bunits:
        from concurrent.futures import ThreadPoolExecutor
        bitems = []
        for u in bunits:
            u.prop = pid
            K0 = u.make()
            bounded_stats['targets'].append(K0.target)
            for v in K0.seeds():
                bitems.append((u, v, K0.replay_env(v) if hasattr(K0, 'replay_env') else None))
        nchunks = max(1, min(12, len(bitems)))
        chunks = [bitems[i::nchunks] for i in range(nchunks)]
        with ThreadPoolExecutor(max_workers=nchunks) as ex:
            outs = list(ex.map(lambda ch: real_replay_batch(ch, timeout=opts.get('unit_timeout_s', 240) * 4), chunks))
        for ch, rs in zip(chunks, outs):
            for (u, v, e), rp in zip(ch, rs):
                bounded_stats['evaluations'] += 1
                if rp.get('harness_error') or rp.get('timeout'):
                    problems.append((3, 'bounded check %s failed to run on %s: %s' % (u.name, json.dumps(v)[:200], json.dumps(rp)[-400:])))
                    continue
                if not rp.get('pre_ok', True):
                    continue
                bounded_stats['clauses_checked'] += len(rp.get('clauses') or {})
                if rp.get('failed'):
                    bounded_stats['failed_evaluations'] += 1
                    K0 = u.make()
                    for fcl in rp['failed']:
                        oid = '%s/%s%s/%s' % (pid, getattr(K0, 'label', None) or verify.short(K0.target), (u.name[len(u.kcls.__name__):] if u.params else ''), fcl)
                        known = verify.match_known_concrete(K0, oid, v) if hasattr(verify, 'match_known_concrete') else []
                        known = [k for k in known if listed_known(pid, k['id'])]
                        if known:
                            for k in known:
                                known_lines[(k['id'], oid)] = 'KNOWN-FINDING: property=%s %s [%s] obligation=%s' % (pid, k['what'], k['id'], oid)
                            continue
                        violations.append((u, {'target': K0.target, 'src_sha256': None},
                                           {'oid': oid + '@' + json.dumps(v, sort_keys=True)[:80], 'status': 'sat', 'backend': 'bounded-runtime-contract', 's': 0.0, 'kind': 'bounded', 'values': v,
                                            'meta': {'note': 'run-time contract check on a concrete input (bounded stand-in)'}}))

    # encoder cross-check: one concrete input per explored path, pyvc's concrete run vs CPython on the real code
    xitems = []
    for u, r in zip(units, ures):
        K = u.make()
        for smp in (r.get('samples') or []):
            env = K.replay_env(smp['values']) if hasattr(K, 'replay_env') else None
            xitems.append((u, smp['values'], env, smp['pyvc']))
    xres = real_replay_batch([(u, v, e) for u, v, e, _ in xitems])
    xcheck_n = 0
    for (u, v, e, mine), rp in zip(xitems, xres):
        if rp.get('harness_error') or rp.get('timeout'):
            problems.append((3, 'cross-check harness failed for %s: %s' % (u.name, json.dumps(rp)[:300])))
            continue
        if not rp.get('pre_ok', True) or 'observation' not in rp:
            continue
        xcheck_n += 1
        if not lenient_equal(mine, rp['observation']):
            problems.append((3, 'ENCODER DISAGREEMENT in %s on %s: pyvc %s vs CPython %s' % (u.name, json.dumps(v)[:200], json.dumps(mine)[:300], json.dumps(rp['observation'])[:300])))

    # trusted models vs CPython
    from . import selfcheck
    try:
        sc = selfcheck.run(REPO, seed, tier)
    except Exception:
        sc = {'ok': False, 'error': traceback.format_exc()[-800:]}
    if not sc.get('ok'):
        problems.append((3, 'model self-check against CPython failed: %s' % json.dumps(sc)[:600]))

    # canaries: must be refuted and the refutation must replay on the real code
    canary_ok = 0
    for u, r in zip(canaries, cres):
        if r.get('error') or r.get('out_of_subset'):
            problems.append((3, 'canary %s did not run: %s' % (r['unit'], (r.get('error') or r.get('out_of_subset')).strip().split('\n')[-1])))
            continue
        sat = [vc for vc in r['vcs'] if vc['status'] == 'sat' and vc['oid'].endswith('post:canary')]
        if not sat:
            problems.append((3, 'canary %s: the deliberately false post-condition was NOT refuted (engine unsound or vacuous)' % r['unit']))
            continue
        rp = real_replay(u, sat[0]['values'], getattr(u.kcls, 'replay_env', lambda self, v: None)(u.make(), sat[0]['values']))
        if 'post:canary' in (rp.get('failed') or []):
            canary_ok += 1
        else:
            problems.append((3, 'canary %s: counter-model did not replay: %s' % (r['unit'], json.dumps(rp)[:300])))

    # violations: replay on the real code
    os.makedirs(os.path.join(OUT, 'replays', pid), exist_ok=True)
    reported = set()
    n_viol = 0
    for u, r, vc in violations:
        if vc['oid'] in reported:
            continue
        reported.add(vc['oid'])
        K = u.make()
        env = K.replay_env(vc['values']) if hasattr(K, 'replay_env') else None
        rp = real_replay(u, vc['values'], env)
        suffix = vc['oid'].split('/')[-1]
        if vc.get('kind') == 'bounded' and '@' in suffix:
            suffix = suffix.split('@')[0]
        fname = vc['oid'].replace('/', '__').replace(':', '_').replace('[', '(').replace(']', ')')
        fname = ''.join(ch if (ch.isascii() and (ch.isalnum() or ch in '._-()<>=,+ ')) else '_' for ch in fname)
        if len(fname) > 180:
            import hashlib
            fname = fname[:140] + '~' + hashlib.sha1(vc['oid'].encode()).hexdigest()[:12] + '~' + fname[-24:]
        fname += '.json'
        rpath = os.path.join(OUT, 'replays', pid, fname)
        record = {'property': pid, 'obligation': vc['oid'], 'unit': u.name, 'contract_module': u.kcls.__module__, 'contract_class': u.kcls.__name__,
                  'params': u.params, 'function': r['target'], 'function_src_sha256': r.get('src_sha256'), 'values': vc['values'],
                  'solver': {'status': 'sat', 'backend': vc['backend'], 'seconds': vc['s'], 'meta': vc.get('meta')},
                  'real_run': rp, 'replay_env': env,
                  'how_to_rerun': './check %s --replay %s' % (pid, os.path.relpath(rpath, VERIF))}
        real_failed = rp.get('failed') or []
        replayable = getattr(u.kcls, 'replayable', True)
        confirmed = suffix in real_failed or (suffix.startswith('raises-only') and any(f.startswith('raises-only') for f in real_failed)) or \
            (suffix.startswith('loop-') or suffix.startswith('decreases') or suffix.startswith('pre@call')) and bool(real_failed)
        if confirmed:
            record['verdict'] = 'violation: the real code fails this clause on the replayed input'
            with open(rpath, 'w') as f:
                json.dump(record, f, indent=1)
            lines.append('VIOLATION property=%s replay=%s obligation=%s' % (pid, rpath, vc['oid']))
            n_viol += 1
        elif rp.get('harness_error') or rp.get('timeout'):
            record['verdict'] = 'replay harness failed'
            with open(rpath, 'w') as f:
                json.dump(record, f, indent=1)
            problems.append((3, 'replay harness failed for %s: %s' % (vc['oid'], json.dumps(rp)[:400])))
        elif (not replayable or not rp.get('pre_ok', True) or suffix.startswith('loop-') or suffix.startswith('decreases')) and hasattr(K, 'seeds') and seed_search(u, K, suffix, record):
            with open(rpath, 'w') as f:
                json.dump(record, f, indent=1)
            lines.append('VIOLATION property=%s replay=%s obligation=%s' % (pid, rpath, vc['oid']))
            n_viol += 1
        elif replayable and rp.get('pre_ok', True) and not suffix.startswith('loop-') and not suffix.startswith('decreases'):
            record['verdict'] = 'counter-model does not replay: encoding/contract error (not a violation)'
            with open(rpath, 'w') as f:
                json.dump(record, f, indent=1)
            problems.append((3, 'counter-model for %s does not replay on the real code (checker error, see %s)' % (vc['oid'], rpath)))
        else:
            record['verdict'] = 'obligation refuted by the verifier; no concrete failing input reproduced'
            with open(rpath, 'w') as f:
                json.dump(record, f, indent=1)
            lines.append('VIOLATION property=%s replay=%s obligation=%s no-failing-input-found' % (pid, rpath, vc['oid']))
            n_viol += 1

    if n_viol:
        exit_code = 1
    elif problems:
        exit_code = max(c for c, _ in problems)
    by_id = {}
    for (kid, oid), l in sorted(known_lines.items()):
        by_id.setdefault(kid, []).append(l)
    for kid, ls in sorted(by_id.items()):
        print(ls[0] + (' (and %d more obligations of the same finding)' % (len(ls) - 1) if len(ls) > 1 else ''))
    for l in lines:
        print(l)
    for c, t in problems[:60]:
        print('%s: %s' % ('UNDECIDED' if c == 2 else 'CHECKER-ERROR', t))

    # evidence
    obligations = len(agg)
    discharged = sum(1 for a in agg.values() if a['status'] == 'unsat')
    known_n = sum(1 for a in agg.values() if a['status'] == 'known')
    samples = []
    for oid, a in list(agg.items())[:6]:
        samples.append({'obligation': oid, 'kind': a['kind'], 'path_vcs': a['n'], 'status': a['status'], 'solver_s': round(a['s'], 4), 'backends': sorted(a['backends'])})
    meta = getattr(pm, 'META', {})
    from . import stdlib
    ev = {
        'property_id': pid, 'tier': tier, 'seed': seed, 'level': 'proof',
        'coverage': {
            'obligations': obligations, 'discharged': discharged + known_n if exit_code == 0 else discharged,
            'discharged_outside_known_findings': known_n,
            'explanation': ('obligations = distinct named obligations (one per contract clause and unit; each stands for path_level_vcs solver queries). '
                            'discharged counts an obligation when every one of its path-level VCs is unsat; %d of them are unsat only after the region of a '
                            'finding listed in known_findings.json is excluded (reported on stdout as KNOWN-FINDING, see known_findings) - those are NOT proofs of the '
                            'property inside that region. Bounded run-time checks are reported separately and never counted here.' % known_n),
            'path_level_vcs': total_vcs,
            'checker_cmd': './check %s --tier %s' % (pid, tier),
            'trusted_base': stdlib.TRUSTED + list(meta.get('trusted', [])),
            'back_ends': backends, 'solver_seconds': round(solver_s, 3),
            'functions_under_contract': funcs,
            'inlined_callees_checked_through_their_bodies': sorted(inlined),
            'units': [{'unit': r['unit'], 'target': r['target'], 'paths': r['paths'], 'vcs': len(r['vcs']), 'wall_s': r.get('wall_s')} for r in ures],
            'canaries_refuted_and_replayed': canary_ok, 'canaries': len(canaries),
            'semantics_crosscheck_inputs_compared_with_cpython': xcheck_n,
            'model_selfcheck_vs_cpython': sc,
            'bounded': meta.get('bounded', []),
            'bounded_runtime_contract_checks_not_counted_as_proved': bounded_stats,
            'out_of_reach': meta.get('out_of_reach', []),
            'known_findings': sorted(set(known_lines.values())),
            'problems': ['%d: %s' % p for p in problems][:50],
            'samples': samples,
            'exhaustive': False,
        },
        'assumptions': list(meta.get('assumptions', [])),
        'wall_s': round(time.time() - t0, 3),
        'violations': n_viol,
    }
    os.makedirs(os.path.join(OUT, 'evidence'), exist_ok=True)
    with open(os.path.join(OUT, 'evidence', '%s.json' % pid), 'w') as f:
        json.dump(ev, f, indent=1, sort_keys=True)
    print('%s %s: %d obligations (%d path-level VCs), %d discharged, %d known-finding, %d violation(s), %d problem(s); %d units, canaries %d/%d; cross-check %d; bounded run-time evaluations %d; %.1fs; exit %d' % (
        pid, tier, obligations, total_vcs, discharged, known_n, n_viol, len(problems), len(units), canary_ok, len(canaries), xcheck_n, bounded_stats['evaluations'], time.time() - t0, exit_code))
    return exit_code


def replay_file(pid, path):
    with open(path) as f:
        rec = json.load(f)
    mod = importlib.import_module(rec['contract_module'])
    u = Unit(getattr(mod, rec['contract_class']), rec.get('params') or {}, pid)
    rp = real_replay(u, rec['values'], rec.get('replay_env'))
    print(json.dumps(rp, indent=1))
    failed = rp.get('failed') or []
    if failed:
        print('VIOLATION property=%s replay=%s obligation=%s' % (pid, path, rec['obligation']))
        return 1
    return 0
