"""Validation of the trusted models against CPython itself (run on every check).

1. struct codec model vs CPython's struct for every constant format found in the repository
   source, on boundary and random values.
2. calendar model: the exact civil-from-seconds algorithm vs time.gmtime, and the abstract
   calendar facts used for symbolic days vs datetime, for every day 1970-01-01 .. 2156-01-01.
A disagreement makes the check exit 3: no verdict is believed.
"""
import ast
import datetime
import os
import random
import re
import struct
import time

from . import stdlib
from .interp import Loader, Interp, PathCtx


def repo_formats(repo):
    fmts = set()
    for root in (os.path.join(repo, 'pycdlib'),):
        for fn in sorted(os.listdir(root)):
            if not fn.endswith('.py'):
                continue
            tree = ast.parse(open(os.path.join(root, fn)).read())
            for n in ast.walk(tree):
                if isinstance(n, ast.Constant) and isinstance(n.value, str) and re.fullmatch(r'[<>=!@]?[0-9xbBhHiIlLqQs]+', n.value) and re.search(r'[bBhHiIlLqQs]', n.value) and n.value != 's':
                    try:
                        struct.calcsize(n.value)
                    except struct.error:
                        continue
                    fmts.add(n.value)
    return sorted(fmts)


def check_struct(repo, seed, per_format=40):
    rnd = random.Random(seed)
    loader = Loader(repo)
    it = Interp(loader, PathCtx())
    n = 0
    bad = []
    for fmt in repo_formats(repo):
        if fmt[0] not in '<>=!':
            # native mode: only accepted when no alignment padding can occur (same size as '=')
            if struct.calcsize(fmt) != struct.calcsize('=' + fmt):
                continue
        little, fields = stdlib.parse_fmt(fmt)
        if stdlib.fmt_size(fmt) != struct.calcsize(fmt if fmt[0] in '<>=!' else '=' + fmt):
            bad.append((fmt, 'size'))
            continue
        for k in range(per_format):
            args = []
            for code, size in fields:
                if code == 'x':
                    continue
                if code == 's':
                    ln = rnd.choice([0, size, max(0, size - 1), size + 3]) if k < 8 else rnd.randrange(0, size + 2)
                    args.append(bytes(rnd.randrange(256) for _ in range(min(ln, 64))) + b'\x01' * max(0, ln - 64))
                else:
                    signed = code.islower()
                    lo, hi = (-(1 << (8 * size - 1)), (1 << (8 * size - 1)) - 1) if signed else (0, (1 << (8 * size)) - 1)
                    args.append(rnd.choice([lo, hi, 0, 1, hi // 2, lo // 2 if signed else hi - 1, rnd.randint(lo, hi)]))
            real = struct.pack(fmt, *args)
            mine = stdlib.s_pack(it, fmt, *args)
            n += 1
            if bytes(mine) != real:
                bad.append((fmt, 'pack', args))
                break
            ru = struct.unpack(fmt, real)
            mu = stdlib.s_unpack(it, fmt, real)
            if tuple(bytes(x) if isinstance(x, (bytes, bytearray)) else x for x in mu) != ru:
                bad.append((fmt, 'unpack', args))
                break
    return n, bad


def check_calendar(seed, full=True):
    env = stdlib.DivEnv(None)
    bad = []
    n = 0
    last = None
    step = 1 if full else 7
    day0 = datetime.date(1970, 1, 1).toordinal()
    for d in range(-1, stdlib.CAL_MAX_DAY + 2, 1):
        dt = datetime.date.fromordinal(day0 + d)
        y, yd = dt.year, dt.timetuple().tm_yday
        cur = (d, y, dt.month, dt.day, yd)
        # bounds axiom
        if not (1969 <= y <= 2156 and 1 <= yd <= 366):
            bad.append(('bounds', cur))
        if 0 <= d <= stdlib.CAL_MAX_DAY and not (1970 <= y <= 2155):
            bad.append(('bounds2', cur))
        if last is not None:
            ld, ly, lm, ldd, lyd = last
            if not (y >= ly):
                bad.append(('monotone', cur))
            if y == ly and yd - lyd != 1:
                bad.append(('yday-step', cur))
            if y != ly and not (y == ly + 1 and yd == 1 and dt.month == 1 and dt.day == 1):
                bad.append(('new-year', cur))
        last = cur
        if d >= 0 and d % step == 0:
            secs = d * 86400 + (d * 7919) % 86400
            g = time.gmtime(secs)
            m = stdlib.civil_from_secs(env, secs)
            n += 1
            if m != (g.tm_year, g.tm_mon, g.tm_mday, g.tm_hour, g.tm_min, g.tm_sec, g.tm_wday, g.tm_yday):
                bad.append(('civil', secs, m))
    return n, bad


def check_upper_classes():
    """environment table behind the text model: str.upper() of one character yields 1..3 characters (this interpreter)"""
    worst = 0
    expanding = 0
    for cpt in range(0x110000):
        if 0xD800 <= cpt <= 0xDFFF:
            continue
        u = chr(cpt).upper()
        if len(u) > worst:
            worst = len(u)
        if len(u) > 1:
            expanding += 1
    reps_ok = len('\u00df'.upper()) == 2 and len('\u0390'.upper()) == 3 and '\u017f'.upper() == 'S' and '\u00e9'.upper() == '\u00c9' and '\u4e2d'.upper() == '\u4e2d'
    return worst, expanding, reps_ok


def run(repo, seed=0, tier='quick'):
    out = {}
    worst, expanding, reps_ok = check_upper_classes()
    out['upper_max_expansion'] = worst
    out['upper_expanding_code_points'] = expanding
    if worst > 3 or not reps_ok:
        out['ok'] = False
        out['upper_model'] = 'representatives of the upper() classes no longer cover this interpreter'
        return out
    n, bad = check_struct(repo, seed, 40 if tier == 'quick' else 400)
    out['struct_cases'] = n
    out['struct_disagreements'] = [repr(b)[:200] for b in bad]
    n2, bad2 = check_calendar(seed, full=True)
    out['calendar_days'] = n2
    out['calendar_disagreements'] = [repr(b)[:200] for b in bad2[:10]]
    out['ok'] = not bad and not bad2
    return out
