"""Trusted models of the builtins / standard-library functions pycdlib uses.

Everything in this file is part of the trusted base and is listed as such in the
evidence.  Where a model is a finite fact about CPython it is validated against
CPython itself by pyvc.selfcheck on every run (struct codec, calendar model).
"""
import collections
import struct as _struct

from . import sx
from .sx import z3, is_sym
from . import values as V
from .values import (Unsupported, SBytes, ClassInfo, Obj, FuncVal, BoundMethod,
                     Builtin, ModuleVal, Lazy)

TRUSTED = [
    "str.upper per character (ASCII exact; concrete non-ASCII characters through CPython itself), re.sub/re.subn only for the pattern '[^A-Z0-9_]{1}' with a one-character replacement",
    'struct.pack/unpack/unpack_from/calcsize: pyvc format model (codes x c b B h H i I l L q Q s, prefixes < > = !), validated against CPython struct on every run',
    'builtins on concrete values are evaluated by CPython itself (len, min, max, int, bytes, str methods, ...)',
    'bytes/bytearray/list/tuple/dict operations with symbolic elements: element-wise model in pyvc.interp / pyvc.stdlib',
    'time.gmtime: proleptic Gregorian civil-from-days model (validated against CPython for every day 1970-2099 and random instants); time.localtime(t) = gmtime(t + 900*z) for an unconstrained z in [-48, 56] (zone offset is a multiple of 15 minutes)',
    'io.BytesIO / binary file objects: (content, pos) model with sparse zero-filling writes',
    'bisect.insort_*/bisect_*: insertion point by the element order (__lt__) of the list elements',
    'functools.lru_cache treated as identity',
]


# ----------------------------------------------------------------------------
# struct
# ----------------------------------------------------------------------------
SIZES = {'x': 1, 'c': 1, 'b': 1, 'B': 1, '?': 1, 'h': 2, 'H': 2, 'i': 4, 'I': 4, 'l': 4, 'L': 4, 'q': 8, 'Q': 8}


def parse_fmt(fmt):
    """-> (little_endian: bool, [(code, size_or_count)]) using standard sizes, no alignment.
    Native '@' mode (no prefix) is only accepted when it cannot differ from '=' (asserted by selfcheck)."""
    if isinstance(fmt, (bytes, bytearray)):
        fmt = fmt.decode('ascii')
    order = '='
    if fmt and fmt[0] in '<>=!@':
        order = fmt[0]
        fmt = fmt[1:]
    little = order in ('<', '=', '@')
    fields = []
    num = ''
    for ch in fmt:
        if ch.isdigit():
            num += ch
            continue
        if ch.isspace():
            continue
        n = int(num) if num else 1
        num = ''
        if ch == 's':
            fields.append(('s', n))
        elif ch == 'x':
            fields.extend([('x', 1)] * n)
        elif ch in SIZES:
            fields.extend([(ch, SIZES[ch])] * n)
        else:
            raise Unsupported('struct code %r' % ch)
    return little, fields


def fmt_size(fmt):
    _, fields = parse_fmt(fmt)
    return sum(n for _, n in fields)


def struct_error(it, msg):
    it.raise_exc('struct.error', msg)


def int_to_bytes(it, v, size, little, signed):
    """bytes of an integer field; forks on range (struct.error)"""
    lo, hi = (-(1 << (8 * size - 1)), (1 << (8 * size - 1)) - 1) if signed else (0, (1 << (8 * size)) - 1)
    if is_sym(v):
        if z3.is_bool(v):
            v = z3.If(v, 1, 0)
        if not it.branch(z3.And(v >= lo, v <= hi)):
            struct_error(it, 'argument out of range')
        if size == 1 and not signed:
            items = [v]
        else:
            # base-256 digits of a value are unique: the same term always gets the same digit variables
            # (and the digits of unpack()'s result are the bytes it was unpacked from)
            cache = it.ctx.ghost.setdefault('byte_cache', {})
            key = (v.get_id(), size, signed)
            if key in cache:
                items = cache[key][1]
            else:
                items = [it.ctx.fresh_int('pk', 0, 255) for _ in range(size)]
                u = sx.le_int(items)
                if signed:
                    it.ctx.assume(u == z3.If(v < 0, v + (1 << (8 * size)), v))
                else:
                    it.ctx.assume(u == v)
                cache[key] = (v, items)
        return list(items) if little else list(items[::-1])
    if isinstance(v, bool):
        v = int(v)
    if not isinstance(v, int):
        struct_error(it, 'required argument is not an integer')
    if v < lo or v > hi:
        struct_error(it, 'argument out of range')
    return list(v.to_bytes(size, 'little' if little else 'big', signed=signed))


def bytes_to_int(items, little, signed):
    size = len(items)
    u = sx.le_int(items if little else items[::-1])
    if not signed:
        return u
    if is_sym(u):
        return z3.If(u >= (1 << (8 * size - 1)), u - (1 << (8 * size)), u)
    return u - (1 << (8 * size)) if u >= (1 << (8 * size - 1)) else u


def s_pack(it, fmt, *args):
    if is_sym(fmt) or not isinstance(fmt, (str, bytes)):
        raise Unsupported('non-constant struct format')
    little, fields = parse_fmt(fmt)
    need = sum(1 for c, _ in fields if c != 'x')
    if len(args) != need:
        struct_error(it, 'pack expected %d items for packing (got %d)' % (need, len(args)))
    out = []
    ai = 0
    for code, n in fields:
        if code == 'x':
            out.append(0)
            continue
        v = args[ai]
        ai += 1
        if code == 's':
            if not V.is_bytes(v):
                struct_error(it, "argument for 's' must be a bytes object")
            items = V.items_of(v)[:n]
            out.extend(items + [0] * (n - len(items)))
        elif code == 'c':
            if not V.is_bytes(v) or len(v) != 1:
                struct_error(it, 'char format requires a bytes object of length 1')
            out.extend(V.items_of(v))
        elif code == '?':
            out.append(sx.If(it.truth(v), 1, 0))
        else:
            out.extend(int_to_bytes(it, v, n, little, code.islower()))
    return V.mk_bytes(out)


def _unpack_items(it, fmt, items):
    little, fields = parse_fmt(fmt)
    out = []
    pos = 0
    for code, n in fields:
        chunk = items[pos:pos + n]
        pos += n
        if code == 'x':
            continue
        if code in ('s', 'c'):
            out.append(V.mk_bytes(chunk))
        elif code == '?':
            out.append(sx.Not(sx.Eq(chunk[0], 0)))
        else:
            v = bytes_to_int(chunk, little, code.islower())
            if is_sym(v) and it.ctx is not None and n > 1:
                le = chunk if little else chunk[::-1]
                it.ctx.ghost.setdefault('byte_cache', {})[(v.get_id(), n, code.islower())] = (v, list(le))
            out.append(v)
    return tuple(out)


def s_unpack(it, fmt, buf):
    size = fmt_size(fmt)
    if isinstance(buf, V.ABytes):
        if not it.branch(buf.length == size):
            struct_error(it, 'unpack requires a buffer of %d bytes' % size)
        return _unpack_items(it, fmt, [buf.at(i) for i in range(size)])
    if not V.is_bytes(buf):
        it.raise_exc('TypeError', 'a bytes-like object is required')
    if len(buf) != size:
        struct_error(it, 'unpack requires a buffer of %d bytes' % size)
    return _unpack_items(it, fmt, V.items_of(buf))


def s_unpack_from(it, fmt, buf, offset=0):
    size = fmt_size(fmt)
    if isinstance(buf, V.ABytes):
        if is_sym(offset) or is_sym(buf.length):
            ok = sx.And(offset >= 0, buf.length - offset >= size)
            if is_sym(offset):
                neg_ok = sx.And(offset < 0, offset + buf.length >= 0, -offset >= size)
                if it.branch(neg_ok):
                    offset = offset + buf.length
                    ok = True
            if not it.branch(ok):
                struct_error(it, 'unpack_from requires a buffer of at least %d bytes' % size)
        else:
            if offset < 0:
                offset += buf.length
            if offset < 0 or buf.length - offset < size:
                struct_error(it, 'unpack_from requires a buffer of at least %d bytes' % size)
        return _unpack_items(it, fmt, [buf.at(offset + i) for i in range(size)])
    if not V.is_bytes(buf):
        it.raise_exc('TypeError', 'a bytes-like object is required')
    n = len(buf)
    if is_sym(offset):
        offset = _split_int(it, offset, -n - 1, n + 1)
    if offset < 0:
        if offset + n < 0:
            struct_error(it, 'offset out of range')
        offset += n
    if n - offset < size:
        struct_error(it, 'unpack_from requires a buffer of at least %d bytes' % size)
    return _unpack_items(it, fmt, V.items_of(buf)[offset:offset + size])


def s_calcsize(fmt):
    return fmt_size(fmt)


# ----------------------------------------------------------------------------
# time: civil calendar model
# ----------------------------------------------------------------------------
class TimeStruct:
    FIELDS = ('tm_year', 'tm_mon', 'tm_mday', 'tm_hour', 'tm_min', 'tm_sec', 'tm_wday', 'tm_yday', 'tm_isdst')

    def __init__(self, vals):
        self.vals = dict(zip(self.FIELDS, vals))

    def __getattr__(self, name):  # contracts read tm_* directly in both modes
        if name.startswith('tm_') and name in self.vals:
            return self.vals[name]
        raise AttributeError(name)

    def _pyvc_getattr(self, it, name):
        if name in self.vals:
            return self.vals[name]
        raise Unsupported('struct_time.%s' % name)

    def _pyvc_getitem(self, it, idx, node, frame):
        return tuple(self.vals[f] for f in self.FIELDS)[idx]


class DivEnv:
    """floor division helper usable both concretely and with a PathCtx (fresh q/r)."""

    def __init__(self, ctx=None):
        self.ctx = ctx

    def divmod(self, a, k):
        if not is_sym(a):
            return a // k, a % k
        q = self.ctx.fresh_int('cq')
        r = self.ctx.fresh_int('cr')
        self.ctx.assume(z3.And(a == k * q + r, r >= 0, r < k))
        return q, r

    def div(self, a, k):
        return self.divmod(a, k)[0]


def days_from_civil(env, y, m_le2):
    """days since 1970-01-01 of March 1st-based year start helpers: returns days of y-01-01.
    (m = 1 <= 2, so y is decremented)"""
    y = y - 1
    era = env.div(y, 400)
    yoe = y - era * 400
    # Jan 1: mp = 10 (m + 9), doy = (153*10+2)//5 + 0 = 306
    doy = 306
    doe = yoe * 365 + env.div(yoe, 4) - env.div(yoe, 100) + doy
    return era * 146097 + doe - 719468


def civil_from_secs(env, secs):
    """(year, mon, mday, hour, min, sec, wday, yday) of an integer number of seconds since the epoch (UTC)."""
    days, rem = env.divmod(secs, 86400)
    hour, rem2 = env.divmod(rem, 3600)
    minute, sec = env.divmod(rem2, 60)
    z = days + 719468
    era, doe = env.divmod(z, 146097)
    yoe = env.div(doe - env.div(doe, 1460) + env.div(doe, 36524) - env.div(doe, 146096), 365)
    y = yoe + era * 400
    doy = doe - (365 * yoe + env.div(yoe, 4) - env.div(yoe, 100))
    mp = env.div(5 * doy + 2, 153)
    d = doy - env.div(153 * mp + 2, 5) + 1
    m = sx.If(mp < 10, mp + 3, mp - 9)
    y = sx.If(m <= 2, y + 1, y)
    wday = env.divmod(days + 3, 7)[1]  # 1970-01-01 was a Thursday (tm_wday 3)
    jan1 = days_from_civil(env, y, True)
    yday = days - jan1 + 1
    return y, m, d, hour, minute, sec, wday, yday


CAL_MAX_DAY = 67934  # 2155-12-31: last day whose year fits the one-byte "years since 1900" field


def abstract_calendar(ctx, days):
    """year/month/day/yday of a symbolic day number as uninterpreted functions plus the calendar facts
    (validated against CPython on every run by pyvc.selfcheck):
      bounds; monotone years; within a year yday differences are day differences;
      consecutive days are in the same year or the later one is January 1st of the next year."""
    Y = z3.Function('cal_year', z3.IntSort(), z3.IntSort())
    M = z3.Function('cal_mon', z3.IntSort(), z3.IntSort())
    D = z3.Function('cal_mday', z3.IntSort(), z3.IntSort())
    YD = z3.Function('cal_yday', z3.IntSort(), z3.IntSort())
    seen = ctx.ghost.setdefault('cal_days', [])
    d = days
    ctx.assume(z3.Implies(z3.And(d >= -1, d <= CAL_MAX_DAY + 1),
                          z3.And(Y(d) >= 1969, Y(d) <= 2156, M(d) >= 1, M(d) <= 12, D(d) >= 1, D(d) <= 31, YD(d) >= 1, YD(d) <= 366)))
    ctx.assume(z3.Implies(z3.And(d >= 0, d <= CAL_MAX_DAY), z3.And(Y(d) >= 1970, Y(d) <= 2155)))
    for e in seen:
        for a, b in ((d, e), (e, d)):
            ctx.assume(z3.Implies(a >= b, Y(a) >= Y(b)))
            ctx.assume(z3.Implies(Y(a) == Y(b), YD(a) - YD(b) == a - b))
            ctx.assume(z3.Implies(a == b + 1, z3.Or(Y(a) == Y(b), z3.And(Y(a) == Y(b) + 1, YD(a) == 1, M(a) == 1, D(a) == 1))))
            ctx.assume(z3.Implies(a == b, z3.And(Y(a) == Y(b), M(a) == M(b), D(a) == D(b), YD(a) == YD(b))))
    seen.append(d)
    return Y(d), M(d), D(d), YD(d)


def broken_down(it, secs):
    if is_sym(secs):
        cache = it.ctx.ghost.setdefault('broken_down_cache', {})
        k = secs.get_id()
        if k not in cache:
            cache[k] = (secs, _broken_down(it, secs))
        return cache[k][1]
    return _broken_down(it, secs)


def _broken_down(it, secs):
    if not is_sym(secs):
        y, m, d, hh, mm, ss, wd, yd = civil_from_secs(DivEnv(None), secs)
        return TimeStruct((y, m, d, hh, mm, ss, wd, yd, 0))
    env = DivEnv(it.ctx)
    days, rem = env.divmod(secs, 86400)
    hour, rem2 = env.divmod(rem, 3600)
    minute, sec = env.divmod(rem2, 60)
    y, m, d, yd = abstract_calendar(it.ctx, days)
    wday = env.divmod(days + 3, 7)[1]
    return TimeStruct((y, m, d, hour, minute, sec, wday, yd, 0))


def _floor_time(t):
    if isinstance(t, float):
        import math
        return math.floor(t)
    return t


def t_gmtime(it, t=None):
    if t is None:
        t = t_time(it)
    return broken_down(it, _floor_time(t))


def t_localtime(it, t=None):
    if t is None:
        t = t_time(it)
    t = _floor_time(t)
    z = it.ctx.ghost.get('tz_quarters') if it.ctx is not None else None
    if z is None:
        if it.ctx is None or z3 is None:
            raise Unsupported('localtime without a zone model')
        z = it.ctx.fresh_int('tzq', -48, 56)
        it.ctx.ghost['tz_quarters'] = z
    elif callable(z):
        z = z(it, t)
    st = broken_down(it, t + 900 * z)
    # fixed zones only: the contracts name every zone 'PVC' (contracts/utils.tz_string), no daylight saving
    st.vals['tm_zone'] = it.ctx.ghost.get('tz_name', 'PVC')
    st.vals['tm_gmtoff'] = 900 * z
    return st


def t_time(it):
    if it.ctx is None:
        raise Unsupported('time.time at load time')
    v = it.ctx.ghost.get('now')
    if v is None:
        v = it.ctx.fresh_int('now', 0, 4102444799)
        it.ctx.ghost['now'] = v
    return v


class SStr(SBytes):
    """text whose characters are code points, some of them symbolic (symbolic ones are ASCII by construction / assumption)."""
    __slots__ = ()

    def __getitem__(self, idx):
        if isinstance(idx, slice):
            return mk_str(self.items[idx])
        x = self.items[idx]
        return mk_str([x])

    def __eq__(self, other):
        return str_eq(self, other)

    def __ne__(self, other):
        return sx.Not(str_eq(self, other))

    __hash__ = None


def cps(x):
    """code points of a str / SStr"""
    if isinstance(x, SStr):
        return list(x.items)
    if isinstance(x, str):
        return [ord(ch) for ch in x]
    raise Unsupported('not text: %r' % type(x).__name__)


def mk_str(items):
    if all(not is_sym(x) for x in items):
        return ''.join(chr(x) for x in items)
    return SStr(list(items))


def str_eq(a, b):
    if not isinstance(a, (str, SStr)) or not isinstance(b, (str, SStr)):
        return False
    ia, ib = cps(a), cps(b)
    if len(ia) != len(ib):
        return False
    return sx.And(*[sx.Eq(x, y) for x, y in zip(ia, ib)]) if ia else True


def is_dchar_cp(c):
    return sx.Or(sx.And(c >= 65, c <= 90), sx.And(c >= 48, c <= 57), sx.Eq(c, 95))


def upper_cps(it, items):
    out = []
    for c in items:
        if is_sym(c):
            if not it.ctx.entails(z3.And(c >= 0, c < 128)):
                raise Unsupported('str.upper() of a symbolic non-ASCII character')
            out.append(z3.If(z3.And(c >= 97, c <= 122), c - 32, c))
        else:
            out.extend(ord(ch) for ch in chr(c).upper())
    return out


def sstr_method(it, o, name):
    items = cps(o)

    def upper():
        return mk_str(upper_cps(it, items))

    def split(sep=None, maxsplit=-1):
        if not isinstance(sep, str) or len(sep) != 1:
            raise Unsupported('split of symbolic text on whitespace/multi-character separator')
        s = ord(sep)
        parts, cur, nsplit = [], [], 0
        for x in items:
            if (maxsplit < 0 or nsplit < maxsplit) and it.truth(sx.Eq(x, s)):
                parts.append(mk_str(cur))
                cur = []
                nsplit += 1
            else:
                cur.append(x)
        parts.append(mk_str(cur))
        return parts

    def replace(old, new, count=-1):
        # one character by one character, all occurrences
        if not (isinstance(old, str) and isinstance(new, str) and len(old) == 1 and len(new) == 1 and count == -1):
            raise Unsupported('replace on symbolic text other than one character by one character')
        return mk_str([sx.If(sx.Eq(x, ord(old)), ord(new), x) if is_sym(x) else (ord(new) if x == ord(old) else x) for x in items])

    def encode(encoding='utf-8', errors='strict'):
        enc = encoding.lower().replace('_', '-')
        for c in items:
            if is_sym(c) and not it.ctx.entails(z3.And(c >= 0, c < 128)):
                raise Unsupported('encode of symbolic non-ASCII text')
        if all(not is_sym(c) for c in items):
            return ''.join(chr(c) for c in items).encode(encoding, errors)
        if any((not is_sym(c)) and c >= 128 for c in items):
            raise Unsupported('encode of mixed symbolic / non-ASCII text')
        if enc in ('utf-16-be', 'utf-16be'):
            out = []
            for x in items:
                out += [0, x]
            return V.mk_bytes(out)
        if enc in ('utf-8', 'utf8', 'ascii', 'latin-1', 'latin1'):
            return V.mk_bytes(items)
        raise Unsupported('encode(%s) of symbolic text' % encoding)

    def startswith(prefix):
        p = cps(prefix)
        if len(p) > len(items):
            return False
        return sx.And(*[sx.Eq(x, y) for x, y in zip(items, p)]) if p else True

    def endswith(suffix):
        p = cps(suffix)
        if len(p) > len(items):
            return False
        return sx.And(*[sx.Eq(x, y) for x, y in zip(items[len(items) - len(p):], p)]) if p else True

    def count(sub):
        if isinstance(sub, str) and len(sub) == 1:
            return sx.Sum([sx.If(sx.Eq(x, ord(sub)), 1, 0) for x in items])
        raise Unsupported('count of a substring in symbolic text')

    def join(seq):
        out, first = [], True
        for part in seq:
            if not first:
                out.extend(items)
            out.extend(cps(part))
            first = False
        return mk_str(out)

    def rstrip(chars=None):
        cs = [ord(ch) for ch in (chars if chars is not None else ' \t\n\r\x0b\x0c')]
        n = len(items)
        while n > 0 and it.truth(sx.Or(*[sx.Eq(items[n - 1], ch) for ch in cs])):
            n -= 1
        return mk_str(items[:n])

    def lstrip(chars=None):
        cs = [ord(ch) for ch in (chars if chars is not None else ' \t\n\r\x0b\x0c')]
        i = 0
        while i < len(items) and it.truth(sx.Or(*[sx.Eq(items[i], ch) for ch in cs])):
            i += 1
        return mk_str(items[i:])

    table = dict(upper=upper, split=split, replace=replace, encode=encode, startswith=startswith, endswith=endswith, count=count, join=join, rstrip=rstrip, lstrip=lstrip)
    if name not in table:
        raise Unsupported('method %s on symbolic text' % name)
    return table[name]


DCHAR_RE = '[^A-Z0-9_]{1}'


def digits(env, v, n):
    out = []
    for i in range(n):
        v, r = env.divmod(v, 10)
        out.append(48 + r)
    return out[::-1]


def t_strftime(it, fmt, ts):
    if fmt != '%Y%m%d%H%M%S' or not isinstance(ts, TimeStruct):
        raise Unsupported('strftime format %r' % (fmt,))
    cache = it.ctx.ghost.setdefault('strftime_cache', {}) if it.ctx is not None else {}
    if id(ts) in cache:
        return cache[id(ts)][1]
    env = DivEnv(it.ctx)
    v = ts.vals
    items = (digits(env, v['tm_year'], 4) + digits(env, v['tm_mon'], 2) + digits(env, v['tm_mday'], 2) +
             digits(env, v['tm_hour'], 2) + digits(env, v['tm_min'], 2) + digits(env, v['tm_sec'], 2))
    if all(not is_sym(x) for x in items):
        return ''.join(chr(x) for x in items)
    cache[id(ts)] = (ts, SStr(items))
    return cache[id(ts)][1]


def t_strptime(it, s, fmt):
    if fmt != '%Y%m%d%H%M%S':
        raise Unsupported('strptime format')
    if isinstance(s, str):
        import time
        try:
            r = time.strptime(s, fmt)
        except ValueError as e:
            it.raise_exc('ValueError', str(e))
        return TimeStruct(tuple(r))
    # symbolic text: outcome is left uninterpreted (either ValueError or some struct_time)
    if it.branch(it.ctx.fresh_bool('strptime_fails')):
        it.raise_exc('ValueError', 'time data does not match format')
    c = it.ctx
    return TimeStruct((c.fresh_int('py', 1, 9999), c.fresh_int('pm', 1, 12), c.fresh_int('pd', 1, 31), c.fresh_int('ph', 0, 23),
                       c.fresh_int('pmi', 0, 59), c.fresh_int('ps', 0, 61), c.fresh_int('pw', 0, 6), c.fresh_int('pyd', 1, 366), -1))


def t_struct_time(it, tup):
    return TimeStruct(tuple(tup))


# ----------------------------------------------------------------------------
# file model
# ----------------------------------------------------------------------------
class FileModel:
    """Binary file / io.BytesIO: (content, pos) with concrete length and concrete position.
    (The symbolic-length stream model used for C16 lives in contracts/pycdlibio.py.)"""

    def __init__(self, content=b'', name=None):
        self.items = V.items_of(content) if V.is_bytes(content) else list(content)
        self.pos = 0
        self.closed = False
        self.mode = 'rb+'
        self.log = []  # (op, args) trace for frame conditions
        self.name = name

    def _pyvc_getattr(self, it, name):
        if name in ('read', 'write', 'seek', 'tell', 'close', 'getvalue', 'readinto', 'flush', 'truncate', 'fileno'):
            return Builtin('file.' + name, getattr(self, 'm_' + name), wants_interp=True)
        if name == 'mode':
            return self.mode
        if name == 'closed':
            return self.closed
        raise Unsupported('file attribute %s' % name)

    def m_read(self, it, n=-1):
        if n is None or (not is_sym(n) and n < 0):
            n = max(0, len(self.items) - self.pos)
        if is_sym(n):
            avail = max(0, len(self.items) - self.pos)
            for k in range(0, avail + 1):
                if k == avail:
                    n = k if not it.branch(n < 0) else avail
                    break
                if it.branch(n == k):
                    n = k
                    break
        data = self.items[self.pos:self.pos + n]
        self.pos += len(data)
        self.log.append(('read', self.pos - len(data), len(data)))
        return V.mk_bytes(data)

    def m_readinto(self, it, buf):
        n = len(buf)
        data = self.items[self.pos:self.pos + n]
        self.pos += len(data)
        if isinstance(buf, SBytes):
            buf.items[:len(data)] = data
        elif isinstance(buf, bytearray):
            if any(is_sym(x) for x in data):
                raise Unsupported('readinto of symbolic bytes into concrete bytearray')
            buf[:len(data)] = bytes(data)
        else:
            raise Unsupported('readinto buffer type')
        return len(data)

    def m_write(self, it, data):
        items = V.items_of(data)
        if self.pos > len(self.items):
            self.items.extend([0] * (self.pos - len(self.items)))
        self.items[self.pos:self.pos + len(items)] = items
        self.log.append(('write', self.pos, len(items)))
        self.pos += len(items)
        return len(items)

    def m_seek(self, it, off, whence=0):
        if is_sym(off) or is_sym(whence):
            raise Unsupported('symbolic seek on concrete-position file model')
        if whence == 0:
            if off < 0:
                it.raise_exc('ValueError', 'negative seek value')
            if off > SSIZE_MAX:
                it.raise_exc('OverflowError', 'Python int too large to convert to C ssize_t')
            self.pos = off
        elif whence == 1:
            self.pos = max(0, self.pos + off)
        elif whence == 2:
            self.pos = max(0, len(self.items) + off)
        else:
            it.raise_exc('ValueError', 'invalid whence')
        return self.pos

    def m_tell(self, it):
        return self.pos

    def m_close(self, it):
        self.closed = True

    def m_flush(self, it):
        return None

    def m_getvalue(self, it):
        return V.mk_bytes(self.items)

    def m_truncate(self, it, size=None):
        if size is None:
            size = self.pos
        del self.items[size:]
        return size

    def m_fileno(self, it):
        it.raise_exc('io.UnsupportedOperation', 'fileno')


SSIZE_MAX = 2 ** 63 - 1


class AFile:
    """Binary file with SYMBOLIC length and SYMBOLIC position: content = Array Int -> Int, 0 <= length, 0 <= pos.
    read(n) returns the view content[pos : pos+min(n, max(0, length-pos))] and advances pos by its length;
    seek as io.BytesIO (whence 0: negative -> ValueError; 1/2: clamped at 0)."""

    def __init__(self, arr, length, pos):
        self.arr = arr
        self.length = length
        self.pos = pos
        self.closed = False
        self.seeks = 0

    def _pyvc_getattr(self, it, name):
        if name in ('read', 'seek', 'tell', 'close'):
            return Builtin('afile.' + name, getattr(self, 'm_' + name), wants_interp=True)
        if name == 'mode':
            return 'rb'
        raise Unsupported('file attribute %s' % name)

    def m_read(self, it, n=-1):
        avail = z3.If(self.length - self.pos > 0, self.length - self.pos, 0)
        if n is None:
            k = avail
        else:
            n = sx.lift_int(n)
            k = z3.If(n < 0, avail, z3.If(n < avail, n, avail))
        k = z3.simplify(k)
        data = V.ABytes(self.arr, self.pos, k)
        self.pos = z3.simplify(self.pos + k)
        return data

    def m_seek(self, it, off, whence=0):
        self.seeks += 1
        if is_sym(whence):
            raise Unsupported('symbolic whence')
        off = sx.lift_int(off)
        if whence == 0:
            if it.branch(off < 0):
                it.raise_exc('ValueError', 'negative seek value')
            # positions are C ssize_t / off_t values: io.BytesIO and real files refuse anything larger with OverflowError
            if it.branch(off > SSIZE_MAX):
                it.raise_exc('OverflowError', 'Python int too large to convert to C ssize_t')
            self.pos = off
        elif whence == 1:
            np = self.pos + off
            self.pos = z3.If(np < 0, 0, np)
        elif whence == 2:
            np = self.length + off
            self.pos = z3.If(np < 0, 0, np)
        else:
            it.raise_exc('ValueError', 'invalid whence')
        self.pos = z3.simplify(self.pos)
        return self.pos

    def m_tell(self, it):
        return self.pos

    def m_close(self, it):
        self.closed = True


class AOutFile:
    """Output file with a symbolic position: every write is logged as (position, data) and advances the position."""

    def __init__(self, pos):
        self.pos = pos
        self.log = []

    def _pyvc_getattr(self, it, name):
        if name in ('write', 'seek', 'tell'):
            return Builtin('aout.' + name, getattr(self, 'm_' + name), wants_interp=True)
        if name == 'mode':
            return 'wb'
        raise Unsupported('file attribute %s' % name)

    def m_write(self, it, data):
        n = sx.Len(data)
        self.log.append((self.pos, data))
        self.pos = self.pos + n
        return n

    def m_seek(self, it, off, whence=0):
        if whence == 0:
            self.pos = off
        elif whence == 1:
            self.pos = self.pos + off
        else:
            raise Unsupported('seek from end on the output model')
        return self.pos

    def m_tell(self, it):
        return self.pos


# ----------------------------------------------------------------------------
# attribute access on native values
# ----------------------------------------------------------------------------
def has_sym(x, depth=0):
    if is_sym(x) or isinstance(x, (SBytes, Obj)):
        return True
    if depth < 2 and isinstance(x, (list, tuple)):
        return any(has_sym(y, depth + 1) for y in x)
    return False


def sbytes_method(it, o, name):
    items = V.items_of(o)
    mut = isinstance(o, bytearray) or (isinstance(o, SBytes) and o.mutable)

    def startswith(prefix, *a):
        if a:
            raise Unsupported('startswith with range')
        if isinstance(prefix, tuple):
            return sx.Or(*[startswith(p) for p in prefix])
        p = V.items_of(prefix)
        if len(p) > len(items):
            return False
        return sx.And(*[sx.Eq(x, y) for x, y in zip(items, p)]) if p else True

    def endswith(suffix, *a):
        if a:
            raise Unsupported('endswith with range')
        p = V.items_of(suffix)
        if len(p) > len(items):
            return False
        return sx.And(*[sx.Eq(x, y) for x, y in zip(items[len(items) - len(p):], p)]) if p else True

    def ljust(width, fill=b' '):
        if is_sym(width):
            raise Unsupported('ljust symbolic width')
        f = V.items_of(fill)
        return V.mk_bytes(items + f * max(0, width - len(items)), mut)

    def rjust(width, fill=b' '):
        if is_sym(width):
            raise Unsupported('rjust symbolic width')
        f = V.items_of(fill)
        return V.mk_bytes(f * max(0, width - len(items)) + items, mut)

    def rstrip(chars=None):
        if chars is None:
            cs = list(b' \t\n\r\x0b\x0c')
        else:
            cs = V.items_of(chars)
        n = len(items)
        while n > 0:
            x = items[n - 1]
            if it.truth(sx.Or(*[sx.Eq(x, c) for c in cs])):
                n -= 1
            else:
                break
        return V.mk_bytes(items[:n], mut)

    def lstrip(chars=None):
        if chars is None:
            cs = list(b' \t\n\r\x0b\x0c')
        else:
            cs = V.items_of(chars)
        i = 0
        while i < len(items):
            if it.truth(sx.Or(*[sx.Eq(items[i], c) for c in cs])):
                i += 1
            else:
                break
        return V.mk_bytes(items[i:], mut)

    def strip(chars=None):
        r = rstrip(chars)
        return sbytes_method(it, r, 'lstrip')(chars) if V.is_bytes(r) else r

    def decode(encoding='utf-8', errors='strict'):
        # symbolic content: ASCII iff every byte < 128; otherwise outcome uninterpreted
        enc = encoding.lower().replace('_', '-')
        if enc in ('ascii', 'utf-8', 'utf8', 'latin-1'):
            allascii = sx.And(*[x < 128 if is_sym(x) else x < 128 for x in items]) if items else True
            if it.branch(allascii):
                return SStr(items)
            if enc == 'latin-1':
                return SStr(items)
            if enc == 'ascii':
                it.raise_exc('UnicodeDecodeError', 'ascii codec cannot decode')
            if it.branch(it.ctx.fresh_bool('utf8_invalid')):
                it.raise_exc('UnicodeDecodeError', 'utf-8 codec cannot decode')
            return OpaqueText('utf8-decoded', items)
        if enc in ('utf-16-be', 'utf-16-le', 'utf-16be', 'utf-16le'):
            if len(items) % 2 == 1:
                it.raise_exc('UnicodeDecodeError', 'truncated data')
            if it.branch(it.ctx.fresh_bool('utf16_invalid')):
                it.raise_exc('UnicodeDecodeError', 'utf-16 codec cannot decode')
            return OpaqueText(enc, items)
        raise Unsupported('decode %s of symbolic bytes' % encoding)

    def encode(encoding='utf-8', errors='strict'):
        # only for SStr (ASCII text by construction)
        enc = encoding.lower().replace('_', '-')
        if enc in ('utf-16-be', 'utf-16be'):
            out = []
            for x in items:
                out += [0, x]
            return V.mk_bytes(out)
        if enc in ('utf-16-le', 'utf-16le'):
            out = []
            for x in items:
                out += [x, 0]
            return V.mk_bytes(out)
        if enc in ('utf-8', 'utf8', 'ascii', 'latin-1', 'latin1', 'iso-8859-1'):
            return V.mk_bytes(items)
        raise Unsupported('encode(%s) of symbolic text' % encoding)

    def append(x):
        o.items.append(x)

    def extend(x):
        o.items.extend(V.items_of(x))

    def count(sub):
        if isinstance(sub, int) or is_sym(sub):
            return sx.Sum([sx.If(sx.Eq(x, sub), 1, 0) for x in items])
        raise Unsupported('count of sub-sequence in symbolic bytes')

    def hex_():
        raise Unsupported('hex of symbolic bytes')

    def find(sub, *a):
        if a:
            raise Unsupported('find with range')
        p = V.items_of(sub) if V.is_bytes(sub) else [sub]
        for i in range(0, len(items) - len(p) + 1):
            if it.truth(sx.And(*[sx.Eq(items[i + j], p[j]) for j in range(len(p))])):
                return i
        return -1

    def index(sub, *a):
        r = find(sub, *a)
        if r < 0:
            it.raise_exc('ValueError', 'subsection not found')
        return r

    def split(sep=None, maxsplit=-1):
        if sep is None or not V.is_bytes(sep) or len(sep) != 1:
            raise Unsupported('split of symbolic bytes on whitespace/multi-byte separator')
        s = V.items_of(sep)[0]
        parts = []
        cur = []
        nsplit = 0
        for x in items:
            if (maxsplit < 0 or nsplit < maxsplit) and it.truth(sx.Eq(x, s)):
                parts.append(V.mk_bytes(cur))
                cur = []
                nsplit += 1
            else:
                cur.append(x)
        parts.append(V.mk_bytes(cur))
        return parts

    def upper():
        return V.mk_bytes([sx.If(sx.And(x >= 97, x <= 122), x - 32, x) for x in items], mut)

    def join(seq):
        out = []
        first = True
        for part in seq:
            if not first:
                out.extend(items)
            out.extend(V.items_of(part))
            first = False
        return V.mk_bytes(out)

    def isdigit():
        if not items:
            return False
        return sx.And(*[sx.And(c >= 48, c <= 57) for c in items])

    table = dict(isdigit=isdigit, startswith=startswith, endswith=endswith, ljust=ljust, rjust=rjust, rstrip=rstrip, lstrip=lstrip, strip=strip,
                 decode=decode, append=append, extend=extend, count=count, hex=hex_, find=find, index=index, split=split,
                 upper=upper, join=join)
    if isinstance(o, SStr):
        table['encode'] = encode
    if name not in table:
        raise Unsupported('method %s on symbolic bytes' % name)
    return table[name]


class OpaqueText:
    """Result of decoding symbolic non-ASCII bytes: only its source bytes are known."""

    def __init__(self, enc, items):
        self.enc = enc
        self.items = items

    def _pyvc_getattr(self, it, name):
        if name in ('rstrip', 'lstrip', 'strip', 'upper', 'lower'):
            return Builtin('text.' + name, lambda *a: OpaqueText(self.enc, self.items))
        raise Unsupported('operation %s on opaque decoded text' % name)


def list_method(it, o, name):
    def index(x, *a):
        for i, y in enumerate(o):
            if it.truth(it.equals(y, x)):
                return i
        it.raise_exc('ValueError', 'x not in list')

    def remove(x):
        del o[index(x)]

    def count(x):
        return sx.Sum([sx.If(it.equals(y, x), 1, 0) for y in o])

    def insert(i, x):
        if is_sym(i):
            i = it.concrete_index(i, len(o) + 1, None, None) if False else _split_int(it, i, -len(o) - 1, len(o) + 1)
        o.insert(i, x)

    def pop(i=-1):
        if not o:
            it.raise_exc('IndexError', 'pop from empty list')
        i = it.concrete_index(i, len(o), None, Frame0)
        return o.pop(i)

    def sort(key=None, reverse=False):
        if any(has_sym(x) for x in o) or key is not None and not callable(key):
            raise Unsupported('sort of symbolic list')
        if key is not None:
            o.sort(key=lambda v: it.call(key, [v], {}), reverse=reverse)
        else:
            o.sort(reverse=reverse)

    table = dict(index=index, remove=remove, count=count, insert=insert, pop=pop, sort=sort)
    if name in table:
        return table[name]
    return getattr(o, name)


class _F0:
    func = None

    class module:
        name = '?'


Frame0 = _F0()


def _split_int(it, v, lo, hi):
    for k in range(lo, hi + 1):
        if k == hi or it.branch(v == k):
            return k


def dict_method(it, o, name):
    def get(k, default=None):
        kk = it.dict_key(o, k, None, Frame0, missing_raises=False)
        return o[kk] if kk is not None or (k is None and None in o) else default

    def pop(k, *default):
        kk = it.dict_key(o, k, None, Frame0, missing_raises=not default)
        if kk is None and not (None in o):
            return default[0]
        return o.pop(kk)

    def setdefault(k, default=None):
        if has_sym(k):
            raise Unsupported('setdefault with symbolic key')
        return o.setdefault(k, default)

    table = dict(get=get, pop=pop, setdefault=setdefault)
    if name in table:
        return table[name]
    return getattr(o, name)


def native_attr(it, o, name, node, frame):
    if isinstance(o, SStr):
        return Builtin('str.' + name, sstr_method(it, o, name))
    if isinstance(o, str) and name in ('join', 'split', 'upper', 'startswith', 'endswith', 'count', 'encode'):
        native = getattr(o, name)
        fn = sstr_method(it, o, name)

        def swrapper(*a, **k):
            flat = []
            for x in a:
                flat.extend(x if isinstance(x, (list, tuple)) else [x])
            if any(isinstance(x, SStr) for x in flat):
                return fn(*a, **k)
            try:
                return native(*a, **k)
            except (ValueError, TypeError, UnicodeError) as e:
                it.raise_exc(type(e).__name__, str(e))
        return Builtin('str.' + name, swrapper)
    if isinstance(o, SBytes) or (isinstance(o, (bytes, bytearray)) and name in ('startswith', 'endswith', 'join', 'ljust', 'rjust', 'rstrip', 'lstrip', 'strip', 'find', 'index', 'count', 'split', 'isdigit')):
        fn = sbytes_method(it, o, name)
        native = getattr(o, name, None) if isinstance(o, (bytes, bytearray)) else None

        def wrapper(*a, **k):
            if native is not None and not any(has_sym(x) for x in a) and not any(has_sym(x) for x in k.values()):
                try:
                    return native(*a, **k)
                except (ValueError, TypeError, UnicodeError) as e:
                    it.raise_exc(type(e).__name__, str(e))
            return fn(*a, **k)
        return Builtin('bytes.' + name, wrapper)
    if is_sym(o):
        raise Unsupported('attribute %s of symbolic scalar' % name)
    if isinstance(o, list):
        return Builtin('list.' + name, list_method(it, o, name))
    if isinstance(o, dict):
        return Builtin('dict.' + name, dict_method(it, o, name))
    if isinstance(o, (str, bytes, bytearray, tuple, int, float, set, frozenset, collections.deque, range)):
        try:
            m = getattr(o, name)
        except AttributeError:
            it.raise_exc('AttributeError', '%s has no attribute %s' % (type(o).__name__, name))
        if callable(m):
            def wrapper(*a, **k):
                if isinstance(o, (str, bytes, bytearray, int, float)) and (any(has_sym(x) for x in a) or any(has_sym(x) for x in k.values())):
                    raise Unsupported('%s.%s with symbolic argument' % (type(o).__name__, name))
                try:
                    return m(*a, **k)
                except (ValueError, TypeError, UnicodeError, IndexError, KeyError, OverflowError, LookupError) as e:
                    it.raise_exc(type(e).__name__ if type(e).__name__ in it.loader.builtin_classes else 'ValueError', str(e))
            return Builtin('%s.%s' % (type(o).__name__, name), wrapper)
        return m
    if o is None:
        it.raise_exc('AttributeError', "'NoneType' object has no attribute '%s'" % name)
    if isinstance(o, type):
        if o is bytes and name == 'fromhex':
            return Builtin('bytes.fromhex', bytes.fromhex)
        if o is dict and name == 'fromkeys':
            return Builtin('dict.fromkeys', dict.fromkeys)
        if o is int and name == 'from_bytes':
            def from_bytes(b, byteorder='big', signed=False):
                return bytes_to_int(V.items_of(b), byteorder == 'little', signed)
            return Builtin('int.from_bytes', from_bytes)
        if o is bytearray and name == 'fromhex':
            return Builtin('bytearray.fromhex', bytearray.fromhex)
    if isinstance(o, (FuncVal, Builtin, BoundMethod)):
        if name == '__name__':
            return getattr(o, 'qualname', getattr(o, 'name', '?'))
        if name in ('cache_clear', 'cache_info'):
            return Builtin('lru_cache.' + name, lambda *a: None)   # functools.lru_cache is treated as identity
    raise Unsupported('attribute %s on %s' % (name, type(o).__name__))


def call_native(it, fn, args, kwargs):
    """Call of a native Python type object (int, bytes, ...): routed to the b_* models below."""
    tc = it.loader.type_calls.get(fn)
    if tc is not None:
        return tc(it, *args, **kwargs)
    raise Unsupported('call of native %r' % (fn,))


# ----------------------------------------------------------------------------
# builtins
# ----------------------------------------------------------------------------
def b_len(it, x):
    if isinstance(x, (SBytes, list, tuple, dict, str, bytes, bytearray, set, frozenset, range, collections.deque)):
        return len(x)
    if isinstance(x, V.ABytes):
        return x.length
    if isinstance(x, Obj):
        m = x.cls.lookup('__len__')
        if m is not None:
            return it.call(BoundMethod(x, m), [], {})
    if hasattr(x, '_pyvc_len'):
        return x._pyvc_len(it)
    it.raise_exc('TypeError', 'object of type %s has no len()' % type(x).__name__)


def b_min(it, *args, **kw):
    if kw:
        raise Unsupported('min with key')
    if len(args) == 1:
        args = list(it.iterate(args[0], None, Frame0))
    if not args:
        it.raise_exc('ValueError', 'min() arg is an empty sequence')
    r = args[0]
    for x in args[1:]:
        if is_sym(r) or is_sym(x):
            r = z3.If(sx.lift_int(x) < sx.lift_int(r), sx.lift_int(x), sx.lift_int(r))
        else:
            r = x if x < r else r
    return r


def b_max(it, *args, **kw):
    if kw:
        raise Unsupported('max with key')
    if len(args) == 1:
        args = list(it.iterate(args[0], None, Frame0))
    if not args:
        it.raise_exc('ValueError', 'max() arg is an empty sequence')
    r = args[0]
    for x in args[1:]:
        if is_sym(r) or is_sym(x):
            r = z3.If(sx.lift_int(x) > sx.lift_int(r), sx.lift_int(x), sx.lift_int(r))
        else:
            r = x if x > r else r
    return r


def b_int(it, x=0, base=None):
    if is_sym(x):
        if z3.is_bool(x):
            return z3.If(x, 1, 0)
        return x
    if isinstance(x, (SBytes, SStr)):
        items = x.items
        if base not in (None, 10):
            raise Unsupported('int() of symbolic text with base')
        if not items:
            it.raise_exc('ValueError', 'invalid literal for int()')
        alld = sx.And(*[sx.And(c >= 48, c <= 57) for c in items])
        if it.branch(alld):
            tot = 0
            for c in items:
                tot = tot * 10 + (c - 48)
            return tot
        if len(items) <= 4:
            # exact CPython semantics for short strings: classify every character (digit, sign, underscore, ASCII whitespace,
            # other) by forking, ask CPython about a representative of that class string, and build the value from the digits
            rep = []
            for c in items:
                if not is_sym(c):
                    rep.append(chr(c) if c < 128 else 'x')
                elif it.branch(sx.And(c >= 48, c <= 57)):
                    rep.append('1')
                elif it.branch(c == 43):
                    rep.append('+')
                elif it.branch(c == 45):
                    rep.append('-')
                elif it.branch(c == 95):
                    rep.append('_')
                elif it.branch(sx.Or(c == 32, sx.And(c >= 9, c <= 13))):
                    rep.append(' ')
                else:
                    rep.append('x')
            rs = ''.join(rep)
            try:
                int(rs.encode('ascii') if not isinstance(x, SStr) else rs)
            except ValueError:
                it.raise_exc('ValueError', 'invalid literal for int()')
            tot = 0
            for c, r in zip(items, rep):
                if r.isdigit():
                    tot = tot * 10 + (c - 48)
            return -tot if '-' in rs else tot
        # not all digits: CPython also accepts sign, whitespace, underscores -> left uninterpreted
        if it.branch(it.ctx.fresh_bool('int_parse_fails')):
            it.raise_exc('ValueError', 'invalid literal for int()')
        return it.ctx.fresh_int('int_parse')
    if isinstance(x, OpaqueText):
        if it.branch(it.ctx.fresh_bool('int_parse_fails')):
            it.raise_exc('ValueError', 'invalid literal for int()')
        return it.ctx.fresh_int('int_parse')
    try:
        if base is None:
            return int(x)
        return int(x, base)
    except ValueError as e:
        it.raise_exc('ValueError', str(e))
    except TypeError as e:
        it.raise_exc('TypeError', str(e))


def b_bytes(it, x=b'', *a):
    if isinstance(x, SBytes):
        return V.mk_bytes(x.items, False)
    if is_sym(x):
        raise Unsupported('bytes(symbolic int)')
    if isinstance(x, (list, tuple)):
        if any(is_sym(i) for i in x):
            return SBytes(list(x))
        return bytes(x)
    return bytes(x, *a)


def b_bytearray(it, x=b'', *a):
    if isinstance(x, SBytes):
        return SBytes(x.items, True)
    if is_sym(x):
        raise Unsupported('bytearray(symbolic int)')
    if isinstance(x, (list, tuple)) and any(is_sym(i) for i in x):
        return SBytes(list(x), True)
    return bytearray(x, *a)


def b_isinstance(it, x, spec):
    if isinstance(spec, tuple):
        return any(b_isinstance(it, x, s) for s in spec)
    if isinstance(spec, ClassInfo):
        if isinstance(x, Obj):
            return x.cls.is_subclass(spec)
        if isinstance(x, FileModel) and spec.name in ('RawIOBase', 'BufferedIOBase', 'IOBase'):
            return spec.name != 'RawIOBase'
        return False
    if spec is int:
        return (is_sym(x) and z3.is_int(x)) or isinstance(x, int)
    if spec is bool:
        return (is_sym(x) and z3.is_bool(x)) or isinstance(x, bool)
    if spec is bytes:
        return isinstance(x, bytes) or (isinstance(x, SBytes) and not x.mutable and not isinstance(x, SStr))
    if spec is bytearray:
        return isinstance(x, bytearray) or (isinstance(x, SBytes) and x.mutable)
    if spec is str:
        return isinstance(x, (str, SStr, OpaqueText))
    if isinstance(spec, type):
        if is_sym(x) or isinstance(x, (SBytes, Obj)):
            return False
        return isinstance(x, spec)
    raise Unsupported('isinstance against %r' % (spec,))


def b_hasattr(it, o, name):
    from .interp import PyExc
    try:
        it.getattr(o, name)
        return True
    except PyExc as e:
        if e.obj.cls.name == 'AttributeError':
            return False
        raise
    except Unsupported:
        if isinstance(o, FileModel):
            return False
        raise


def b_setattr(it, o, name, v):
    it.setattr(o, name, v)


def b_getattr(it, o, name, *default):
    from .interp import PyExc
    try:
        return it.getattr(o, name)
    except PyExc as e:
        if default and e.obj.cls.name == 'AttributeError':
            return default[0]
        raise


def b_ord(it, c):
    if isinstance(c, SBytes):
        if len(c) != 1:
            it.raise_exc('TypeError', 'ord() expected a character')
        return c.items[0]
    return ord(c)


class SymRange:
    """range(start, stop) with a symbolic stop: iterated lazily, forking on 'k < stop' at every step.  Terminates only if the loop
    body bounds the count (e.g. by running out of buffer); otherwise the unroll bound makes the unit undecided."""

    def __init__(self, start, stop):
        self.start, self.stop = start, stop

    def __bool__(self):
        raise Unsupported('truth value of a symbolic range taken outside Interp.truth')

    def __len__(self):
        raise Unsupported('len() of a symbolic range')

    def _pyvc_iter(self, it):
        k = self.start
        n = 0
        while it.branch(sx.lift_int(k) < self.stop):
            yield k
            k = k + 1
            n += 1
            if n > it.max_unroll:
                from .interp import Incomplete
                raise Incomplete('range with a symbolic bound did not terminate within the unroll bound')


def b_range(it, *a):
    if any(is_sym(x) for x in a):
        if len(a) == 1:
            return SymRange(0, a[0])
        if len(a) == 2:
            return SymRange(a[0], a[1])
        raise Unsupported('range with symbolic start/step')
    return range(*a)


def b_sum(it, xs, start=0):
    tot = start
    for x in it.iterate(xs, None, Frame0):
        tot = tot + x
    return tot


def b_abs(it, x):
    if is_sym(x):
        return z3.If(x < 0, -x, x)
    return abs(x)


def b_bool(it, x=False):
    if is_sym(x):
        return sx.to_bool(x)
    return it.truth(x)


def b_divmod(it, a, b):
    return it.int_div(a, b, None, Frame0)


def b_sorted(it, xs, key=None, reverse=False):
    xs = list(it.iterate(xs, None, Frame0))
    if any(has_sym(x) for x in xs):
        raise Unsupported('sorted of symbolic values')
    if key is not None:
        return sorted(xs, key=lambda v: it.call(key, [v], {}), reverse=reverse)
    return sorted(xs, reverse=reverse)


def b_any(it, xs):
    for x in it.iterate(xs, None, Frame0):
        if it.truth(x):
            return True
    return False


def b_all(it, xs):
    for x in it.iterate(xs, None, Frame0):
        if not it.truth(x):
            return False
    return True


def b_str(it, x=''):
    if isinstance(x, Obj) and x.cls.is_subclass(it.loader.builtin_classes['BaseException']):
        a = x.fields.get('args', ())
        return str(a[0]) if a and isinstance(a[0], str) else '<exception message>'
    if is_sym(x) or isinstance(x, (SBytes, Obj)):
        if isinstance(x, SStr):
            return x
        raise Unsupported('str() of symbolic value')
    return str(x)


def b_format(it, x, spec=''):
    if is_sym(x):
        raise Unsupported('format() of symbolic value')
    return format(x, spec)


def b_list(it, x=()):
    return list(it.iterate(x, None, Frame0))


def b_tuple(it, x=()):
    return tuple(it.iterate(x, None, Frame0))


def b_open(it, *a, **k):
    # a contract may register host files: ghost['host_files'][name] = factory() -> a fresh file model positioned at 0
    files = it.ctx.ghost.get('host_files') or {}
    if a and isinstance(a[0], str) and a[0] in files:
        mode = a[1] if len(a) > 1 else k.get('mode', 'r')
        if 'b' not in mode or any(ch in mode for ch in 'wa+x'):
            raise Unsupported('open() of a registered host file in mode %r' % (mode,))
        return files[a[0]]()
    raise Unsupported('open() of a host file')


def b_type(it, x):
    if isinstance(x, Obj):
        return x.cls
    if is_sym(x):
        return bool if z3.is_bool(x) else int
    if isinstance(x, SBytes):
        return bytearray if x.mutable else bytes
    return type(x)


def b_print(it, *a, **k):
    return None


def b_id(it, x):
    return id(x)


def b_chr(it, x):
    if is_sym(x):
        raise Unsupported('chr of symbolic')
    return chr(x)


def b_hex(it, x):
    if is_sym(x):
        raise Unsupported('hex of symbolic')
    return hex(x)


def b_repr(it, x):
    if has_sym(x):
        return '<symbolic>'
    return repr(x)


def b_enumerate(it, xs, start=0):
    return list(enumerate(it.iterate(xs, None, Frame0), start))


def b_zip(it, *xs):
    return list(zip(*[it.iterate(x, None, Frame0) for x in xs]))


def b_reversed(it, xs):
    return list(it.iterate(xs, None, Frame0))[::-1]


def b_dict(it, *a, **k):
    return dict(*a, **k)


def b_set(it, x=()):
    xs = list(it.iterate(x, None, Frame0))
    if any(has_sym(v) for v in xs):
        raise Unsupported('set of symbolic values')
    return set(xs)


def b_float(it, x=0.0):
    if is_sym(x):
        return x  # ints are kept exact; float() of an int-valued term is identity in this model
    return float(x)


def b_callable(it, x):
    return isinstance(x, (FuncVal, BoundMethod, Builtin, ClassInfo)) or callable(x)


def b_super(it, *a):
    raise Unsupported('super()')


class MemView:
    """memoryview(b).cast('B') over a mutable byte buffer: same storage"""

    def __init__(self, buf):
        self.buf = buf

    def _pyvc_getattr(self, it, name):
        if name == 'cast':
            return Builtin('memoryview.cast', lambda fmt: self if fmt == 'B' else (_ for _ in ()).throw(Unsupported('memoryview.cast(%r)' % fmt)))
        raise Unsupported('memoryview.%s' % name)

    def _pyvc_len(self, it):
        return len(self.buf)

    def _pyvc_setitem(self, it, idx, v):
        it.store_subscript(self.buf, idx, v, None, Frame0)

    def _pyvc_getitem(self, it, idx, node, frame):
        return it.subscript(self.buf, idx, node, frame)


def b_memoryview(it, x):
    if isinstance(x, SBytes) and x.mutable:
        return MemView(x)
    if isinstance(x, bytearray):
        return MemView(x)
    if V.is_bytes(x):
        return MemView(x)
    it.raise_exc('TypeError', 'memoryview: a bytes-like object is required')


# ----------------------------------------------------------------------------
# bisect
# ----------------------------------------------------------------------------
def bis_left(it, a, x, lo=0, hi=None):
    import ast as _ast
    if hi is None:
        hi = len(a)
    while lo < hi:
        mid = (lo + hi) // 2
        if it.truth(it.compare(_ast.Lt(), a[mid], x, None, Frame0)):
            lo = mid + 1
        else:
            hi = mid
    return lo


def bis_right(it, a, x, lo=0, hi=None):
    import ast as _ast
    if hi is None:
        hi = len(a)
    while lo < hi:
        mid = (lo + hi) // 2
        if it.truth(it.compare(_ast.Lt(), x, a[mid], None, Frame0)):
            hi = mid
        else:
            lo = mid + 1
    return lo


def bis_insort_left(it, a, x, lo=0, hi=None):
    a.insert(bis_left(it, a, x, lo, hi), x)


def bis_insort_right(it, a, x, lo=0, hi=None):
    a.insert(bis_right(it, a, x, lo, hi), x)


# ----------------------------------------------------------------------------
# misc modules
# ----------------------------------------------------------------------------
class UUIDModel:
    def __init__(self, items):
        self.items = items

    def _pyvc_getattr(self, it, name):
        if name == 'bytes':
            return V.mk_bytes(self.items)
        if name == 'bytes_le':
            i = self.items
            return V.mk_bytes(i[3::-1] + i[5:3:-1] + i[7:5:-1] + i[8:])
        raise Unsupported('uuid.%s' % name)


def u_uuid4(it):
    if it.ctx.ghost.get('rand_fixed'):
        return UUIDModel([0] * 16)
    return UUIDModel([it.ctx.fresh_int('uuid', 0, 255) for _ in range(16)])


def u_UUID(it, hex=None, bytes=None, bytes_le=None, **k):
    if bytes is not None:
        if len(bytes) != 16:
            it.raise_exc('ValueError', 'bytes is not a 16-char string')
        return UUIDModel(V.items_of(bytes))
    if bytes_le is not None:
        if len(bytes_le) != 16:
            it.raise_exc('ValueError', 'bytes_le is not a 16-char string')
        i = V.items_of(bytes_le)
        return UUIDModel(i[3::-1] + i[5:3:-1] + i[7:5:-1] + i[8:])
    raise Unsupported('uuid.UUID form')


def r_getrandbits(it, k):
    if it.ctx.ghost.get('rand_fixed'):
        return 0
    return it.ctx.fresh_int('rand', 0, (1 << k) - 1)


def re_sub(it, pat, repl, s, *a, **k):
    import re
    if isinstance(s, SStr):
        return re_subn(it, pat, repl, s, *a, **k)[0]
    if has_sym(s) or has_sym(pat) or has_sym(repl):
        raise Unsupported('re.sub on symbolic text')
    return re.sub(pat, repl, s, *a, **k)


def re_subn(it, pat, repl, s, *a, **k):
    import re
    if isinstance(s, SStr):
        # model of exactly one pattern: every character that is not A-Z 0-9 _ is replaced (one for one)
        if pat != DCHAR_RE or not isinstance(repl, str) or len(repl) != 1 or a or k:
            raise Unsupported('re.sub(%r) on symbolic text' % (pat,))
        out, cnt = [], 0
        for c in s.items:
            ok = is_dchar_cp(c)
            out.append(sx.If(ok, c, ord(repl)) if is_sym(ok) else (c if ok else ord(repl)))
            cnt = cnt + (sx.If(ok, 0, 1) if is_sym(ok) else (0 if ok else 1))
        return mk_str(out), cnt
    if has_sym(s):
        raise Unsupported('re.subn on symbolic text')
    return re.subn(pat, repl, s, *a, **k)


def m_floor(it, x):
    import math
    if is_sym(x):
        return x
    return math.floor(x)


def m_ceil(it, x):
    import math
    if is_sym(x):
        return x
    return math.ceil(x)


class Logger:
    def _pyvc_getattr(self, it, name):
        return Builtin('logger.' + name, lambda *a, **k: None)


def exc_init(it, self, *args):
    self.fields['args'] = tuple(args)


def io_bytesio(it, initial=b''):
    return FileModel(initial)


def install(loader):
    B = {}

    def reg(name, fn, wants=True):
        B[name] = Builtin(name, fn, wants_interp=wants)
    for name, fn in [('len', b_len), ('min', b_min), ('max', b_max), ('isinstance', b_isinstance),
                     ('hasattr', b_hasattr), ('getattr', b_getattr), ('setattr', b_setattr), ('ord', b_ord), ('range', b_range), ('sum', b_sum),
                     ('abs', b_abs), ('divmod', b_divmod), ('sorted', b_sorted), ('any', b_any),
                     ('all', b_all), ('format', b_format), ('open', b_open), ('type', b_type), ('print', b_print), ('id', b_id),
                     ('chr', b_chr), ('hex', b_hex), ('repr', b_repr), ('enumerate', b_enumerate), ('zip', b_zip),
                     ('reversed', b_reversed), ('callable', b_callable), ('super', b_super), ('memoryview', b_memoryview)]:
        reg(name, fn)
    B['True'] = True
    B['False'] = False
    B['None'] = None
    B['object'] = object
    B['NotImplemented'] = NotImplemented
    B['__debug__'] = True
    # type objects that are also used with isinstance: keep the python types, calls are routed in call_native
    for t in (int, bytes, bytearray, str, list, tuple, dict, set, bool, float, frozenset):
        B[t.__name__] = t
    loader.type_calls = {int: b_int, bytes: b_bytes, bytearray: b_bytearray, str: b_str, list: b_list, tuple: b_tuple,
                         dict: b_dict, set: b_set, bool: b_bool, float: b_float, frozenset: b_set}

    # exception classes
    ex = {}

    def mk(name, *bases):
        ci = ClassInfo(name, '', [ex[b] for b in bases], {}, builtin=True)
        ex[name] = ci
        return ci
    base = mk('BaseException')
    base.attrs['__init__'] = Builtin('BaseException.__init__', exc_init, wants_interp=True)
    base.attrs['__init__'].is_method = True
    mk('Exception', 'BaseException')
    for n, b in [('ArithmeticError', 'Exception'), ('ZeroDivisionError', 'ArithmeticError'), ('OverflowError', 'ArithmeticError'),
                 ('LookupError', 'Exception'), ('IndexError', 'LookupError'), ('KeyError', 'LookupError'),
                 ('ValueError', 'Exception'), ('UnicodeError', 'ValueError'), ('UnicodeDecodeError', 'UnicodeError'),
                 ('UnicodeEncodeError', 'UnicodeError'), ('TypeError', 'Exception'), ('AttributeError', 'Exception'),
                 ('AssertionError', 'Exception'), ('RuntimeError', 'Exception'), ('NotImplementedError', 'RuntimeError'),
                 ('OSError', 'Exception'), ('StopIteration', 'Exception'), ('NameError', 'Exception'),
                 ('struct.error', 'Exception'), ('io.UnsupportedOperation', 'OSError'), ('ImportError', 'Exception'),
                 ('MemoryError', 'Exception'), ('RecursionError', 'RuntimeError'), ('EOFError', 'Exception'),
                 ('FragmentReturn', 'BaseException')]:
        mk(n, b)
    ex['IOError'] = ex['OSError']
    ex['EnvironmentError'] = ex['OSError']
    loader.builtin_classes = ex
    for n, c in ex.items():
        if '.' not in n:
            B[n] = c
    loader.builtins = B

    def module(name, **ns):
        m = ModuleVal(name, {}, std=True)
        for k, v in ns.items():
            m.ns[k] = v if not callable(v) or isinstance(v, (ClassInfo, Builtin, type)) else Builtin(name + '.' + k, v, wants_interp=True)
        loader.std[name] = m
        return m

    module('struct', pack=s_pack, unpack=s_unpack, unpack_from=s_unpack_from, calcsize=Builtin('struct.calcsize', s_calcsize), error=ex['struct.error'])
    module('time', time=t_time, gmtime=t_gmtime, localtime=t_localtime, strftime=t_strftime, strptime=t_strptime, struct_time=t_struct_time)
    module('os', SEEK_SET=0, SEEK_CUR=1, SEEK_END=2, getenv=Builtin('os.getenv', lambda *a: a[1] if len(a) > 1 else None))
    module('sys', platform='linux', version_info=(3, 12, 1, 'final', 0), maxsize=(1 << 63) - 1)
    iomod = module('io', BytesIO=io_bytesio, UnsupportedOperation=ex['io.UnsupportedOperation'], SEEK_SET=0, SEEK_CUR=1, SEEK_END=2)
    iobase = ClassInfo('IOBase', 'io', [], {}, builtin=True)
    rawio = ClassInfo('RawIOBase', 'io', [iobase], {}, builtin=True)
    bufio = ClassInfo('BufferedIOBase', 'io', [iobase], {}, builtin=True)
    iomod.ns.update(IOBase=iobase, RawIOBase=rawio, BufferedIOBase=bufio)
    module('bisect', bisect_left=bis_left, bisect_right=bis_right, bisect=bis_right, insort_left=bis_insort_left,
           insort_right=bis_insort_right, insort=bis_insort_right)
    cm = module('collections', deque=Builtin('collections.deque', lambda x=(): collections.deque(x)))
    cm.ns['abc'] = ModuleVal('collections.abc', {}, std=True)
    loader.std['collections.abc'] = cm.ns['abc']
    module('functools')
    module('math', floor=m_floor, ceil=m_ceil)
    module('re', sub=re_sub, subn=re_subn)
    module('random', getrandbits=r_getrandbits)
    module('uuid', uuid4=u_uuid4, UUID=u_UUID)
    module('logging', getLogger=Builtin('logging.getLogger', lambda *a: Logger()))
    module('inspect')
    module('warnings')
    module('typing')
    module('codecs')
    module('__future__', print_function=None, absolute_import=None)
