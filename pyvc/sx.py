"""Expression helpers that evaluate both symbolically (z3 terms) and concretely.

Contracts are written once with these helpers.  Under python3-vt (z3 present) the
clauses become z3 formulas; under /venv/bin/python (no z3) the very same code is
evaluated on the concrete values observed from the real function, so the SMT
post-condition and the replay oracle cannot drift apart.
"""
try:
    import z3  # type: ignore
except ImportError:  # concrete-only mode (replay under /venv/bin/python)
    z3 = None


def is_sym(x):
    return z3 is not None and isinstance(x, z3.ExprRef)


def any_sym(*xs):
    return any(is_sym(x) for x in xs)


def to_bool(x):
    """Coerce a python/z3 value to something usable as a formula."""
    if is_sym(x):
        if z3.is_bool(x):
            return x
        return x != 0  # Int and BitVec alike
    return bool(x)


def And(*xs):
    flat = []
    for x in xs:
        if isinstance(x, (list, tuple)):
            flat.extend(x)
        else:
            flat.append(x)
    flat = [to_bool(x) for x in flat]
    if any(is_sym(x) for x in flat):
        if any((not is_sym(x)) and x is False for x in flat):
            return False
        sy = [x for x in flat if is_sym(x)]
        return z3.And(*sy) if len(sy) > 1 else sy[0]
    return all(flat)


def Or(*xs):
    flat = []
    for x in xs:
        if isinstance(x, (list, tuple)):
            flat.extend(x)
        else:
            flat.append(x)
    flat = [to_bool(x) for x in flat]
    if any(is_sym(x) for x in flat):
        if any((not is_sym(x)) and x is True for x in flat):
            return True
        sy = [x for x in flat if is_sym(x)]
        return z3.Or(*sy) if len(sy) > 1 else sy[0]
    return any(flat)


def Not(x):
    x = to_bool(x)
    if is_sym(x):
        return z3.Not(x)
    return not x


def Implies(a, b):
    return Or(Not(a), b)


def Iff(a, b):
    a = to_bool(a)
    b = to_bool(b)
    if any_sym(a, b):
        return lift_bool(a) == lift_bool(b)
    return a == b


def lift_bool(x):
    if is_sym(x):
        return x
    return z3.BoolVal(bool(x))


def lift_int(x):
    if is_sym(x):
        return x
    if isinstance(x, bool):
        return z3.IntVal(1 if x else 0)
    return z3.IntVal(int(x))


def is_bv(x):
    return is_sym(x) and z3.is_bv(x)


def If(c, a, b):
    c = to_bool(c)
    if is_sym(c) and (is_bv(a) or is_bv(b)):
        w = (a if is_bv(a) else b).size()
        return z3.If(c, a if is_bv(a) else z3.BitVecVal(a, w), b if is_bv(b) else z3.BitVecVal(b, w))
    if is_sym(c):
        if isinstance(a, bool) or isinstance(b, bool) or (is_sym(a) and z3.is_bool(a)) or (is_sym(b) and z3.is_bool(b)):
            return z3.If(c, lift_bool(to_bool(a)), lift_bool(to_bool(b)))
        return z3.If(c, lift_int(a), lift_int(b))
    return a if c else b


def Min(a, b):
    if any_sym(a, b):
        return z3.If(lift_int(a) <= lift_int(b), lift_int(a), lift_int(b))
    return min(a, b)


def Max(a, b):
    if any_sym(a, b):
        return z3.If(lift_int(a) >= lift_int(b), lift_int(a), lift_int(b))
    return max(a, b)


def Eq(a, b):
    """Structural equality over ints, bools, None, strings, byte strings, tuples/lists."""
    from . import values as V
    if isinstance(a, (V.SBytes, bytes, bytearray)) or isinstance(b, (V.SBytes, bytes, bytearray)):
        return V.bytes_eq(a, b)
    if isinstance(a, (tuple, list)) and isinstance(b, (tuple, list)):
        if len(a) != len(b):
            return False
        return And(*[Eq(x, y) for x, y in zip(a, b)])
    if is_sym(a) and z3.is_bv(a) or is_sym(b) and z3.is_bv(b):
        w = (a if is_sym(a) and z3.is_bv(a) else b).size()
        la = a if is_sym(a) and z3.is_bv(a) else (z3.Int2BV(a, w) if is_sym(a) else z3.BitVecVal(a, w))
        lb = b if is_sym(b) and z3.is_bv(b) else (z3.Int2BV(b, w) if is_sym(b) else z3.BitVecVal(b, w))
        return la == lb
    if any_sym(a, b):
        if (is_sym(a) and z3.is_bool(a)) or (is_sym(b) and z3.is_bool(b)):
            if not is_sym(a) and not isinstance(a, bool):
                return False
            if not is_sym(b) and not isinstance(b, bool):
                return False
            return lift_bool(a) == lift_bool(b)
        if (not is_sym(a) and not isinstance(a, int)) or (not is_sym(b) and not isinstance(b, int)):
            return False
        return lift_int(a) == lift_int(b)
    return a == b


def Sum(xs):
    xs = list(xs)
    if not xs:
        return 0
    if any(is_sym(x) for x in xs):
        return z3.Sum(*[lift_int(x) for x in xs])
    return sum(xs)


def le_int(items):
    """Little-endian integer value of a list of byte values."""
    tot = 0
    for i, b in enumerate(items):
        tot = tot + b * (256 ** i)
    return tot


def be_int(items):
    tot = 0
    n = len(items)
    for i, b in enumerate(items):
        tot = tot + b * (256 ** (n - 1 - i))
    return tot


def simplify(x):
    if is_sym(x):
        return z3.simplify(x)
    return x


def Len(x):
    """length of a byte string in either representation"""
    if hasattr(x, 'length') and hasattr(x, 'arr'):
        return x.length
    return len(x)


def AllBytes(x, value):
    """every byte of x equals value"""
    if hasattr(x, 'length') and hasattr(x, 'arr'):
        i = z3.Int('__i')
        return z3.ForAll([i], z3.Implies(z3.And(i >= 0, i < x.length), z3.Select(x.arr, x.off + i) == value))
    if isinstance(x, (bytes, bytearray)):
        return bytes(x) == bytes([value]) * len(x)
    from . import values as V
    return And(*[Eq(b, value) for b in V.items_of(x)]) if len(x) else True


def LShR(a, k):
    """logical shift right for bit-vectors, >> for python ints"""
    if is_bv(a):
        return z3.LShR(a, k)
    return a >> k


def IsSlice(result, src, start, k):
    """result is exactly src[start : start+k] (k >= 0); src/result may be array-backed views or concrete bytes"""
    if hasattr(result, 'arr') and hasattr(src, 'arr'):
        same = z3.eq(result.arr, src.arr)
        if not same:
            return False
        return And(result.length == k, Or(k == 0, result.off == src.off + start))
    if hasattr(src, 'arr'):
        # a concrete result against a symbolic source: only the empty string is decidable here
        return And(len(result) == 0, k == 0)
    return bytes(result) == bytes(src)[start:start + k] and len(result) == k
