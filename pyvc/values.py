"""Value domain of pyvc.

Concrete Python values (int, bool, None, str, bytes, float, tuple, list, dict) stay native.
Symbolic integers / booleans are plain z3 terms (Int / Bool sort).
Everything else is one of the classes below.
"""
from . import sx
from .sx import z3, is_sym


class Unsupported(Exception):
    """Raised when the code under analysis leaves pyvc's subset."""


class SBytes:
    """Byte string of concrete length whose elements are ints or z3 Int terms in 0..255."""
    __slots__ = ('items', 'mutable')

    def __init__(self, items, mutable=False):
        self.items = list(items)
        self.mutable = mutable

    def __len__(self):
        return len(self.items)

    def __repr__(self):
        return 'SBytes(%s%s)' % ('mutable,' if self.mutable else '', ','.join(str(x) for x in self.items[:40]) + ('...' if len(self.items) > 40 else ''))

    def is_concrete(self):
        return all(not is_sym(x) for x in self.items)

    def concrete(self):
        b = bytes(self.items)
        return bytearray(b) if self.mutable else b

    def __getitem__(self, idx):
        if isinstance(idx, slice):
            return norm_bytes(SBytes(self.items[idx], self.mutable))
        return self.items[idx]

    def __eq__(self, other):
        return bytes_eq(self, other)

    def __ne__(self, other):
        return sx.Not(bytes_eq(self, other))

    __hash__ = None


def is_bytes(x):
    if type(x).__name__ == 'SStr':
        return False
    return isinstance(x, (bytes, bytearray, SBytes))


def items_of(x):
    if isinstance(x, SBytes):
        return x.items
    if isinstance(x, (bytes, bytearray)):
        return list(x)
    raise Unsupported('not a byte string: %r' % (type(x),))


def norm_bytes(x):
    """Turn an all-concrete SBytes into native bytes/bytearray."""
    if isinstance(x, SBytes) and x.is_concrete():
        return x.concrete()
    return x


def mk_bytes(items, mutable=False):
    return norm_bytes(SBytes(items, mutable))


def bytes_eq(a, b):
    if not is_bytes(a) or not is_bytes(b):
        return False
    ia, ib = items_of(a), items_of(b)
    if len(ia) != len(ib):
        return False
    return sx.And(*[sx.Eq(x, y) for x, y in zip(ia, ib)]) if ia else True


class ClassInfo:
    """A class of the code under analysis (or a modelled builtin exception class)."""

    def __init__(self, name, module, bases, attrs, node=None, builtin=False):
        self.name = name
        self.module = module
        self.bases = bases  # list of ClassInfo
        self.attrs = attrs  # name -> value (FuncVal for methods)
        self.node = node
        self.builtin = builtin

    def mro(self):
        out = [self]
        for b in self.bases:
            for c in b.mro():
                if c not in out:
                    out.append(c)
        return out

    def lookup(self, name):
        for c in self.mro():
            if name in c.attrs:
                return c.attrs[name]
        return None

    def is_subclass(self, other):
        return other in self.mro()

    @property
    def qualname(self):
        return (self.module + '.' if self.module else '') + self.name

    def __repr__(self):
        return '<class %s>' % self.qualname


class Obj:
    """Instance of a ClassInfo; fields live in a dict."""

    def __init__(self, cls):
        object.__setattr__(self, 'cls', cls)
        object.__setattr__(self, 'fields', {})
        object.__setattr__(self, 'site', None)

    # convenience so that contracts can say obj.field in both modes
    def __getattr__(self, name):
        f = object.__getattribute__(self, 'fields')
        if name in f:
            return f[name]
        raise AttributeError(name)

    def __setattr__(self, name, value):
        self.fields[name] = value

    def __repr__(self):
        return '<%s obj %s>' % (self.cls.name, {k: v for k, v in list(self.fields.items())[:8]})


class FuncVal:
    def __init__(self, node, module, qualname, cls=None, kind='function'):
        self.node = node
        self.module = module  # ModuleVal
        self.qualname = qualname
        self.cls = cls
        self.kind = kind  # function | staticmethod | classmethod | property
        self.closure = None

    def __repr__(self):
        return '<func %s>' % self.qualname


class BoundMethod:
    def __init__(self, obj, func):
        self.obj = obj
        self.func = func


class Builtin:
    """A modelled (trusted) builtin/stdlib function."""

    def __init__(self, name, fn, wants_interp=False):
        self.name = name
        self.fn = fn
        self.wants_interp = wants_interp

    def __repr__(self):
        return '<builtin %s>' % self.name


class ModuleVal:
    def __init__(self, name, ns=None, std=False):
        self.name = name
        self.ns = ns if ns is not None else {}
        self.std = std

    def __repr__(self):
        return '<module %s>' % self.name


class Lazy:
    """Module-level name whose initialiser is outside the subset; fails only if used."""

    def __init__(self, why):
        self.why = why


class ABytes:
    """Byte string of *symbolic* length: element i is Select(arr, off + i); 0 <= length."""
    __slots__ = ('arr', 'off', 'length')

    def __init__(self, arr, off, length):
        self.arr = arr
        self.off = off
        self.length = length

    def at(self, i):
        return z3.Select(self.arr, self.off + i)

    def _pyvc_len(self, it):
        return self.length

    def _pyvc_getitem(self, it, idx, node, frame):
        n = self.length
        if isinstance(idx, slice):
            if idx.step not in (None, 1):
                raise Unsupported('stepped slice of symbolic-length bytes')
            lo, hi = idx.start, idx.stop

            def clamp(x, default):
                if x is None:
                    return default
                # python: negative indices are relative to the end, then clamped to [0, n]
                if is_sym(x) or is_sym(n):
                    if it.branch(x < 0):
                        x = x + n
                        if it.branch(x < 0):
                            return 0
                        return x
                    if it.branch(x > n):
                        return n
                    return x
                if x < 0:
                    x = max(0, x + n)
                return min(x, n)
            lo = clamp(lo, 0)
            hi = clamp(hi, n)
            ln = hi - lo
            if is_sym(ln):
                if it.branch(ln < 0):
                    ln = 0
                else:
                    cl = z3.simplify(ln)
                    if z3.is_int_value(cl):
                        ln = cl.as_long()
            elif ln < 0:
                ln = 0
            if not is_sym(ln):
                return mk_bytes([z3.Select(self.arr, self.off + lo + k) for k in range(ln)])
            return ABytes(self.arr, self.off + lo, ln)
        if is_sym(idx) or is_sym(n):
            if it.branch(sx.And(idx >= 0, idx < n)):
                return self.at(idx)
            if it.branch(sx.And(idx < 0, idx >= -n)):
                return self.at(idx + n)
            it.raise_exc('IndexError', 'index out of range', it.here(node, frame) if node is not None else None)
        if idx < 0:
            idx += n
        if idx < 0 or idx >= n:
            it.raise_exc('IndexError', 'index out of range', it.here(node, frame) if node is not None else None)
        return self.at(idx)


def abytes_eq(a, b):
    """equality where at least one side has symbolic length"""
    if not isinstance(a, ABytes):
        a, b = b, a
    if isinstance(b, ABytes):
        i = z3.Int('__eqi')
        return z3.And(sx.lift_int(a.length) == sx.lift_int(b.length),
                      z3.ForAll([i], z3.Implies(z3.And(i >= 0, i < a.length), z3.Select(a.arr, a.off + i) == z3.Select(b.arr, b.off + i))))
    if not is_bytes(b):
        return False
    items = items_of(b)
    return sx.And(sx.lift_int(a.length) == len(items), *[a.at(k) == x for k, x in enumerate(items)])


def _abytes_getattr(self, it, name):
    """methods of symbolic-length byte strings that the parsers use"""
    from .values import Builtin as _B
    if name == 'ljust':
        def ljust(width, fill=b'\x00'):
            f = items_of(fill)
            if len(f) != 1 or is_sym(f[0]):
                raise Unsupported('ljust fill')
            w = sx.lift_int(width)
            n = z3.If(w > self.length, w, self.length)
            # bytes beyond the old length are the fill byte
            i = z3.Int('__lj')
            arr2 = z3.Lambda([i], z3.If(z3.And(i >= self.off, i < self.off + self.length), z3.Select(self.arr, i), z3.IntVal(f[0])))
            it.ctx.ghost.setdefault('allocs', []).append(n)
            return ABytes(arr2, self.off, n)
        return _B('bytes.ljust', ljust)
    raise Unsupported('method %s on symbolic-length bytes' % name)


ABytes._pyvc_getattr = _abytes_getattr
