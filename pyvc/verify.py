"""Verification of one contract unit: path exploration, VC generation, discharge, counter-models."""
import hashlib
import json
import os
import random
import subprocess
import sys
import tempfile
import time
import traceback

from . import sx
from .sx import z3, is_sym
from . import values as V
from .values import Unsupported
from .interp import Loader, Interp, PathCtx, PyExc, PathEnd, Incomplete
from .contract import SymCtx, Outcome, Call

CVC5 = '/usr/bin/cvc5'


def short(target):
    return target[len('pycdlib.'):] if target.startswith('pycdlib.') else target


def jsonable(v, depth=0):
    if depth > 4:
        return '<deep>'
    if v is None or isinstance(v, (bool, int, str)):
        return v
    if isinstance(v, float):
        return v
    if is_sym(v):
        return str(v)
    if isinstance(v, (bytes, bytearray)):
        if len(v) > 8192:
            import hashlib
            return {'bytes_len': len(v), 'sha256': hashlib.sha256(bytes(v)).hexdigest()}
        return {'bytes': list(v)}
    if type(v).__name__ == 'SStr':
        return ''.join(chr(x) for x in v.items) if all(not is_sym(x) for x in v.items) else {'text': [jsonable(x) for x in v.items]}
    if isinstance(v, V.SBytes):
        return {'bytes': [jsonable(x) for x in v.items]}
    if isinstance(v, (list, tuple)):
        return [jsonable(x, depth + 1) for x in v]
    if isinstance(v, dict):
        return {str(k): jsonable(x, depth + 1) for k, x in v.items()}
    if isinstance(v, V.Obj):
        return {'obj': v.cls.name, 'fields': {k: jsonable(x, depth + 1) for k, x in sorted(v.fields.items())}}
    return '<%s>' % type(v).__name__


def model_value(m, kind, term):
    if kind == 'int':
        r = m.eval(term, model_completion=True)
        return r.as_long()
    if kind == 'bool':
        return z3.is_true(m.eval(term, model_completion=True))
    if kind == 'bv':
        return m.eval(term, model_completion=True).as_long()
    if kind == 'abytes':
        arr, n = term
        ln = m.eval(n, model_completion=True).as_long()
        if ln > 4096:
            raise ValueError('model length too large to replay')
        return [m.eval(z3.Select(arr, i), model_completion=True).as_long() % 256 for i in range(ln)]
    if kind == 'bytes':
        return [m.eval(t, model_completion=True).as_long() for t in term]
    raise ValueError(kind)


def solve(pc, goal, timeout_ms, use_cvc5=True):
    """Is pc => goal valid?  returns (status, backend, seconds, model|None, reason)"""
    t0 = time.time()
    if not is_sym(goal):
        if goal:
            return 'unsat', 'trivial', 0.0, None, ''
        s = z3.Solver()
        s.set('timeout', timeout_ms)
        s.add(*pc)
        r = s.check()
        if r == z3.unsat:
            return 'unsat', 'z3', time.time() - t0, None, ''
        if r == z3.sat:
            return 'sat', 'z3', time.time() - t0, s.model(), ''
        return 'unknown', 'z3', time.time() - t0, None, s.reason_unknown()
    s = z3.Solver()
    s.set('timeout', timeout_ms)
    s.add(*pc)
    s.add(z3.Not(goal))
    r = s.check()
    dt = time.time() - t0
    if r == z3.unsat:
        return 'unsat', 'z3', dt, None, ''
    if r == z3.sat:
        return 'sat', 'z3', dt, s.model(), ''
    reason = s.reason_unknown()
    if use_cvc5 and os.path.exists(CVC5):
        try:
            smt = '(set-logic ALL)\n' + s.to_smt2()
            with tempfile.NamedTemporaryFile('w', suffix='.smt2', delete=False) as f:
                f.write(smt)
                path = f.name
            try:
                out = subprocess.run([CVC5, '--tlimit=%d' % timeout_ms, '--strings-exp', path], capture_output=True, text=True, timeout=timeout_ms / 1000.0 + 5)
                ans = out.stdout.strip().split('\n')[0] if out.stdout.strip() else ''
            finally:
                os.unlink(path)
            if ans == 'unsat':
                return 'unsat', 'cvc5', time.time() - t0, None, ''
        except Exception as e:  # cvc5 is best effort
            reason += ' / cvc5: %s' % e
    return 'unknown', 'z3', time.time() - t0, None, reason


class Unit:
    """One contract instance to verify."""

    def __init__(self, kcls, params=None, prop=None):
        self.kcls = kcls
        self.params = params or {}
        self.prop = prop

    @property
    def name(self):
        p = ','.join('%s=%s' % kv for kv in sorted(self.params.items()))
        return self.kcls.__name__ + ('[%s]' % p if p else '')

    def make(self):
        k = self.kcls()
        for kk, v in self.params.items():
            setattr(k, kk, v)
        k.P = self.params
        return k


def run_path(K, loader, decisions, opts):
    """Execute one path.  returns (ctx, symctx, call, outcome|None, note)"""
    ctx = PathCtx(decisions, timeout_ms=opts.get('branch_timeout_ms', 3000))
    ctx.eager_timeout_ms = opts.get('timeout_ms', 10000)
    c = SymCtx(ctx, loader)
    it = Interp(loader, ctx, loop_specs=getattr(K, 'loops', None), call_hooks=build_hooks(K, loader), max_unroll=opts.get('max_unroll', 4096))
    c.it = it
    it.merge_ifs = getattr(K, 'merge_ifs', True)
    out = None
    call = None
    try:
        try:
            call = K.setup(c)
        except PyExc as e:
            # the pre-state builder ran real code that raised: allowed classes end the path silently
            # (they are outside the precondition), anything else is an obligation failure
            allowed = getattr(K, 'setup_may_raise', ())
            if any(exc_allowed(loader, e.obj, n) for n in allowed):
                raise PathEnd()
            ctx.obligations.append(('setup-raises-only', list(ctx.pc), False, {'kind': 'raises-only', 'exc': e.obj.cls.name, 'site': e.obj.site}))
            raise PathEnd()
        from .contract import Fragment
        try:
            if isinstance(call.fn, Fragment):
                res = it.run_fragment(call.fn)
            else:
                fv = call.fn if call.fn is not None else loader.find_function(K.target)
                args = ([call.self_obj] if call.self_obj is not None else []) + list(call.args)
                res = it.call(fv, args, dict(call.kwargs))
            out = Outcome('return', result=res)
        except PyExc as e:
            out = Outcome('raise', exc=e.obj.cls.name, exc_site=e.obj.site)
            out.exc_obj = e.obj
    except PathEnd:
        out = None
    return ctx, c, it, call, out


def build_hooks(K, loader):
    hooks = {}
    for qual, h in getattr(K, 'hooks', {}).items():
        hooks[qual] = h
    return hooks


def exc_allowed(loader, exc_obj, name):
    """is the raised exception an instance of the class called `name`?"""
    for c in exc_obj.cls.mro():
        if c.name == name:
            return True
    return False


def verify_unit(unit, repo, opts):
    """Returns a JSON-able result dict."""
    t0 = time.time()
    res = {'unit': unit.name, 'target': unit.kcls.target, 'prop': unit.prop, 'vcs': [], 'paths': 0, 'incomplete': None,
           'error': None, 'out_of_subset': None, 'inlined': [], 'covers': {}, 'src_sha256': None, 'solver_s': 0.0, 'samples': []}
    try:
        loader = Loader(repo)
        K = unit.make()
        fv0 = None
        try:
            fv0 = loader.find_function(K.target)
            res['src_sha256'] = hashlib.sha256(loader.func_source(fv0).encode()).hexdigest()
        except Unsupported as e:
            res['out_of_subset'] = 'target: %s' % e
            return res
        timeout_ms = opts.get('timeout_ms', 10000)
        work = [[]]
        max_paths = opts.get('max_paths', 3000)
        inlined = set()
        covers = {}
        pfx = '%s/%s' % (unit.prop, short(K.target)) + (unit.name[len(unit.kcls.__name__):] if unit.params else '')
        if getattr(K, 'label', None):
            pfx = '%s/%s' % (unit.prop, K.label) + (unit.name[len(unit.kcls.__name__):] if unit.params else '')
        while work:
            decisions = work.pop()
            if res['paths'] >= max_paths:
                res['incomplete'] = 'path bound %d' % max_paths
                break
            try:
                ctx, c, it, call, out = run_path(K, loader, decisions, opts)
            except Incomplete as e:
                res['incomplete'] = str(e)
                continue
            except Unsupported as e:
                res['out_of_subset'] = str(e)
                break
            finally:
                pass
            res['paths'] += 1
            work.extend(ctx.pending)
            inlined |= it.inlined
            vcs = []
            # obligations recorded during execution (loop invariants, safety, pre@call)
            for oid, pc, goal, meta in ctx.obligations:
                vcs.append(('%s/%s' % (pfx, oid), pc, goal, meta))
            ctx.pc_at_end = None
            if out is not None:
                a = c.a
                pc = list(ctx.pc)
                ctx.pc_at_end = pc
                if out.kind == 'return':
                    covers['return'] = True
                    posts = dict(K.post(c, a, out) or {})
                    if unit.params.get('_canary'):
                        posts['canary'] = False
                    for name, cl in posts.items():
                        vcs.append(('%s/post:%s' % (pfx, name), pc, cl, {'kind': 'post'}))
                    for ename, cond in (K.raises(c, a) or {}).items():
                        if cond is None:
                            continue
                        vcs.append(('%s/must-raise:%s' % (pfx, ename), pc, sx.Not(cond), {'kind': 'must-raise'}))
                else:
                    covers['raise:' + out.exc] = True
                    spec = K.raises(c, a) or {}
                    matched = None
                    for ename in spec:
                        if exc_allowed(loader, out.exc_obj, ename):
                            matched = ename
                            break
                    if matched is None:
                        vcs.append(('%s/raises-only' % pfx, pc, False, {'kind': 'raises-only', 'exc': out.exc, 'site': out.exc_site}))
                    else:
                        cond = spec[matched]
                        vcs.append(('%s/raises-only:%s' % (pfx, matched), pc, True if cond is None else cond, {'kind': 'raises-only', 'exc': out.exc, 'site': out.exc_site}))
                        for name, cl in (K.post_raise(c, a, out) or {}).items():
                            vcs.append(('%s/post-raise:%s' % (pfx, name), pc, cl, {'kind': 'post-raise'}))
            if out is not None and len(res['samples']) < opts.get('crosscheck_samples', 6) and getattr(K, 'crosscheck', True):
                smp = sample_path(unit, loader, ctx, c, out, opts, len(res['samples']))
                if smp is not None:
                    res['samples'].append(smp)
            for oid, pc, goal, meta in vcs:
                eager = meta.get('eager')
                if pc is None and eager is not None:
                    # discharged on the spot by the path's incremental solver
                    res['solver_s'] += eager[1]
                    res['vcs'].append({'oid': oid, 'status': 'unsat', 'backend': 'z3', 's': round(eager[1], 4), 'kind': meta.get('kind', '?')})
                    continue
                if eager is None and pc is ctx.pc_at_end:
                    st, dt, model, reason = ctx.check_now(goal, timeout_ms)
                    be = 'z3'
                    if st == 'unknown':
                        st, be, dt2, model, reason = solve(list(pc), goal, timeout_ms)
                        dt += dt2
                else:
                    st, be, dt, model, reason = solve(pc, goal, timeout_ms)
                res['solver_s'] += dt
                rec = {'oid': oid, 'status': st, 'backend': be, 's': round(dt, 4), 'kind': meta.get('kind', '?')}
                if st == 'sat':
                    ab = [t for (k, t) in c.inputs.values() if k == 'abytes']
                    if ab:
                        # look for a small counter-model (same obligation, lengths <= 48, small positions) for the replay
                        small = [t[1] <= 48 for t in ab] + [z3.And(t >= -64, t <= 64) for (k, t) in c.inputs.values() if k == 'int']
                        # pairwise different content, so that reading from a wrong position shows in the bytes
                        distinct = [z3.Select(t[0], i) == (i * 37 + 11) % 256 for t in ab for i in range(48)]
                        for extra in (small + distinct, small):
                            st2, be2, dt2, model2, _ = solve(pc + extra, goal, min(timeout_ms, 5000), use_cvc5=False)
                            if st2 == 'sat':
                                model = model2
                                break
                    vals = {}
                    for name, (kind, term) in c.inputs.items():
                        try:
                            vals[name] = model_value(model, kind, term)
                        except Exception:
                            pass
                    rec['values'] = vals
                    rec['meta'] = {k: v for k, v in meta.items() if isinstance(v, (str, int, type(None)))}
                    known = match_known(K, oid, c, model)
                    if known:
                        rec['known'] = known
                        # re-solve outside the known region(s)
                        region = sx.Or(*[k['region_term'] for k in known])
                        st2, be2, dt2, model2, _ = solve(pc + [sx.to_bool(sx.Not(region))], goal, timeout_ms)
                        res['solver_s'] += dt2
                        rec['outside_known'] = st2
                        if st2 == 'sat':
                            vals2 = {}
                            for name, (kind, term) in c.inputs.items():
                                try:
                                    vals2[name] = model_value(model2, kind, term)
                                except Exception:
                                    pass
                            rec['values_outside_known'] = vals2
                        for k in known:
                            del k['region_term']
                elif st == 'unknown':
                    rec['reason'] = reason
                res['vcs'].append(rec)
        res['inlined'] = sorted(q for q in inlined if q != K.target)
        res['covers'] = covers
    except Exception:
        res['error'] = traceback.format_exc()
    res['wall_s'] = round(time.time() - t0, 3)
    return res


def match_known(K, oid, c, model):
    out = []
    for suffix, entries in (getattr(K, 'known', None) or {}).items():
        if not oid.endswith(suffix):
            continue
        for (kid, region, text) in entries:
            r = region(c.a)
            rv = r
            if is_sym(r):
                rv = z3.is_true(model.eval(r, model_completion=True))
            if rv:
                out.append({'id': kid, 'what': text, 'region_term': r})
    return out


def match_known_concrete(K, oid, values):
    """known-finding regions for a run-time (bounded) check: the region predicate gets the concrete input values"""
    out = []
    for suffix, entries in (getattr(K, 'known', None) or {}).items():
        if not oid.endswith(suffix):
            continue
        for (kid, region, text) in entries:
            try:
                ok = bool(region(values))
            except Exception:  # noqa
                ok = False
            if ok:
                out.append({'id': kid, 'what': text})
    return out


def observe(K, c, a, out, call):
    if hasattr(K, 'observe'):
        return jsonable(K.observe(c, a, out))
    obs = {'kind': out.kind, 'exc': out.exc, 'result': jsonable(out.result)}
    if call is not None and call.self_obj is not None:
        obs['self'] = jsonable(call.self_obj)
    return obs


def sample_path(unit, loader, ctx, c, out, opts, k):
    """A concrete input on this path + what pyvc's interpreter computes for it concretely.
    The runner compares that with what CPython computes for the same input (encoder cross-check)."""
    from .contract import FixedCtx
    s = z3.Solver()
    s.set('timeout', 3000)
    s.set('random_seed', k + 1)
    s.add(*ctx.pc)
    # nudge away from the all-zero model
    rnd = random.Random(hash(unit.name) & 0xffff ^ k)
    for name, (kind, term) in list(c.inputs.items())[:12]:
        if kind == 'bv':
            s.push()
            s.add(term == rnd.choice([0, 1, 255, 0xffffffff, rnd.randrange(1 << 32), rnd.randrange(1 << 16)]))
            if s.check() != z3.sat:
                s.pop()
        if kind == 'int':
            s.push()
            s.add(term == rnd.choice([0, 1, 2, 7, 63, 255, 256, 2047, 2048, 65535, 1 << 20, rnd.randrange(1 << 31)]))
            if s.check() != z3.sat:
                s.pop()
    if s.check() != z3.sat:
        return None
    m = s.model()
    vals = {}
    for name, (kind, term) in c.inputs.items():
        try:
            vals[name] = model_value(m, kind, term)
        except Exception:
            return None
    K = unit.make()
    ctx2 = PathCtx([], timeout_ms=1000)
    c2 = FixedCtx(ctx2, loader, vals)
    it = Interp(loader, ctx2, loop_specs=None, call_hooks=build_hooks(K, loader), max_unroll=opts.get('max_unroll', 4096))
    c2.it = it
    try:
        call = K.setup(c2)
        from .contract import Fragment
        try:
            if isinstance(call.fn, Fragment):
                res = it.run_fragment(call.fn)
            else:
                fv = call.fn if call.fn is not None else loader.find_function(K.target)
                args = ([call.self_obj] if call.self_obj is not None else []) + list(call.args)
                res = it.call(fv, args, dict(call.kwargs))
            o2 = Outcome('return', result=res)
        except PyExc as e:
            o2 = Outcome('raise', exc=e.obj.cls.name)
        if ctx2.pc:
            return None  # something stayed symbolic (ghost inputs): not a concrete run
        return {'values': vals, 'pyvc': observe(K, c2, c2.a, o2, call)}
    except (PathEnd, Unsupported, Incomplete, PyExc):
        return None
