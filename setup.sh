#!/bin/sh
# Offline setup: nothing is built; verify the tooling the checks need is importable.
set -e
cd "$(dirname "$0")"
python3-vt -c "import z3, sys; print('z3', z3.get_version_string(), 'python', sys.version.split()[0])"
test -x /venv/bin/python
/usr/bin/cvc5 --version | head -1 || true
mkdir -p evidence replays
echo setup-ok
