#!/usr/bin/env python3
"""Regenerate MANIFEST.json from props/Cxx.py (claimed properties) and tools/not_applicable.json."""
import importlib
import json
import os
import sys

VERIF = os.path.dirname(os.path.dirname(os.path.abspath(__file__)))
sys.path.insert(0, VERIF)


def main():
    props = [json.loads(l) for l in open(os.path.join(VERIF, 'properties.jsonl'))]
    na = json.load(open(os.path.join(VERIF, 'tools', 'not_applicable.json')))
    checks = []
    not_app = []
    served = []
    for p in props:
        pid = p['id']
        path = os.path.join(VERIF, 'props', pid + '.py')
        mod = None
        if os.path.exists(path):
            mod = importlib.import_module('props.' + pid)
        if mod is not None and getattr(mod, 'MANIFEST', None):
            m = mod.MANIFEST
            served.append(pid)
            checks.append({
                'property_id': pid,
                'quick_cmd': './check %s --tier quick' % pid,
                'thorough_cmd': './check %s --tier thorough' % pid,
                'evidence_file': 'evidence/%s.json' % pid,
                'replay_cmd_template': './check %s --replay {path}' % pid,
                'engine': 'pyvc',
                'level_claimed': {'category': 'proof', 'text': m['level_text'], 'design_ref': m.get('design_ref', 'DESIGN.md section 4, ' + pid)},
                'level_note': m['level_note'],
                'technique': m.get('technique', 'contract-based deductive verification: VCs generated from the real function ASTs by pyvc, discharged by z3 (cvc5 on unknown); counter-models replayed on the real code'),
            })
        else:
            not_app.append({'property_id': pid, 'reason': na.get(pid, 'no check built yet for this property (contracts under construction); nothing is claimed')})
    man = {
        'version': 1,
        'setup_cmd': './setup.sh',
        'hooks': {'guard': 'PYCDLIB_VERIF', 'enable': 'none needed: pyvc reads the source text of /repo on every run and replays counter-models through the real functions; no hook code exists in /repo',
                  'baseline_off_cmd': 'cd /repo && /venv/bin/python -m pytest -ra -q -p no:cacheprovider --timeout=900 --continue-on-collection-errors',
                  'source_commits': [], 'add_only': True},
        'engines': [{'name': 'pyvc', 'path': 'pyvc/', 'serves_properties': served,
                     'kind_free_text': 'self-built VC generator for a Python subset: symbolic execution of the real ASTs from /repo against sidecar contracts in contracts/, z3 5.1 (python3-vt) with /usr/bin/cvc5 on unknowns, real-code replay under /venv/bin/python'}],
        'checks': checks,
        'notes': 'Exit codes of ./check: 0 all obligations discharged; 1 violation (VIOLATION line, replay file); 2 undecided (solver unknown / out of subset / bound); 3 checker error. Known findings: known_findings.json. See DESIGN.md.',
        'not_applicable': not_app,
    }
    with open(os.path.join(VERIF, 'MANIFEST.json'), 'w') as f:
        json.dump(man, f, indent=1)
    print('MANIFEST.json: %d checks, %d not applicable' % (len(checks), len(not_app)))


if __name__ == '__main__':
    main()
