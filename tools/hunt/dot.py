import sys, io
sys.path.insert(0,'/repo'); sys.path.insert(0,'/verif')
import pycdlib
from contracts import reader as R, udf_reader as UR
for ns, kw, k in (('joliet', dict(joliet=3), dict(joliet_path='/.')), ('joliet', dict(joliet=3), dict(joliet_path='/..')), ('joliet', dict(joliet=3), dict(joliet_path='/d/..')),
                  ('udf', dict(udf='2.60'), dict(udf_path='/.')), ('udf', dict(udf='2.60'), dict(udf_path='/d/..')), ('iso', {}, dict(iso_path='/D/..')), ('iso4', dict(interchange_level=4), dict(iso_path='/.')), ('iso4', dict(interchange_level=4), dict(iso_path='/..')),
                  ('rr', dict(rock_ridge='1.09'), dict(iso_path='/X.;1', rr_name='.')),):
    iso = pycdlib.PyCdlib(); iso.new(**kw)
    base = dict(iso_path='/D') if ns != 'rr' else dict(iso_path='/D', rr_name='d')
    if ns == 'joliet': base['joliet_path'] = '/d'
    if ns == 'udf': base['udf_path'] = '/d'
    iso.add_directory(**base)
    kk = dict(k)
    if 'iso_path' not in kk: kk['iso_path'] = '/A.;1'
    try:
        iso.add_fp(io.BytesIO(b'abc'), 3, **kk)
    except Exception as e:
        print(ns, k, 'refused', type(e).__name__, e); continue
    out = io.BytesIO(); iso.write_fp(out)
    img = list(out.getvalue())
    im, res = R.read_iso(img)
    print(ns, k, 'accepted')
    if ns == 'joliet':
        js = [s for s in res['svds'] if s['escape'][:2] == b'%/'][0]
        jr = R.read_tree(im, js)
        for d, parent, path in jr.dirs_in_order:
            print('   joliet dir', path, [(r.name, r.isdir) for r in d.all_records])
    elif ns == 'udf':
        u = UR.read_udf(img); print('   udf', {p: v['kind'] for p, v in u.files.items()}, u.im.problems[:3])
    else:
        for d, parent, path in res['root'].dirs_in_order:
            print('   iso dir', path, [(r.name, r.isdir) for r in d.all_records])
    print('   problems', im.problems[:3])
    try:
        r = pycdlib.PyCdlib(); r.open_fp(io.BytesIO(out.getvalue()))
        for key in ('joliet_path', 'udf_path', 'iso_path'):
            if (key == 'joliet_path' and ns == 'joliet') or (key == 'udf_path' and ns == 'udf') or (key == 'iso_path' and ns.startswith('iso')):
                print('   lib listing', [c.file_identifier() for c in r.list_children(**{key: '/'})])
    except Exception as e:
        print('   reopen FAILED', type(e).__name__, e)
