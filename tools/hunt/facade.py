import sys, io, random
sys.path.insert(0,'/repo'); sys.path.insert(0,'/verif')
import pycdlib
from contracts import reader as R, udf_reader as UR
EXC = pycdlib.pycdlibexception.PyCdlibException
def run(seed, level, ver):
    rnd = random.Random(seed)
    iso = pycdlib.PyCdlib(); iso.new(interchange_level=level, rock_ridge=ver, joliet=3, udf='2.60')
    rr = iso.get_rock_ridge_facade(); jo = iso.get_joliet_facade(); ud = iso.get_udf_facade(); i9 = iso.get_iso9660_facade()
    dirs = ['']; files = {}; links = {}; refused = 0
    alphabet = 'abcXYZ019_-. é日'
    for step in range(40):
        r = rnd.random()
        name = ''.join(rnd.choice(alphabet) for _ in range(rnd.choice([1, 3, 8, 12, 30, 60]))).strip(' .') or 'n%d' % step
        name = name.replace('/', '_') + str(step)
        d = rnd.choice(dirs)
        try:
            if r < 0.5:
                data = bytes([step]) * rnd.choice([0, 1, 2048, 3000])
                rr.add_fp(io.BytesIO(data), len(data), d + '/' + name, 0o100644); files[d + '/' + name] = data
            elif r < 0.75 and d.count('/') < 9:
                rr.add_directory(d + '/' + name, 0o040755); dirs.append(d + '/' + name)
            elif r < 0.85:
                rr.add_symlink(d + '/' + name, 'some/target'); links[d + '/' + name] = b'some/target'
            elif files and r < 0.95:
                p = rnd.choice(sorted(files)); rr.rm_file(p); files.pop(p)
            else:
                empties = [x for x in dirs if x and not any(q.startswith(x + '/') for q in list(files) + dirs + list(links))]
                if empties:
                    p = rnd.choice(empties); rr.rm_directory(p); dirs.remove(p)
        except EXC as e:
            refused += 1
            if 'duplicate' not in str(e) and 'Directory levels too deep' not in str(e): print('   refused', seed, level, ver, repr(name)[:40], str(e)[:80])
    o = io.BytesIO(); iso.write_fp(o); img = o.getvalue()
    im, res = R.read_iso(list(img)); rrt, ce = R.rr_logical_tree(im, res['root'])
    want = {p.encode(): 'file' for p in files}; want.update({p.encode(): 'dir' for p in dirs if p}); want.update({p.encode(): 'symlink' for p in links})
    got = {p: v['kind'] for p, v in rrt.items() if p != b'/'}
    bad = []
    if got != want: bad.append(('tree', sorted(set(got) ^ set(want))[:4]))
    if im.problems: bad.append(('problems', im.problems[:2]))
    re_ = pycdlib.PyCdlib(); re_.open_fp(io.BytesIO(img)); rr2 = re_.get_rock_ridge_facade()
    for p, data in files.items():
        out = io.BytesIO(); rr2.get_file_from_iso_fp(out, p)
        if out.getvalue() != data: bad.append(('bytes', p))
    listed = set()
    for dn, dl, fl in rr2.walk('/'):
        for x in dl + fl: listed.add((dn.rstrip('/') + '/' + x).encode())
    if listed - {b'/rr_moved'} != set(want): bad.append(('walk', sorted((listed - {b'/rr_moved'}) ^ set(want))[:4]))
    print('seed', seed, 'level', level, ver, 'files', len(files), 'dirs', len(dirs), 'refused', refused, 'BAD' if bad else 'ok', bad[:3])
for seed in range(1, 13):
    for level, ver in ((1, '1.09'), (3, '1.12'), (4, '1.09')):
        try: run(seed, level, ver)
        except Exception as e:
            import traceback; traceback.print_exc(limit=4); print('EXC', seed, level, ver, type(e).__name__, str(e)[:100])
