import sys, io, random, signal, collections
sys.path.insert(0,'/repo'); sys.path.insert(0,'/verif')
import pycdlib
from contracts import fidelity as F, scenario as S, boot as B
from pyvc.contract import ConcCtx
image, lo, hi = sys.argv[1], int(sys.argv[2]), int(sys.argv[3])
c = ConcCtx({}); S.pin_environment(c)
if image.startswith('udf-') and not image.startswith('udf-random') and image in F.UDF_SCRIPTS or image.startswith('udf-random'):
    iso, _ = F.build_udf(c, image)
elif image.startswith('boot:'):
    iso, _ = B.run_history(c, image[5:])
elif image.startswith('hybrid:'):
    K = B.HybridImage(); K.variant = image[7:]; K.P = {}
    call = K.setup(c); iso = call.self_obj
else:
    iso, _ = F.build(c, image)
o = io.BytesIO(); iso.write_fp(o); base = o.getvalue()
# interesting positions: non-zero bytes and their neighbours, in the first 400 sectors and the last 2 sectors
n = len(base)
cand = set()
for rng in (range(0, min(n, 400*2048)), range(max(0, n - 2*2048), n)):
    for i in rng:
        if base[i]:
            for j in range(max(0, i-2), min(n, i+3)): cand.add(j)
cand = sorted(cand)
class Timeout(BaseException): pass
def handler(s, f): raise Timeout()
signal.signal(signal.SIGALRM, handler)
res = collections.Counter()
for seed in range(lo, hi):
    rnd = random.Random('%s/%d' % (image, seed))
    b = bytearray(base)
    r = rnd.random()
    if r < 0.05:
        b = b[:rnd.randrange(0, len(b))]
    else:
        for _ in range(rnd.choice([1, 1, 1, 2, 3, 6])):
            pos = rnd.choice(cand)
            b[pos] = rnd.choice([0, 1, 0xff, 0x7f, 0x80, b[pos] ^ (1 << rnd.randrange(8)), rnd.randrange(256), (b[pos] + 1) & 0xff, (b[pos] - 1) & 0xff])
    signal.alarm(20)
    try:
        x = pycdlib.PyCdlib(); x.open_fp(io.BytesIO(bytes(b))); res['opened'] += 1
    except pycdlib.pycdlibexception.PyCdlibException as e:
        res[type(e).__name__] += 1
    except Timeout:
        print('TIMEOUT', image, seed)
    except BaseException as e:
        import traceback
        tb = traceback.extract_tb(e.__traceback__)[-1]
        print('ESCAPED', image, seed, type(e).__name__, str(e)[:80], '%s:%d' % (tb.filename.rsplit('/',1)[1], tb.lineno))
    finally:
        signal.alarm(0)
print('summary', image, dict(res))
