import sys, io
sys.path.insert(0,'/repo'); sys.path.insert(0,'/verif')
import pycdlib
from contracts import reader as R, udf_reader as UR, boot as B
for kw in (dict(udf='2.60'), dict(udf='2.60', joliet=3, rock_ridge='1.09')):
    iso = pycdlib.PyCdlib(); iso.new(**kw)
    k = {}
    if 'rock_ridge' in kw: k['rr_name'] = 'isolinux.bin'
    if 'joliet' in kw: k['joliet_path'] = '/isolinux.bin'
    iso.add_fp(io.BytesIO(B.ISOLINUX), len(B.ISOLINUX), '/ISOLINUX.BIN;1', udf_path='/isolinux.bin', **k)
    iso.add_eltorito('/ISOLINUX.BIN;1', boot_load_size=4)
    iso.add_isohybrid()
    o = io.BytesIO(); iso.write_fp(o); img = o.getvalue()
    im, res = R.read_iso(list(img))
    print(kw, 'len', len(img) // 2048, 'space', res['pvd']['space_size'], 'problems', im.problems[:2])
    for s in (256, res['pvd']['space_size'] - 1, len(img) // 2048 - 1):
        print('   tag at', s, int.from_bytes(img[s * 2048:s * 2048 + 2], 'little'))
    try:
        r = pycdlib.PyCdlib(); r.open_fp(io.BytesIO(img)); o2 = io.BytesIO(); r.write_fp(o2); print('   reopen ok; fixpoint', o2.getvalue() == img, len(o2.getvalue()) // 2048)
        r.add_fp(io.BytesIO(b'x' * 3000), 3000, '/N.;1', udf_path='/n', **({'rr_name': 'n'} if 'rock_ridge' in kw else {}))
        o3 = io.BytesIO(); r.write_fp(o3); img3 = o3.getvalue(); im3, res3 = R.read_iso(list(img3))
        print('   after edit: len', len(img3) // 2048, 'space', res3['pvd']['space_size'], im3.problems[:2], 'tag at space-1:', int.from_bytes(img3[(res3['pvd']['space_size'] - 1) * 2048:][:2], 'little'))
        u = UR.read_udf(list(img3[:res3['pvd']['space_size'] * 2048])); print('   udf (iso part) ok', sorted(u.files), u.im.problems[:2])
    except Exception as e:
        import traceback; traceback.print_exc(limit=3)
