import sys, io
sys.path.insert(0,'/repo'); sys.path.insert(0,'/verif')
import pycdlib
from contracts import reader as R, udf_reader as UR
def attempt(label, kw, **k):
    iso = pycdlib.PyCdlib(); iso.new(**kw)
    try:
        iso.add_fp(io.BytesIO(b'abc'), 3, **k)
    except pycdlib.pycdlibexception.PyCdlibException as e:
        print('%-40s refused %s: %s' % (label, type(e).__name__, str(e)[:60])); return
    except Exception as e:
        print('%-40s ESCAPED %s: %s' % (label, type(e).__name__, str(e)[:60])); return
    try:
        out = io.BytesIO(); iso.write_fp(out)
        im, res = R.read_iso(list(out.getvalue()))
        t = R.logical_tree(im, res['root'])
        extra = ''
        if 'rock_ridge' in kw:
            rrt, _ = R.rr_logical_tree(im, res['root']); extra = ' rr=%r' % sorted(rrt)[:4]
        if 'joliet' in kw:
            js = [s for s in res['svds'] if s['escape'][:2] == b'%/'][0]
            jt = R.logical_tree(im, R.read_tree(im, js)); extra += ' joliet=%r' % [bytes(p).decode('utf-16_be','replace') for p in sorted(jt)][:4]
        if 'udf' in kw:
            u = UR.read_udf(list(out.getvalue())); extra += ' udf=%r problems=%r' % (sorted(u.files)[:4], u.im.problems[:2])
        print('%-40s accepted; iso=%r%s problems=%r' % (label, sorted(t)[:3], extra, im.problems[:2]))
        r = pycdlib.PyCdlib(); r.open_fp(io.BytesIO(out.getvalue()))
    except Exception as e:
        print('%-40s accepted then FAILED %s: %s' % (label, type(e).__name__, str(e)[:80]))
RR = dict(rock_ridge='1.09'); J = dict(joliet=3); U = dict(udf='2.60')
attempt('rr name with slash', RR, iso_path='/A.;1', rr_name='a/b')
attempt('rr name with NUL', RR, iso_path='/A.;1', rr_name='a\x00b')
attempt('rr name empty', RR, iso_path='/A.;1', rr_name='')
attempt('rr name dot', RR, iso_path='/A.;1', rr_name='.')
attempt('rr name dotdot', RR, iso_path='/A.;1', rr_name='..')
attempt('rr name non-ascii', RR, iso_path='/A.;1', rr_name='é日本')
attempt('joliet name with NUL', J, iso_path='/A.;1', joliet_path='/a\x00b')
attempt('joliet name with backslash', J, iso_path='/A.;1', joliet_path='/a\\b')
attempt('joliet name with *', J, iso_path='/A.;1', joliet_path='/a*b')
attempt('joliet name with ;', J, iso_path='/A.;1', joliet_path='/a;b')
attempt('joliet name with ?', J, iso_path='/A.;1', joliet_path='/a?b')
attempt('joliet name with :', J, iso_path='/A.;1', joliet_path='/a:b')
attempt('joliet name dot', J, iso_path='/A.;1', joliet_path='/.')
attempt('joliet name dotdot', J, iso_path='/A.;1', joliet_path='/..')
attempt('joliet trailing slash', J, iso_path='/A.;1', joliet_path='/a/')
attempt('joliet double slash', J, iso_path='/A.;1', joliet_path='//a')
attempt('joliet relative', J, iso_path='/A.;1', joliet_path='a')
attempt('joliet astral char', J, iso_path='/A.;1', joliet_path='/\U0001f600')
attempt('joliet control char', J, iso_path='/A.;1', joliet_path='/a\x01b')
attempt('udf name with NUL', U, iso_path='/A.;1', udf_path='/a\x00b')
attempt('udf name dot', U, iso_path='/A.;1', udf_path='/.')
attempt('udf name dotdot', U, iso_path='/A.;1', udf_path='/..')
attempt('udf relative', U, iso_path='/A.;1', udf_path='a')
attempt('udf trailing slash', U, iso_path='/A.;1', udf_path='/a/')
attempt('udf astral', U, iso_path='/A.;1', udf_path='/\U0001f600')
attempt('iso lowercase', {}, iso_path='/a.;1')
attempt('iso dot only', {}, iso_path='/.;1')
attempt('iso no version', {}, iso_path='/A')
attempt('iso version 0', {}, iso_path='/A.;0')
attempt('iso trailing slash', {}, iso_path='/A.;1/')
attempt('iso relative', {}, iso_path='A.;1')
attempt('iso two dots', {}, iso_path='/A.B.C;1')
attempt('iso level4 slashless odd', dict(interchange_level=4), iso_path='/a b\x00c')
