import sys, io, itertools
sys.path.insert(0,'/repo'); sys.path.insert(0,'/verif')
import pycdlib
from contracts import scenario as S, reader as R, udf_reader as UR
from pyvc.contract import ConcCtx
EXC = pycdlib.pycdlibexception.PyCdlibException
def mk(kind):
    c = ConcCtx({}); S.pin_environment(c)
    return S.base_image(c, kind)
def wr(iso):
    o = io.BytesIO(); iso.write_fp(o); return o.getvalue()
def probe(label, kind, method, *args, **kw):
    a, b = mk(kind), mk(kind)
    args2 = [io.BytesIO(x) if isinstance(x, bytes) and method in ('add_fp', 'modify_file_in_place') else x for x in args]
    try:
        getattr(a, method)(*args2, **kw)
        out = 'accepted'
    except EXC as e:
        out = 'refused:%s:%s' % (type(e).__name__, str(e)[:50])
    except Exception as e:
        out = 'ESCAPED:%s:%s' % (type(e).__name__, str(e)[:60])
    notes = []
    try:
        wa = wr(a)
    except Exception as e:
        wa = None; notes.append('WRITE-FAILS:%s:%s' % (type(e).__name__, str(e)[:60]))
    if out != 'accepted':
        wb = wr(b)
        if wa is not None and wa != wb: notes.append('NOT-ATOMIC(write differs)')
    elif wa is not None:
        try:
            im, res = R.read_iso(list(wa))
            if im.problems: notes.append('INVALID:%r' % im.problems[:2])
            if 'udf' in kind or kind == 'all':
                u = UR.read_udf(list(wa))
                if u.im.problems: notes.append('UDF-INVALID:%r' % u.im.problems[:2])
            r = pycdlib.PyCdlib(); r.open_fp(io.BytesIO(wa))
            if wr(r) != wa: notes.append('NOT-A-FIXPOINT')
        except Exception as e:
            notes.append('READBACK-FAILS:%s:%s' % (type(e).__name__, str(e)[:80]))
    flag = '  <<<<' if (notes or out.startswith('ESCAPED') or 'InternalError' in out) else ''
    print('%-46s %-8s %s %s%s' % (label, kind, out, ' '.join(notes), flag))
if __name__ == '__main__':
    which = sys.argv[1] if len(sys.argv) > 1 else 'all'
    if which in ('all', 'eltorito'):
        for kind in ('plain', 'all'):
            k = dict(bootcatfile='/BOOT.CAT;1')
            if kind == 'all': k.update(rr_bootcatname='boot.cat', joliet_bootcatfile='/boot.cat', udf_bootcatfile='/boot.cat')
            probe('eltorito ok', kind, 'add_eltorito', '/FOO.;1', **k)
            probe('eltorito missing boot file', kind, 'add_eltorito', '/NOPE.;1', **k)
            probe('eltorito boot file is a dir', kind, 'add_eltorito', '/DIR1', **k)
            probe('eltorito bootcat in missing dir', kind, 'add_eltorito', '/FOO.;1', **dict(k, bootcatfile='/NODIR/BOOT.CAT;1'))
            probe('eltorito bootcat illegal name', kind, 'add_eltorito', '/FOO.;1', **dict(k, bootcatfile='/boot cat'))
            probe('eltorito bootcat same as file', kind, 'add_eltorito', '/FOO.;1', **dict(k, bootcatfile='/FOO.;1'))
            probe('eltorito media bogus', kind, 'add_eltorito', '/FOO.;1', **dict(k, media_name='bogus'))
            probe('eltorito media floppy wrong size', kind, 'add_eltorito', '/FOO.;1', **dict(k, media_name='floppy'))
            probe('eltorito media hdemul no mbr', kind, 'add_eltorito', '/FOO.;1', **dict(k, media_name='hdemul'))
            probe('eltorito platform 256', kind, 'add_eltorito', '/FOO.;1', **dict(k, platform_id=256))
            probe('eltorito platform -1', kind, 'add_eltorito', '/FOO.;1', **dict(k, platform_id=-1))
            probe('eltorito info table small file', kind, 'add_eltorito', '/FOO.;1', **dict(k, boot_info_table=True))
            probe('eltorito load size 0', kind, 'add_eltorito', '/FOO.;1', **dict(k, boot_load_size=0))
            probe('eltorito load seg -1', kind, 'add_eltorito', '/FOO.;1', **dict(k, boot_load_seg=-1))
            probe('eltorito efi', kind, 'add_eltorito', '/FOO.;1', **dict(k, efi=True))
            probe('rm_eltorito none', kind, 'rm_eltorito')
            probe('rm_isohybrid none', kind, 'rm_isohybrid')
            probe('add_isohybrid no eltorito', kind, 'add_isohybrid')
        if kind == 'all':
            probe('eltorito joliet bootcat missing dir', kind, 'add_eltorito', '/FOO.;1', **dict(k, joliet_bootcatfile='/nodir/boot.cat'))
            probe('eltorito udf bootcat missing dir', kind, 'add_eltorito', '/FOO.;1', **dict(k, udf_bootcatfile='/nodir/boot.cat'))
            probe('eltorito joliet bootcat root', kind, 'add_eltorito', '/FOO.;1', **dict(k, joliet_bootcatfile='/'))
            probe('eltorito udf bootcat dup', kind, 'add_eltorito', '/FOO.;1', **dict(k, udf_bootcatfile='/foo'))
            probe('eltorito rr bootcat name slash', kind, 'add_eltorito', '/FOO.;1', **dict(k, rr_bootcatname='a/b'))
    if which in ('all', 'hybrid'):
        for label, kw in (('ok', {}), ('part_entry 0', dict(part_entry=0)), ('part_entry 5', dict(part_entry=5)), ('mbr_id 2^32', dict(mbr_id=1 << 32)), ('mbr_id -1', dict(mbr_id=-1)),
                          ('part_offset -1', dict(part_offset=-1)), ('part_offset 2^32', dict(part_offset=1 << 32)), ('heads 0', dict(geometry_heads=0)), ('heads 257', dict(geometry_heads=257)),
                          ('sectors 0', dict(geometry_sectors=0)), ('sectors 64', dict(geometry_sectors=64)), ('part_type 256', dict(part_type=256)), ('part_type -1', dict(part_type=-1)),
                          ('efi without efi entry', dict(efi=True)), ('mac without', dict(mac=True)), ('efi part_entry 2', dict(efi=True, part_entry=2))):
            probe('add_isohybrid ' + label, 'eltorito', 'add_isohybrid', **kw)
    if which in ('all', 'misc'):
        for kind in ('plain', 'all'):
            probe('set_hidden missing', kind, 'set_hidden', iso_path='/NOPE.;1')
            probe('set_hidden root', kind, 'set_hidden', iso_path='/')
            probe('clear_hidden dir', kind, 'clear_hidden', iso_path='/DIR1')
            probe('set_hidden no args', kind, 'set_hidden')
            probe('add_hard_link to dir', kind, 'add_hard_link', iso_old_path='/DIR1', iso_new_path='/L.;1', **({'rr_name': 'l'} if kind == 'all' else {}))
            probe('add_hard_link old missing', kind, 'add_hard_link', iso_old_path='/NOPE.;1', iso_new_path='/L.;1', **({'rr_name': 'l'} if kind == 'all' else {}))
            probe('add_hard_link no new', kind, 'add_hard_link', iso_old_path='/FOO.;1')
            probe('add_hard_link two old', kind, 'add_hard_link', iso_old_path='/FOO.;1', boot_catalog_old=True, iso_new_path='/L.;1')
            probe('add_hard_link bootcat none', kind, 'add_hard_link', boot_catalog_old=True, iso_new_path='/L.;1', **({'rr_name': 'l'} if kind == 'all' else {}))
            probe('rm_hard_link missing', kind, 'rm_hard_link', iso_path='/NOPE.;1')
            probe('rm_hard_link dir', kind, 'rm_hard_link', iso_path='/DIR1')
            probe('rm_hard_link none', kind, 'rm_hard_link')
            probe('rm_file no args', kind, 'rm_file')
            probe('rm_directory no args', kind, 'rm_directory')
            probe('add_directory no args', kind, 'add_directory')
            probe('add_fp no paths', kind, 'add_fp', b'abc', 3)
            probe('add_fp negative length', kind, 'add_fp', b'abc', -1, iso_path='/N.;1', **({'rr_name': 'n'} if kind == 'all' else {}))
            probe('add_fp length beyond data', kind, 'add_fp', b'abc', 10, iso_path='/N.;1', **({'rr_name': 'n'} if kind == 'all' else {}))
            probe('add_fp huge length', kind, 'add_fp', b'abc', 1 << 40, iso_path='/N.;1', **({'rr_name': 'n'} if kind == 'all' else {}))
            probe('add_directory file_mode odd', kind, 'add_directory', iso_path='/N', file_mode=0o777777, **({'rr_name': 'n'} if kind == 'all' else {}))
            probe('add_fp file_mode on plain', kind, 'add_fp', b'abc', 3, iso_path='/N.;1', file_mode=0o100644, **({'rr_name': 'n'} if kind == 'all' else {}))
            probe('add_symlink on non rr', kind, 'add_symlink', '/S.;1', 's', 'a')
            probe('add_symlink dup', kind, 'add_symlink', '/FOO.;1', 'foo', 'a')
            probe('add_symlink missing parent', kind, 'add_symlink', '/NODIR/S.;1', 's', 'a')
            probe('add_symlink rr name slash', kind, 'add_symlink', '/S.;1', 'a/b', 'a')
            probe('add_symlink joliet only', kind, 'add_symlink', joliet_path='/s')
            probe('duplicate_pvd', kind, 'duplicate_pvd')
            probe('duplicate_pvd twice', kind, 'duplicate_pvd')
