import sys, io
sys.path.insert(0,'/repo'); sys.path.insert(0,'/verif'); sys.path.insert(0,'/tmp/hunt')
import pycdlib
print(pycdlib.__file__)
from probe import probe, mk, wr
import probe as P
def seq(label, kind, *calls):
    a, b = mk(kind), mk(kind)
    for m, ar, kw in calls[:-1]:
        for x in (a, b):
            getattr(x, m)(*[io.BytesIO(y) if isinstance(y, bytes) else y for y in ar], **kw)
    m, ar, kw = calls[-1]
    P.mk = lambda k, _s=[a, b]: _s.pop(0)
    try:
        probe(label, kind, m, *ar, **kw)
    finally:
        P.mk = mk
seq('hard link to rr symlink', 'rr', ('add_symlink', ['/S.;1', 's', 'a'], {}), ('add_hard_link', [], dict(iso_old_path='/S.;1', iso_new_path='/L.;1', rr_name='l')))
seq('rm_file rr symlink', 'rr', ('add_symlink', ['/S.;1', 's', 'a'], {}), ('rm_file', [], dict(iso_path='/S.;1')))
seq('rm_hard_link rr symlink', 'rr', ('add_symlink', ['/S.;1', 's', 'a'], {}), ('rm_hard_link', [], dict(iso_path='/S.;1')))
seq('set_hidden rr symlink', 'rr', ('add_symlink', ['/S.;1', 's', 'a'], {}), ('set_hidden', [], dict(iso_path='/S.;1')))
seq('set_hidden via rr_path', 'rr', ('set_hidden', [], dict(rr_path='/foo')))
seq('set_hidden via joliet_path', 'joliet', ('set_hidden', [], dict(joliet_path='/foo')))
seq('set_hidden rr_path missing', 'rr', ('set_hidden', [], dict(rr_path='/nope')))
seq('hard link iso from joliet-only file', 'joliet', ('add_fp', [b'abc', 3], dict(joliet_path='/jonly')), ('add_hard_link', [], dict(joliet_old_path='/jonly', iso_new_path='/JO.;1')))
seq('rm_file joliet-only file via joliet', 'joliet', ('add_fp', [b'abc', 3], dict(joliet_path='/jonly')), ('rm_file', [], dict(joliet_path='/jonly')))
seq('rm_file udf-only via udf', 'udf', ('add_fp', [b'abc', 3], dict(udf_path='/uonly')), ('rm_file', [], dict(udf_path='/uonly')))
seq('rm_directory non-empty joliet only', 'joliet', ('add_fp', [b'abc', 3], dict(joliet_path='/dir1/x')), ('rm_directory', [], dict(iso_path='/DIR1', joliet_path='/dir1')))
seq('rm_directory iso non-empty', 'plain', ('add_fp', [b'abc', 3], dict(iso_path='/DIR1/X.;1')), ('rm_directory', [], dict(iso_path='/DIR1')))
seq('rm_file with rr_name arg', 'rr', ('rm_file', [], dict(iso_path='/FOO.;1', rr_name='foo')))
seq('add_fp rr_name None on rr', 'rr', ('add_fp', [b'abc', 3], dict(iso_path='/N.;1')))
seq('add_directory rr_name None on rr', 'rr', ('add_directory', [], dict(iso_path='/N')))
seq('add_fp file_mode bogus', 'rr', ('add_fp', [b'abc', 3], dict(iso_path='/N.;1', rr_name='n', file_mode=-1)))
seq('add_fp file_mode huge', 'rr', ('add_fp', [b'abc', 3], dict(iso_path='/N.;1', rr_name='n', file_mode=1 << 40)))
seq('add_directory file_mode huge', 'rr', ('add_directory', [], dict(iso_path='/N', rr_name='n', file_mode=1 << 40)))
seq('add_eltorito load_seg huge', 'plain', ('add_eltorito', ['/FOO.;1'], dict(boot_load_seg=1 << 20)))
seq('add_fp fp text mode', 'plain', ('add_fp', [io.StringIO('abc'), 3], dict(iso_path='/N.;1')))
seq('add_file missing host file', 'plain', ('add_file', ['/nonexistent/file'], dict(iso_path='/N.;1')))
seq('add_file directory as file', 'plain', ('add_file', ['/tmp'], dict(iso_path='/N.;1')))
