import sys, io
sys.path.insert(0,'/repo'); sys.path.insert(0,'/verif'); sys.path.insert(0,'/tmp/hunt')
import pycdlib
EXC = pycdlib.pycdlibexception.PyCdlibException
import signal
class TO(BaseException): pass
def _h(a, b): raise TO()
signal.signal(signal.SIGALRM, _h)
def t(label, f):
    signal.alarm(10)
    try:
        r = f(); print('%-50s ok %r' % (label, r if not isinstance(r, bytes) else r[:20]))
    except EXC as e: print('%-50s refused %s: %s' % (label, type(e).__name__, str(e)[:70]))
    except TO: print('%-50s TIMEOUT (10 s)   <<<<' % label)
    except Exception as e: print('%-50s ESCAPED %s: %s   <<<<' % (label, type(e).__name__, str(e)[:70]))
    finally: signal.alarm(0)
# new() parameters
def new(**kw):
    iso = pycdlib.PyCdlib(); iso.new(**kw); iso.add_fp(io.BytesIO(b'abc'), 3, '/A.;1', **({'rr_name': 'a'} if kw.get('rock_ridge') else {}))
    o = io.BytesIO(); iso.write_fp(o)
    r = pycdlib.PyCdlib(); r.open_fp(io.BytesIO(o.getvalue())); o2 = io.BytesIO(); r.write_fp(o2)
    return 'fixpoint=%s len=%d' % (o2.getvalue() == o.getvalue(), len(o.getvalue()))
for label, kw in [('level 0', dict(interchange_level=0)), ('level 5', dict(interchange_level=5)), ('joliet 4', dict(joliet=4)), ('joliet True', dict(joliet=True)), ('rr 1.11', dict(rock_ridge='1.11')),
                  ('udf 2.50', dict(udf='2.50')), ('sys_ident long', dict(sys_ident='x' * 33)), ('sys_ident 32', dict(sys_ident='x' * 32)), ('vol_ident long', dict(vol_ident='x' * 33)), ('vol_ident non-ascii', dict(vol_ident='é')),
                  ('set_size 0', dict(set_size=0)), ('set_size 65536', dict(set_size=65536)), ('seqnum 0', dict(seqnum=0)), ('seqnum > set_size', dict(seqnum=2, set_size=1)), ('log_block_size 512', dict(log_block_size=512)),
                  ('vol_set_ident 129', dict(vol_set_ident='x' * 129)), ('pub_ident 129', dict(pub_ident_str='x' * 129)), ('copyright_file 38', dict(copyright_file='x' * 38)), ('app_use 513', dict(app_use='x' * 513)),
                  ('xa + app_use 200', dict(xa=True, app_use='x' * 200)), ('vol_expire_date float', dict(vol_expire_date=1.5e9)), ('vol_expire_date negative', dict(vol_expire_date=-1.0)), ('vol_expire_date huge', dict(vol_expire_date=1e12)),
                  ('level4 + rr', dict(interchange_level=4, rock_ridge='1.09')), ('level4 + joliet + udf', dict(interchange_level=4, joliet=3, udf='2.60')), ('xa + rr1.12 + udf', dict(xa=True, rock_ridge='1.12', udf='2.60'))]:
    t('new ' + label, lambda kw=kw: new(**kw))
# read APIs
iso = pycdlib.PyCdlib(); iso.new(rock_ridge='1.09', joliet=3, udf='2.60')
iso.add_fp(io.BytesIO(b'abcdefgh' * 1000), 8000, '/A.;1', rr_name='a', joliet_path='/a', udf_path='/a'); iso.add_directory('/D', rr_name='d', joliet_path='/d', udf_path='/d')
o = io.BytesIO(); iso.write_fp(o); r = pycdlib.PyCdlib(); r.open_fp(io.BytesIO(o.getvalue()))
for label, obj in (('fresh', iso), ('opened', r)):
    def g(**k):
        out = io.BytesIO(); obj.get_file_from_iso_fp(out, **k); return len(out.getvalue())
    t(label + ' get_file blocksize 0', lambda: g(iso_path='/A.;1', blocksize=0))
    t(label + ' get_file blocksize -1', lambda: g(iso_path='/A.;1', blocksize=-1))
    t(label + ' get_file blocksize 1', lambda: g(iso_path='/A.;1', blocksize=1))
    t(label + ' get_file dir', lambda: g(iso_path='/D'))
    t(label + ' get_file root', lambda: g(iso_path='/'))
    t(label + ' get_file missing', lambda: g(iso_path='/NOPE.;1'))
    t(label + ' get_file two paths', lambda: g(iso_path='/A.;1', joliet_path='/a'))
    t(label + ' get_file no path', lambda: g())
    t(label + ' get_file udf dir', lambda: g(udf_path='/d'))
    t(label + ' get_file joliet dir', lambda: g(joliet_path='/d'))
    t(label + ' get_file rr dir', lambda: g(rr_path='/d'))
    t(label + ' open_file dir', lambda: obj.open_file_from_iso(iso_path='/D').__enter__().read())
    t(label + ' open_file udf dir', lambda: obj.open_file_from_iso(udf_path='/d').__enter__().read())
    t(label + ' list_children file', lambda: [c.file_identifier() for c in obj.list_children(iso_path='/A.;1')])
    t(label + ' list_children udf file', lambda: [c.file_identifier() if c else None for c in obj.list_children(udf_path='/a')])
    t(label + ' list_children missing', lambda: list(obj.list_children(iso_path='/NOPE')))
    t(label + ' list_children none', lambda: list(obj.list_children()))
    t(label + ' walk file', lambda: list(obj.walk(iso_path='/A.;1')))
    t(label + ' walk missing', lambda: list(obj.walk(joliet_path='/nope')))
    t(label + ' get_record none', lambda: obj.get_record())
    t(label + ' get_record two', lambda: obj.get_record(iso_path='/A.;1', udf_path='/a'))
    t(label + ' full_path bogus', lambda: obj.full_path_from_dirrecord(None))
    t(label + ' has_rock_ridge', lambda: (obj.has_rock_ridge(), obj.has_joliet(), obj.has_udf()))
