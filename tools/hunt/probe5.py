import sys, io
sys.path.insert(0,'/repo'); sys.path.insert(0,'/verif'); sys.path.insert(0,'/tmp/hunt')
import pycdlib
from contracts import reader as R
EXC = pycdlib.pycdlibexception.PyCdlibException
def check(label, f, kw):
    iso = pycdlib.PyCdlib(); iso.new(**kw)
    try:
        f(iso)
    except EXC as e:
        print('%-44s refused %s: %s' % (label, type(e).__name__, str(e)[:60])); return
    except Exception as e:
        print('%-44s ESCAPED %s: %s  <<<<' % (label, type(e).__name__, str(e)[:60])); return
    try:
        o = io.BytesIO(); iso.write_fp(o); img = o.getvalue()
        im, res = R.read_iso(list(img))
        rrt, ce = R.rr_logical_tree(im, res['root'])
        r = pycdlib.PyCdlib(); r.open_fp(io.BytesIO(img)); o2 = io.BytesIO(); r.write_fp(o2)
        names = sorted(rrt)
        info = {p: (v.get('target') or b'')[:20] + b'..%d' % len(v.get('target') or b'') for p, v in rrt.items() if v['kind'] == 'symlink'}
        print('%-44s accepted problems=%r fix=%s names=%r %r' % (label, im.problems[:2], o2.getvalue() == img, [n[:12] + b'..%d' % len(n) for n in names][:4], info))
    except Exception as e:
        import traceback
        print('%-44s accepted then FAILED %s: %s  <<<<' % (label, type(e).__name__, str(e)[:100]))
for ver in ('1.09', '1.12'):
    kw = dict(rock_ridge=ver)
    for n in (255, 256, 1000, 2000, 2030, 2048, 3000, 5000):
        check('%s rr_name %d' % (ver, n), lambda iso, n=n: iso.add_fp(io.BytesIO(b'abc'), 3, '/A.;1', rr_name='x' * n), kw)
    for n in (255, 1000, 2000, 2040, 3000, 5000):
        check('%s symlink target one comp %d' % (ver, n), lambda iso, n=n: iso.add_symlink('/S.;1', 's', 'y' * n), kw)
    for n in (300, 700, 1500):
        check('%s symlink target %d comps' % (ver, n), lambda iso, n=n: iso.add_symlink('/S.;1', 's', '/'.join(['ab'] * n)), kw)
    check('%s long name + long target' % ver, lambda iso: iso.add_symlink('/S.;1', 'n' * 900, 't' * 900), kw)
    check('%s dir rr_name 1500' % ver, lambda iso: iso.add_directory('/D', rr_name='d' * 1500), kw)
