import sys, io
sys.path.insert(0,'/repo'); sys.path.insert(0,'/verif')
import pycdlib
from contracts import reader as R
EXC = pycdlib.pycdlibexception.PyCdlibException
res = {}
for ver in ('1.09', '1.12'):
  for xa in (False, True):
    for kind in ('name', 'target'):
        acc, ref, bad = [], [], []
        for n in list(range(1980, 2130)):
            iso = pycdlib.PyCdlib(); iso.new(rock_ridge=ver, xa=xa)
            try:
                if kind == 'name': iso.add_fp(io.BytesIO(b'abc'), 3, '/A.;1', rr_name='x' * n)
                else: iso.add_symlink('/S.;1', 's', 'y' * n)
            except EXC:
                ref.append(n); continue
            try:
                o = io.BytesIO(); iso.write_fp(o); img = o.getvalue()
                im, r_ = R.read_iso(list(img)); rrt, ce = R.rr_logical_tree(im, r_['root'])
                ok = not im.problems and (any(len(p) == n + 1 for p in rrt) if kind == 'name' else any(v.get('target') == b'y' * n for v in rrt.values()))
                (acc if ok else bad).append(n)
            except Exception as e:
                bad.append((n, type(e).__name__))
        print(ver, xa, kind, 'accepted up to', max(acc) if acc else None, 'refused from', min(ref) if ref else None, 'BAD', bad[:5])
