import sys, io, signal
sys.path.insert(0,'/repo'); sys.path.insert(0,'/verif')
import pycdlib
from contracts import reader as R, udf_reader as UR
EXC = pycdlib.pycdlibexception.PyCdlibException
class TO(BaseException): pass
def _h(a,b): raise TO()
signal.signal(signal.SIGALRM,_h)
def t(label, f):
    signal.alarm(20)
    try:
        r = f(); print('%-52s ok %s' % (label, str(r)[:90]))
    except EXC as e: print('%-52s refused %s: %s' % (label, type(e).__name__, str(e)[:70]))
    except TO: print('%-52s TIMEOUT   <<<<' % label)
    except Exception as e: print('%-52s ESCAPED %s: %s   <<<<' % (label, type(e).__name__, str(e)[:70]))
    finally: signal.alarm(0)
def image(**kw):
    iso = pycdlib.PyCdlib(); iso.new(**kw)
    k = {}
    if 'rock_ridge' in kw: k['rr_name'] = 'a'
    if 'joliet' in kw: k['joliet_path'] = '/a'
    if 'udf' in kw: k['udf_path'] = '/a'
    iso.add_fp(io.BytesIO(b'0123456789' * 500), 5000, '/A.;1', **k)
    iso.add_directory('/D', **{kk: {'rr_name': 'd', 'joliet_path': '/d', 'udf_path': '/d'}[kk] for kk in k})
    o = io.BytesIO(); iso.write_fp(o); return o.getvalue()
# state misuse
t('write before new', lambda: pycdlib.PyCdlib().write_fp(io.BytesIO()))
t('add_fp before new', lambda: pycdlib.PyCdlib().add_fp(io.BytesIO(b'a'), 1, '/A.;1'))
def twice():
    iso = pycdlib.PyCdlib(); iso.new(); iso.new()
t('new twice', twice)
def open_twice():
    iso = pycdlib.PyCdlib(); iso.open_fp(io.BytesIO(image())); iso.open_fp(io.BytesIO(image()))
t('open twice', open_twice)
def after_close():
    iso = pycdlib.PyCdlib(); iso.new(); iso.close(); iso.write_fp(io.BytesIO())
t('write after close', after_close)
def close_twice():
    iso = pycdlib.PyCdlib(); iso.new(); iso.close(); iso.close()
t('close twice', close_twice)
def reuse():
    iso = pycdlib.PyCdlib(); iso.new(); iso.add_fp(io.BytesIO(b'abc'), 3, '/A.;1'); iso.close(); iso.new(joliet=3); o = io.BytesIO(); iso.write_fp(o)
    im, res = R.read_iso(list(o.getvalue())); return sorted(R.logical_tree(im, res['root'])), im.problems
t('new after close (object reused)', reuse)
def reuse_open():
    iso = pycdlib.PyCdlib(); iso.open_fp(io.BytesIO(image(udf='2.60', joliet=3))); iso.close(); iso.new(); iso.add_fp(io.BytesIO(b'abc'), 3, '/B.;1'); o = io.BytesIO(); iso.write_fp(o)
    im, res = R.read_iso(list(o.getvalue())); return sorted(R.logical_tree(im, res['root'])), im.problems, len(o.getvalue())
t('open, close, new (object reused)', reuse_open)
def reuse_open2():
    iso = pycdlib.PyCdlib(); iso.new(rock_ridge='1.09', udf='2.60'); iso.add_fp(io.BytesIO(b'abc'), 3, '/A.;1', rr_name='a', udf_path='/a'); iso.close()
    iso.open_fp(io.BytesIO(image())); o = io.BytesIO(); iso.write_fp(o); return o.getvalue() == image()
t('new, close, open (object reused)', reuse_open2)
# modify in place
def mip(kw, newlen, path='/A.;1', **k):
    img = image(**kw); fp = io.BytesIO(img)
    iso = pycdlib.PyCdlib(); iso.open_fp(fp)
    data = bytes((i * 7) & 0xff for i in range(newlen))
    iso.modify_file_in_place(io.BytesIO(data), newlen, path, **k)
    iso.close()
    after = fp.getvalue()
    r = pycdlib.PyCdlib(); r.open_fp(io.BytesIO(after)); out = io.BytesIO(); r.get_file_from_iso_fp(out, iso_path=path)
    im, res = R.read_iso(list(after))
    return 'content ok=%s len=%d problems=%r samelen=%s' % (out.getvalue() == data, len(out.getvalue()), im.problems[:2], len(after) == len(img))
for kw in ({}, dict(joliet=3), dict(rock_ridge='1.09'), dict(udf='2.60'), dict(udf='2.60', joliet=3, rock_ridge='1.12')):
    for n in (0, 1, 4097, 5000, 6144, 6145):
        t('mip %s len %d' % (sorted(kw), n), lambda kw=kw, n=n: mip(kw, n))
t('mip dir', lambda: mip({}, 10, '/D'))
t('mip missing', lambda: mip({}, 10, '/NOPE.;1'))
t('mip negative length', lambda: mip({}, -1))
t('mip length beyond data', lambda: (lambda: None)())
def mip_short():
    img = image(); fp = io.BytesIO(img); iso = pycdlib.PyCdlib(); iso.open_fp(fp)
    iso.modify_file_in_place(io.BytesIO(b'abc'), 100, '/A.;1'); iso.close()
    r = pycdlib.PyCdlib(); r.open_fp(io.BytesIO(fp.getvalue())); out = io.BytesIO(); r.get_file_from_iso_fp(out, iso_path='/A.;1'); return len(out.getvalue()), out.getvalue()[:6]
t('mip fp shorter than length', mip_short)
def mip_new():
    iso = pycdlib.PyCdlib(); iso.new(); iso.add_fp(io.BytesIO(b'abc'), 3, '/A.;1'); iso.modify_file_in_place(io.BytesIO(b'xyz'), 3, '/A.;1')
t('mip on a new (not opened) image', mip_new)
def mip_ro():
    import tempfile, os
    f = tempfile.NamedTemporaryFile(delete=False); f.write(image()); f.close()
    iso = pycdlib.PyCdlib(); iso.open(f.name)
    try: iso.modify_file_in_place(io.BytesIO(b'xyz'), 3, '/A.;1')
    finally: iso.close(); os.unlink(f.name)
t('mip on image opened read-only', mip_ro)
