import sys, io, random
sys.path.insert(0,'/repo'); sys.path.insert(0,'/verif')
import pycdlib
from contracts import fidelity as F
from pyvc.contract import ConcCtx
name = sys.argv[1]
c = ConcCtx({})
from contracts import scenario as S
S.pin_environment(c)
iso, contents = F.build(c, name)
kw, script = F.get_script(name)
iso_m, jol_m, rr_m, hidden_m, sym_m, content_m = F.model_of(script)
img = S.written(c, iso)
re = pycdlib.PyCdlib(); re.open_fp(io.BytesIO(img))
rnd = random.Random(name)
for obj in (iso, re):
    streams = []
    ctxs = []
    for p, v in iso_m.items():
        if v[0] == 'file':
            cm = obj.open_file_from_iso(iso_path=p); ctxs.append(cm); streams.append([cm.__enter__(), bytes(contents[v[1]]), 0, p])
    for p, v in jol_m.items():
        if v[0] == 'file':
            cm = obj.open_file_from_iso(joliet_path=p); ctxs.append(cm); streams.append([cm.__enter__(), bytes(contents[v[1]]), 0, p])
    bad = 0
    for step in range(400):
        if not streams: break
        st = rnd.choice(streams)
        f, data, pos, p = st
        r = rnd.random()
        if r < 0.5:
            n = rnd.choice([0, 1, 7, 2048, 5000])
            got = f.read(n)
            if got != data[pos:pos+n]: bad += 1; print('BAD read', p, pos, n, len(got)); break
            st[2] = pos + len(got)
        elif r < 0.7:
            np_ = rnd.randint(0, len(data) + 3)
            f.seek(np_); st[2] = np_
        elif r < 0.8:
            if f.tell() != pos: bad += 1; print('BAD tell', p, f.tell(), pos); break
        elif r < 0.9:
            out = io.BytesIO(); q = rnd.choice(streams); obj.get_file_from_iso_fp(out, **({'iso_path': q[3]} if q[3].endswith(';1') else {'joliet_path': q[3]}))
            if out.getvalue() != q[1]: bad += 1; print('BAD get_file', q[3]); break
        else:
            b = bytearray(rnd.choice([0, 3, 3000])); n = f.readinto(b)
            if bytes(b[:n]) != data[pos:pos+len(b)]: bad += 1; print('BAD readinto', p); break
            st[2] = pos + n
    for cm in ctxs: cm.__exit__(None, None, None)
    # after streams: the image still writes the same
    out = io.BytesIO(); obj.write_fp(out)
    if out.getvalue() != img: print('BAD: write after streams differs', 'reopened' if obj is re else 'fresh')
print('done', name, bad)
