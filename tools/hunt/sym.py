import sys, io
sys.path.insert(0,'/repo'); sys.path.insert(0,'/verif')
import pycdlib
from contracts import reader as R, udf_reader as UR
targets = ['a//b', 'a/', '//a', '.', '..', '/', 'a/./b', './', 'a/../', '/..', '/.', 'a/b/', '///', '../', ' ', 'a/ /b', 'x'*255 + '//' + 'y', '/a//']
for ver in ('1.09', '1.12'):
  for t in targets:
    iso = pycdlib.PyCdlib(); iso.new(rock_ridge=ver, udf='2.60')
    try:
        iso.add_symlink('/S.;1', 's', t, udf_symlink_path='/s', udf_target=t)
    except pycdlib.pycdlibexception.PyCdlibException as e:
        print(ver, repr(t)[:30], 'refused', str(e)[:60]); continue
    except Exception as e:
        print(ver, repr(t)[:30], 'ESCAPED', type(e).__name__, str(e)[:60]); continue
    out = io.BytesIO(); iso.write_fp(out); img = list(out.getvalue())
    im, res = R.read_iso(img)
    rrt, _ = R.rr_logical_tree(im, res['root'])
    got = rrt[b'/s'].get('target')
    u = UR.read_udf(img)
    ugot = u.files['/s'].get('target')
    r = pycdlib.PyCdlib(); r.open_fp(io.BytesIO(out.getvalue()))
    lib = r.get_record(rr_path='/s').rock_ridge.symlink_path()
    out2 = io.BytesIO(); r.write_fp(out2)
    flag = '' if (got == t.encode() and ugot == t and lib == t.encode() and out2.getvalue() == out.getvalue()) else '   <<<<'
    print(ver, repr(t)[:30], 'rr=%r udf=%r lib=%r fix=%s problems=%r %r%s' % (got[:40] if got else got, ugot[:40] if ugot else ugot, lib[:40], out2.getvalue() == out.getvalue(), im.problems[:1], u.im.problems[:1], flag))
