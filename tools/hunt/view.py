import sys, io
sys.path.insert(0,'/repo'); sys.path.insert(0,'/verif')
import pycdlib
from contracts import fidelity as F, scenario as S
from pyvc.contract import ConcCtx
name = sys.argv[1]
c = ConcCtx({}); S.pin_environment(c)
iso, contents = F.build(c, name)
kw, script = F.get_script(name)
iso_m, jol_m, rr_m, hidden_m, sym_m, content_m = F.model_of(script)
umodel = F.udf_model_of(script) if 'udf' in kw else {}
img = S.written(c, iso)
re = pycdlib.PyCdlib(); re.open_fp(io.BytesIO(img))
bad = []
def rr_path(p):
    parts = [x for x in p.split('/') if x]
    return ''.join('/' + rr_m['/' + '/'.join(parts[:i + 1])] for i in range(len(parts)))
def listing(obj, **k):
    dirs, files = set(), set()
    key = list(k)[0]
    for dn, dl, fl in obj.walk(**k):
        for d in dl: dirs.add((dn.rstrip('/') + '/' + d))
        for f in fl: files.add((dn.rstrip('/') + '/' + f))
    return dirs, files
for label, obj in (('fresh', iso), ('reopened', re)):
    relocating = 'rock_ridge' in kw and any(p.count('/') >= 8 for p in iso_m)
    try:
        if not relocating:
            d, f = listing(obj, iso_path='/')
            wd = {p for p, v in iso_m.items() if v[0] == 'dir'}; wf = {p for p, v in iso_m.items() if v[0] != 'dir'}
            if d != wd or f != wf: bad.append((label, 'iso walk', sorted(d ^ wd)[:4], sorted(f ^ wf)[:4]))
        if 'rock_ridge' in kw:
            d, f = listing(obj, rr_path='/')
            wd = {rr_path(p) for p, v in iso_m.items() if v[0] == 'dir'}; wf = {rr_path(p) for p, v in iso_m.items() if v[0] != 'dir'}
            if d != wd or f != wf: bad.append((label, 'rr walk', sorted(d ^ wd)[:4], sorted(f ^ wf)[:4]))
            for p, v in iso_m.items():
                if v[0] == 'file':
                    o = io.BytesIO(); obj.get_file_from_iso_fp(o, rr_path=rr_path(p))
                    if o.getvalue() != bytes(contents[v[1]]): bad.append((label, 'rr bytes', p))
                rec = obj.get_record(rr_path=rr_path(p))
                if rec.is_symlink() != (v[0] == 'symlink'): bad.append((label, 'symlink flag', p))
                if v[0] == 'symlink' and rec.rock_ridge.symlink_path() != sym_m[p].encode(): bad.append((label, 'symlink target', p, rec.rock_ridge.symlink_path()[:40]))
                if obj.full_path_from_dirrecord(rec, rockridge=True) != rr_path(p): bad.append((label, 'rr full path', p, obj.full_path_from_dirrecord(rec, rockridge=True)[:60]))
        if not relocating:
            for p, v in iso_m.items():
                rec = obj.get_record(iso_path=p)
                if bool(rec.file_flags & 1) != (p in hidden_m): bad.append((label, 'hidden', p))
                if obj.full_path_from_dirrecord(rec) != p: bad.append((label, 'iso full path', p, obj.full_path_from_dirrecord(rec)))
        if 'joliet' in kw:
            d, f = listing(obj, joliet_path='/')
            wd = {p for p, v in jol_m.items() if v[0] == 'dir'}; wf = {p for p, v in jol_m.items() if v[0] != 'dir'}
            if d != wd or f != wf: bad.append((label, 'joliet walk', sorted(d ^ wd)[:4], sorted(f ^ wf)[:4]))
            for p, v in jol_m.items():
                rec = obj.get_record(joliet_path=p)
                if obj.full_path_from_dirrecord(rec) != p: bad.append((label, 'joliet full path', p, obj.full_path_from_dirrecord(rec)))
        if 'udf' in kw:
            d, f = listing(obj, udf_path='/')
            wd = {p for p, v in umodel.items() if v[0] == 'dir'}; wf = {p for p, v in umodel.items() if v[0] != 'dir'}
            if d != wd or f != wf: bad.append((label, 'udf walk', sorted(d ^ wd)[:4], sorted(f ^ wf)[:4]))
            for p, v in umodel.items():
                if v[0] == 'file':
                    o = io.BytesIO(); obj.get_file_from_iso_fp(o, udf_path=p)
                    if o.getvalue() != bytes(contents[v[1]]): bad.append((label, 'udf bytes', p))
                rec = obj.get_record(udf_path=p)
                if obj.full_path_from_dirrecord(rec) != p: bad.append((label, 'udf full path', p, obj.full_path_from_dirrecord(rec)))
    except Exception as e:
        import traceback
        tb = traceback.extract_tb(e.__traceback__)
        bad.append((label, 'EXC', type(e).__name__, str(e)[:100], ['%s:%d' % (t.filename.rsplit('/',1)[1], t.lineno) for t in tb[-3:]]))
for b in bad[:6]: print('BAD', name, b)
print('done', name, len(bad))
