#!/usr/bin/env python3
"""Mutation self-test: apply each deliberate breaking edit to a scratch copy of the repository
(outside /repo and /verif, removed afterwards) and require that the named property's check reports a
VIOLATION on the named obligation.  usage: tools/mutants.py [Cxx ...] [--tier quick] [--only name]"""
import json
import os
import shutil
import subprocess
import sys
import tempfile

VERIF = os.path.dirname(os.path.dirname(os.path.abspath(__file__)))


def main():
    args = [a for a in sys.argv[1:] if not a.startswith('--')]
    only = None
    if '--only' in sys.argv:
        only = sys.argv[sys.argv.index('--only') + 1]
        args = [a for a in args if a != only]
    table = json.load(open(os.path.join(VERIF, 'tools', 'mutants.json')))
    ok = True
    rows = []
    for m in table:
        if args and m['prop'] not in args:
            continue
        if only and m['name'] != only:
            continue
        tmp = tempfile.mkdtemp(prefix='pyvc-mut-')
        try:
            shutil.copytree('/repo/pycdlib', os.path.join(tmp, 'pycdlib'))
            shutil.copytree('/repo/tools', os.path.join(tmp, 'tools'))
            if 'revert_commit' in m:
                # the mutant is 'the repair of a defect undone': the check must report the defect again
                d = subprocess.run(['git', '-C', '/repo', 'diff', m['revert_commit'] + '~1', m['revert_commit']], capture_output=True, text=True)
                p = subprocess.run(['patch', '-R', '-p1', '-s'], input=d.stdout, cwd=tmp, capture_output=True, text=True)
                if p.returncode != 0:
                    rows.append((m['name'], 'REVERT-DOES-NOT-APPLY ' + (p.stdout + p.stderr)[-120:].replace('\n', ' ')))
                    ok = False
                    continue
            else:
                path = os.path.join(tmp, m['file'])
                src = open(path).read()
                if src.count(m['old']) != m.get('count', 1):
                    rows.append((m['name'], 'PATTERN-NOT-FOUND(%d)' % src.count(m['old'])))
                    ok = False
                    continue
                open(path, 'w').write(src.replace(m['old'], m['new']))
            env = dict(os.environ, PYVC_REPO=tmp)
            out = subprocess.run([os.path.join(VERIF, 'check'), m['prop'], '--tier', 'quick'], capture_output=True, text=True, env=env, cwd=VERIF)
            viol = [l for l in out.stdout.split('\n') if l.startswith('VIOLATION')]
            hit = [l for l in viol if m['expect'] in l]
            expected_miss = m.get('expected_non_detection', False)
            if expected_miss:
                status = 'not-detected-as-expected' if out.returncode == 0 else 'UNEXPECTED exit %d' % out.returncode
                ok = ok and out.returncode == 0
            elif out.returncode == 1 and hit:
                status = 'caught: ' + hit[0].split('obligation=')[-1]
            else:
                status = 'MISSED (exit %d) %s' % (out.returncode, (viol or out.stdout.strip().split('\n'))[-1][:200])
                ok = False
            rows.append((m['name'], status))
        finally:
            shutil.rmtree(tmp, ignore_errors=True)
    for n, s in rows:
        print('%-45s %s' % (n, s))
    # restore evidence/replays produced against mutants: they are not results about /repo
    sys.exit(0 if ok else 1)


if __name__ == '__main__':
    main()
