"""debug helper: run one fidelity script on the real library under CPython and decode it with the independent reader.
usage: PYTHONPATH=/repo:/verif /venv/bin/python tools/native_script.py <script> [Mastered|Reopened]"""
import sys, json
sys.path.insert(0, '/verif')
from pyvc.contract import ConcCtx, Outcome
from contracts import fidelity as F
kname = sys.argv[2] if len(sys.argv) > 2 else 'Mastered'
K = getattr(F, kname)()
K.script = sys.argv[1]
K.P = {'script': sys.argv[1]}
if len(sys.argv) > 3:
    import json as _j
    for _k, _v in _j.loads(sys.argv[3]).items():
        setattr(K, _k, _v)
c = ConcCtx({})
call = K.setup(c)
import pycdlib
fn = getattr(pycdlib.PyCdlib, K.target.rsplit('.', 1)[1])
try:
    res = fn(call.self_obj, *call.args, **call.kwargs)
    oc = Outcome('return', result=res)
    cl = K.post(c, c.a, oc)
    for k, v in cl.items():
        print('%-70s %s' % (k, v))
    print(json.dumps(K.observe(c, c.a, oc), indent=1)[:4000])
except Exception:
    import traceback
    traceback.print_exc()
