"""debug helper: run one contract on the real library under CPython with default (zero) inputs and print its clauses.
usage: PYTHONPATH=/repo:/verif /venv/bin/python tools/native_unit.py contracts.inplace ModifiedInPlace '{"case": "plain:B:min"}' ['{"input": value}']"""
import sys, json
sys.path.insert(0, '/verif')
import importlib
from pyvc.contract import ConcCtx, Outcome, resolve_real
mod = importlib.import_module(sys.argv[1])
K = getattr(mod, sys.argv[2])()
params = json.loads(sys.argv[3]) if len(sys.argv) > 3 else {}
for k, v in params.items():
    setattr(K, k, v)
K.P = params
c = ConcCtx(json.loads(sys.argv[4]) if len(sys.argv) > 4 else {})
call = K.setup(c)
if hasattr(K, 'real_call'):
    fn = lambda *a_, **k_: K.real_call(c, call)  # noqa
    args = []
else:
    fn = resolve_real(K.target)
    args = ([call.self_obj] if call.self_obj is not None else []) + list(call.args)
try:
    res = fn(*args, **call.kwargs)
    oc = Outcome('return', result=res)
    cl = K.post(c, c.a, oc)
except Exception as e:
    import traceback
    traceback.print_exc()
    oc = Outcome('raise', exc=type(e).__name__)
    oc.exc_obj = e
    cl = K.post_raise(c, c.a, oc) if hasattr(K, 'post_raise') else {}
for k, v in (cl or {}).items():
    print('%-70s %s' % (k, v))
print(json.dumps(K.observe(c, c.a, oc), indent=1, default=str)[:3000])
