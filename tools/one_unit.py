"""debug helper: verify one unit in-process and print its obligations.  usage: python3-vt tools/one_unit.py contracts.rockridge RRNew '{"name_len":190}'"""
import sys, json, os
sys.path.insert(0, '/verif')
sys.setrecursionlimit(20000)
import importlib
from pyvc.verify import Unit, verify_unit
mod = importlib.import_module(sys.argv[1])
u = Unit(getattr(mod, sys.argv[2]), json.loads(sys.argv[3]) if len(sys.argv) > 3 else {})
res = verify_unit(u, os.environ.get('PYVC_REPO', '/repo'), {'unit_timeout_s': int(os.environ.get('UNIT_TIMEOUT', '600')), 'max_paths': int(os.environ.get('MAX_PATHS', '3000'))})
for k, v in res.items():
    if k == 'obligations':
        for o in v:
            print(' ', {kk: (vv if kk != 'model' else '...') for kk, vv in o.items()})
    else:
        print(k, ':', str(v)[:2000])
