#!/usr/bin/env python3
"""Re-confirm every stored seeded change against the CURRENT /repo tree (fix commits may have neutralised or displaced some):
scratch copy outside /repo and /verif, demo.py without the patch must exit 0 and with the patch must exit non-zero.
Writes seeded/STATUS.json {id: still-breaks | neutralised | does-not-apply | demo-fails-on-current-tree}."""
import concurrent.futures as cf
import glob
import json
import os
import shutil
import subprocess
import sys
import tempfile

VERIF = os.path.dirname(os.path.dirname(os.path.abspath(__file__)))
PY = '/venv/bin/python'


def one(d):
    sid = os.path.basename(d)
    demo = os.path.join(d, 'demo.py')
    if not os.path.exists(demo):
        cands = glob.glob(os.path.join(d, 'demo*'))
        demo = cands[0] if cands else None
    if demo is None:
        return sid, 'no-demo', ''
    tmp = tempfile.mkdtemp(prefix='pyvc-recheck-')
    try:
        for sub in ('pycdlib', 'tools', 'tests'):
            shutil.copytree(os.path.join('/repo', sub), os.path.join(tmp, sub))
        env = dict(os.environ, PYTHONPATH=tmp)
        r0 = subprocess.run([PY, demo], cwd=tmp, env=env, capture_output=True, text=True, timeout=900)
        p = subprocess.run(['patch', '-p1', '-s', '-i', os.path.join(d, 'patch.diff')], cwd=tmp, capture_output=True, text=True)
        if p.returncode != 0:
            return sid, 'does-not-apply', (p.stdout + p.stderr)[-200:]
        r1 = subprocess.run([PY, demo], cwd=tmp, env=env, capture_output=True, text=True, timeout=900)
        if r0.returncode != 0:
            return sid, 'demo-fails-on-current-tree', (r0.stdout + r0.stderr)[-300:]
        if r1.returncode == 0:
            return sid, 'neutralised', ''
        return sid, 'still-breaks', (r1.stdout + r1.stderr)[-200:]
    except subprocess.TimeoutExpired:
        return sid, 'timeout', ''
    finally:
        shutil.rmtree(tmp, ignore_errors=True)


def main():
    only = sys.argv[1:]
    dirs = [d for d in sorted(glob.glob(os.path.join(VERIF, 'seeded', 'C*-*'))) if not only or os.path.basename(d) in only or os.path.basename(d).split('-')[0] in only]
    path = os.path.join(VERIF, 'seeded', 'STATUS.json')
    res = json.load(open(path)) if os.path.exists(path) else {}
    head = subprocess.run(['git', '-C', '/repo', 'rev-parse', '--short', 'HEAD'], capture_output=True, text=True).stdout.strip()
    with cf.ThreadPoolExecutor(max_workers=8) as ex:
        for sid, status, note in ex.map(one, dirs):
            res[sid] = {'status': status, 'repo_head': head, 'note': note}
            print(sid, status, note.replace('\n', ' ')[-120:])
    with open(path, 'w') as f:
        json.dump(res, f, indent=1, sort_keys=True)


if __name__ == '__main__':
    main()
