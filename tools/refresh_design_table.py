"""rewrite the 'units' and 'obligations' columns of the table in DESIGN.md section A.3 from evidence/<id>.json (quick tier evidence)"""
import json, re, os
here = os.path.dirname(os.path.abspath(__file__)) + '/..'
s = open(here + '/DESIGN.md').read()
def fix(m):
    pid = m.group(1)
    try:
        cov = json.load(open('%s/evidence/%s.json' % (here, pid)))['coverage']
    except OSError:
        return m.group(0)
    return '| %s | %d | %d |' % (pid, len(cov['units']), cov['obligations'])
s2 = re.sub(r'^\| (C\d\d) \| \d+ \| \d+ \|', fix, s, flags=re.M)
open(here + '/DESIGN.md', 'w').write(s2)
print('changed' if s2 != s else 'unchanged')
