"""rewrite the table of DESIGN.md section A.7 (seeded changes) from seeded/RESULTS.json, seeded/STATUS.json and the patches"""
import json, os, re
here = os.path.dirname(os.path.abspath(__file__)) + '/..'
res = json.load(open(here + '/seeded/RESULTS.json'))
try:
    status = json.load(open(here + '/seeded/STATUS.json'))
except OSError:
    status = {}
rows = ['| change | touches | caught by | first failing obligation |', '|---|---|---|---|']
for cid in sorted(res):
    r = res[cid]
    patch = open('%s/seeded/%s/patch.diff' % (here, cid)).read()
    files = sorted(set(m.rsplit('/', 1)[1] for m in re.findall(r'^\+\+\+ b/(\S+)', patch, flags=re.M)))
    prop = cid.split('-')[0]
    viol = (r.get('checks', {}).get(prop, {}) or {}).get('violations') or []
    st = status.get(cid, {}).get('status') if isinstance(status.get(cid), dict) else status.get(cid)
    if r.get('caught_by'):
        first = viol[0].split('/', 1)[1] if viol else '(see replay)'
        rows.append('| %s | %s | %s | `%s` |' % (cid, ', '.join(files), ', '.join(r['caught_by']), first[:170]))
    else:
        rows.append('| %s | %s | — | not caught: %s |' % (cid, ', '.join(files), st or 'the patched demo no longer fails (neutralised by a repair)'))
s = open(here + '/DESIGN.md').read()
i = s.index('| change | touches | caught by | first failing obligation |')
j = i
lines = s[i:].split('\n')
n = 0
while n < len(lines) and lines[n].startswith('|'):
    n += 1
s = s[:i] + '\n'.join(rows) + '\n' + '\n'.join(lines[n:])
open(here + '/DESIGN.md', 'w').write(s)
print(len(rows) - 2, 'rows')
