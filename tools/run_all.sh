#!/bin/sh
# run every claimed check (quick tier) and print one summary line each; non-zero exit if any check is not clean
cd "$(dirname "$0")/.."
rc=0
for p in $(python3 -c "import json; print(' '.join(c['property_id'] for c in json.load(open('MANIFEST.json'))['checks']))"); do
  out=$(./check $p --tier quick 2>&1); code=$?
  echo "$out" | tail -1
  if [ $code -ne 0 ]; then rc=1; echo "   ^^^ exit $code"; echo "$out" | grep -v "^KNOWN" | head -5; fi
done
exit $rc
