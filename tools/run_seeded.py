#!/usr/bin/env python3
"""Run the claimed checks against every confirmed seeded change (scratch copy of /repo with the patch applied, removed afterwards).
Writes seeded/RESULTS.json: which check (if any) reports a VIOLATION for which change."""
import glob
import json
import os
import shutil
import subprocess
import sys
import tempfile

VERIF = os.path.dirname(os.path.dirname(os.path.abspath(__file__)))


def main():
    man = json.load(open(os.path.join(VERIF, 'MANIFEST.json')))
    claimed = [c['property_id'] for c in man['checks']]
    only = [a for a in sys.argv[1:] if not a.startswith('--')]
    all_props = '--all-props' in sys.argv
    res = {}
    path = os.path.join(VERIF, 'seeded', 'RESULTS.json')
    if os.path.exists(path):
        res = json.load(open(path))
    for d in sorted(glob.glob(os.path.join(VERIF, 'seeded', 'C*-*'))):
        sid = os.path.basename(d)
        prop = sid.split('-')[0]
        if only and sid not in only and prop not in only:
            continue
        tmp = tempfile.mkdtemp(prefix='pyvc-seed-')
        try:
            shutil.copytree('/repo/pycdlib', os.path.join(tmp, 'pycdlib'))
            shutil.copytree('/repo/tools', os.path.join(tmp, 'tools'))
            p = subprocess.run(['patch', '-p1', '-s', '-i', os.path.join(d, 'patch.diff')], cwd=tmp, capture_output=True, text=True)
            if p.returncode != 0:
                res[sid] = {'applies': False, 'err': (p.stdout + p.stderr)[-300:]}
                continue
            props = claimed if all_props else ([prop] if prop in claimed else [])
            entry = {'applies': True, 'checks': {}}
            for q in props:
                out = subprocess.run([os.path.join(VERIF, 'check'), q, '--tier', 'quick'], capture_output=True, text=True, env=dict(os.environ, PYVC_REPO=tmp), cwd=VERIF)
                viol = [l.split('obligation=')[-1] for l in out.stdout.split('\n') if l.startswith('VIOLATION')]
                entry['checks'][q] = {'exit': out.returncode, 'violations': viol[:6], 'tail': out.stdout.strip().split('\n')[-1][:300] if out.returncode not in (0, 1) else ''}
            entry['caught_by'] = sorted(q for q, v in entry['checks'].items() if v['exit'] == 1)
            res[sid] = entry
            print(sid, 'caught by', entry['caught_by'] or '-', {q: v['exit'] for q, v in entry['checks'].items()})
        finally:
            shutil.rmtree(tmp, ignore_errors=True)
    with open(path, 'w') as f:
        json.dump(res, f, indent=1, sort_keys=True)


if __name__ == '__main__':
    main()
