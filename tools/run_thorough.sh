#!/bin/sh
# run every claimed check in the thorough tier, one summary line each
cd "$(dirname "$0")/.."
for p in $(python3 -c "import json; print(' '.join(c['property_id'] for c in json.load(open('MANIFEST.json'))['checks']))"); do
  start=$(date +%s)
  out=$(./check $p --tier thorough 2>&1); code=$?
  echo "$out" | tail -1
  if [ $code -ne 0 ]; then echo "   ^^^ exit $code"; echo "$out" | grep -v "^KNOWN" | head -8 | cut -c1-400; fi
done
