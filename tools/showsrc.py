#!/usr/bin/env python3
"""print a class/function of a repo module without docstrings: tools/showsrc.py pycdlib/eltorito.py EltoritoBootCatalog [method]"""
import ast, sys
tree = ast.parse(open(sys.argv[1]).read())
for n in ast.walk(tree):
    if isinstance(n, (ast.FunctionDef, ast.ClassDef, ast.Module)) and n.body and isinstance(n.body[0], ast.Expr) and isinstance(getattr(n.body[0], 'value', None), ast.Constant) and isinstance(n.body[0].value.value, str):
        n.body = n.body[1:] or [ast.Pass()]
names = sys.argv[2:]
def find(body, names):
    for n in body:
        if isinstance(n, (ast.FunctionDef, ast.ClassDef)) and n.name == names[0]:
            if len(names) == 1:
                return n
            return find(n.body, names[1:])
node = find(tree.body, names) if names else tree
print(ast.unparse(node))
