#!/usr/bin/env python3
"""Independent confirmation of sub-agent mutations: for each /tmp/seed/Cxx/out/n, in a scratch worktree of /repo HEAD
(outside /repo and /verif, removed afterwards): patch applies, the set of passing tests is the baseline set, demo.py passes
without and fails with the patch.  Confirmed ones are stored under /verif/seeded/<id>/."""
import concurrent.futures as cf
import glob
import json
import os
import shutil
import subprocess
import sys
import xml.etree.ElementTree as ET

VERIF = os.path.dirname(os.path.dirname(os.path.abspath(__file__)))
PY = '/venv/bin/python'


def sh(cmd, cwd=None, env=None, timeout=1800):
    return subprocess.run(cmd, shell=True, cwd=cwd, env=env, capture_output=True, text=True, timeout=timeout)


def passed_set(tree, tag):
    xml = '/tmp/sv/%s.xml' % tag
    env = dict(os.environ, PYTHONPATH=tree)
    sh('%s -m pytest -q -p no:cacheprovider --timeout=900 --continue-on-collection-errors --junitxml=%s tests' % (PY, xml), cwd=tree, env=env)
    out = set()
    try:
        for tc in ET.parse(xml).getroot().iter('testcase'):
            if not any(ch.tag in ('failure', 'error', 'skipped') for ch in tc):
                out.add(tc.get('classname') + '::' + tc.get('name'))
    except Exception as e:
        return None
    return out


def one(job):
    sid, src = job
    wt = '/tmp/sv/wt-%s' % sid
    res = {'id': sid, 'source': src}
    try:
        sh('git -C /repo worktree remove --force %s' % wt)
        r = sh('git -C /repo worktree add -q --detach %s HEAD' % wt)
        if r.returncode != 0:
            res['error'] = 'worktree: ' + r.stderr
            return res
        demo = os.path.join(src, 'demo.py')
        env = dict(os.environ, PYTHONPATH=wt)
        d0 = sh('%s %s' % (PY, demo), cwd=wt, env=env, timeout=900)
        res['demo_without_patch_exit'] = d0.returncode
        a = sh('git apply %s' % os.path.join(src, 'patch.diff'), cwd=wt)
        if a.returncode != 0:
            a = sh('git apply -3 %s' % os.path.join(src, 'patch.diff'), cwd=wt)
        res['applies_to_head'] = a.returncode == 0
        if a.returncode != 0:
            res['apply_error'] = a.stderr[-400:]
            return res
        c = sh('%s -c "import pycdlib"' % PY, cwd=wt, env=env)
        res['imports'] = c.returncode == 0
        d1 = sh('%s %s' % (PY, demo), cwd=wt, env=env, timeout=900)
        res['demo_with_patch_exit'] = d1.returncode
        res['demo_with_patch_tail'] = (d1.stdout + d1.stderr)[-400:]
        ps = passed_set(wt, sid)
        res['passed_with_patch'] = len(ps) if ps is not None else None
        res['_ps'] = ps
        res['diff'] = sh('git diff', cwd=wt).stdout
    except Exception as e:
        res['error'] = repr(e)
    finally:
        sh('git -C /repo worktree remove --force %s' % wt)
        shutil.rmtree(wt, ignore_errors=True)
    return res


def main():
    os.makedirs('/tmp/sv', exist_ok=True)
    base_wt = '/tmp/sv/wt-base'
    sh('git -C /repo worktree remove --force %s' % base_wt)
    sh('git -C /repo worktree add -q --detach %s HEAD' % base_wt)
    base = passed_set(base_wt, 'base')
    sh('git -C /repo worktree remove --force %s' % base_wt)
    print('baseline passed:', len(base))
    jobs = []
    for d in sorted(glob.glob('/tmp/seed/C*/out/[0-9]*')):
        if os.path.exists(os.path.join(d, 'patch.diff')) and os.path.exists(os.path.join(d, 'demo.py')):
            pid = d.split('/')[3]
            jobs.append(('%s-%s' % (pid, os.path.basename(d)), d))
    only = sys.argv[1:]
    if only:
        jobs = [j for j in jobs if j[0] in only]
    with cf.ThreadPoolExecutor(6) as ex:
        results = list(ex.map(one, jobs))
    head = sh('git -C /repo log --format=%h -1').stdout.strip()
    for r in results:
        ps = r.pop('_ps', None)
        r['same_passing_set_as_baseline'] = (ps == base) if ps is not None else None
        ok = r.get('applies_to_head') and r.get('imports') and r.get('demo_without_patch_exit') == 0 and r.get('demo_with_patch_exit') not in (0, None) and r['same_passing_set_as_baseline']
        r['confirmed'] = bool(ok)
        print(r['id'], 'CONFIRMED' if ok else 'NOT-CONFIRMED', {k: v for k, v in r.items() if k not in ('diff', 'demo_with_patch_tail', 'source')})
        if ok:
            dst = os.path.join(VERIF, 'seeded', r['id'])
            os.makedirs(dst, exist_ok=True)
            with open(os.path.join(dst, 'patch.diff'), 'w') as f:
                f.write(r['diff'])
            shutil.copy(os.path.join(r['source'], 'demo.py'), os.path.join(dst, 'demo.py'))
            notes = open(os.path.join(r['source'], 'notes.md')).read() if os.path.exists(os.path.join(r['source'], 'notes.md')) else ''
            with open(os.path.join(dst, 'notes.md'), 'w') as f:
                f.write(notes)
            meta = {'id': r['id'], 'property': r['id'].split('-')[0], 'origin': 'independent sub-agent given only the property text and a scratch worktree',
                    'confirmed_against_repo_commit': head,
                    'what_i_ran': ['git apply patch.diff in a scratch worktree of /repo HEAD', 'import pycdlib', 'full pytest suite: passing set identical to baseline (%d tests)' % len(base),
                                   'demo.py without patch: exit %s' % r['demo_without_patch_exit'], 'demo.py with patch: exit %s' % r['demo_with_patch_exit']],
                    'demo_failure_tail': r.get('demo_with_patch_tail'),
                    'needs_to_manifest': 'see notes.md (sub-agent description)'}
            with open(os.path.join(dst, 'meta.json'), 'w') as f:
                json.dump(meta, f, indent=1)
    shutil.rmtree('/tmp/sv', ignore_errors=True)


if __name__ == '__main__':
    main()
